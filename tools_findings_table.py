#!/venv/bin/python
"""Regenerate the tables of DESIGN.md section 6.1 / 6.2 from known_findings.json (between the marker comments)."""
import json
import os
import re

HERE = os.path.dirname(os.path.abspath(__file__))
d = json.load(open(os.path.join(HERE, "known_findings.json")))
rows = []
for line in d["fixed"]:
    m = re.match(r"fixed: property=(C\d+) ([0-9a-f]+) (.*)", line, re.S)
    rows.append(f"| {m.group(1)} | `{m.group(2)}` | {m.group(3).replace('|', '\\|')} |")
t1 = "| property | commit | what failed |\n|---|---|---|\n" + "\n".join(rows)
rows = [f"| {f['property']} | `{f['key']}` | {f['what'].replace('|', '\\|')} |" for f in d["findings"]]
t2 = "| property | key (regular expression) | what fails |\n|---|---|---|\n" + "\n".join(rows)
p = os.path.join(HERE, "DESIGN.md")
s = open(p).read()
s = re.sub(r"### 6\.1 Repaired \(\d+ `fix:` commits\)\n\n(\|.*\n)+", lambda m: f"### 6.1 Repaired ({len(d['fixed'])} `fix:` commits)\n\n{t1}\n", s)
s = re.sub(r"(### 6\.2 Known findings[^\n]*\n\n)(\|.*\n)+", lambda m: m.group(1) + t2 + "\n", s)
open(p, "w").write(s)
print(len(d["fixed"]), "fixed,", len(d["findings"]), "findings")
