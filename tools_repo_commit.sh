#!/bin/sh
# usage: tools_repo_commit.sh <message-file>   -- run the repository's tests, commit only if they pass
cd /repo || exit 1
if /venv/bin/python -m pytest -q -p no:cacheprovider -x -n 8 > /tmp/repo_commit.log 2>&1; then
  tail -1 /tmp/repo_commit.log
  git commit -q -a -F "$1" && git log --oneline | head -1
else
  tail -15 /tmp/repo_commit.log; echo "TESTS FAILED - not committed"; exit 1
fi
