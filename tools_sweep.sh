#!/bin/sh
# usage: tools_sweep.sh <tier> <seed> [ids...]   -- runs the registered checks one after another, prints one line each
tier="$1"; seed="$2"; shift 2
cd "$(dirname "$0")" || exit 2
ids="$*"
[ -z "$ids" ] && ids=$(/venv/bin/python -c "import json;print(' '.join(json.load(open('ready.json'))))")
for id in $ids; do
  t0=$(date +%s)
  VERIF_SEED=$seed ./check $id --tier $tier > /tmp/sweep_$id.log 2>&1; rc=$?
  t1=$(date +%s)
  echo "$id tier=$tier seed=$seed rc=$rc wall=$((t1-t0))s $(grep -c '^VIOLATION' /tmp/sweep_$id.log) violations $(grep -E '^INCONCLUSIVE|^BROKEN' /tmp/sweep_$id.log | cut -c1-200)"
done
