#!/venv/bin/python
"""Print a markdown table of the filed seeded changes and which checks caught them (from seeded/*/meta.json)."""
import glob
import json
import os
import re

here = os.path.dirname(os.path.abspath(__file__))
rows = []
for d in sorted(glob.glob(os.path.join(here, "seeded", "*"))):
    mp = os.path.join(d, "meta.json")
    if not os.path.exists(mp):
        continue
    m = json.load(open(mp))
    notes = ""
    np_ = os.path.join(d, "notes.md")
    if os.path.exists(np_):
        notes = open(np_).read()
    site = ""
    pm = re.search(r"^diff --git a/(\S+)", open(os.path.join(d, "patch.diff")).read(), re.M)
    if pm:
        site = pm.group(1).replace("ufl/", "")
    res = []
    for k, v in sorted(m.get("checks", {}).items()):
        res.append(f"{k.split('@')[0]}: {v['verdict']}")
    later = m.get("later", [])
    rows.append((m["name"], m["breaks"], site, m.get("summary", ""), "; ".join(res), "; ".join(later)))
print("| seeded change | breaks | site | what it is / needs | first run | after strengthening |")
print("|---|---|---|---|---|---|")
for r in rows:
    print("| " + " | ".join(x.replace("|", "/") for x in r) + " |")
