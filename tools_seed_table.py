#!/venv/bin/python
"""Print a markdown table of the filed seeded changes and which checks caught them (from seeded/*/meta.json)."""
import glob
import json
import os
import re

here = os.path.dirname(os.path.abspath(__file__))
rows = []
for d in sorted(glob.glob(os.path.join(here, "seeded", "*"))):
    mp = os.path.join(d, "meta.json")
    if not os.path.exists(mp):
        continue
    m = json.load(open(mp))
    notes = ""
    np_ = os.path.join(d, "notes.md")
    if os.path.exists(np_):
        notes = open(np_).read()
    site = ""
    pm = re.search(r"^diff --git a/(\S+)", open(os.path.join(d, "patch.diff")).read(), re.M)
    if pm:
        site = pm.group(1).replace("ufl/", "")
    res = []
    for k, v in sorted(m.get("checks", {}).items()):
        res.append(f"{k.split('@')[0]} {v['verdict']}")
    later = []
    for k, v in sorted(m.get("rechecked", {}).items()):
        if isinstance(v, dict):
            keys = ", ".join("`" + x.split("/", 1)[1] + "`" for x in v.get("keys", [])[:1] if "/" in x)
            later.append(f"{k} {v['verdict']} ({keys})" if keys else f"{k} {v['verdict']}")
    if m.get("superseded"):
        later = ["superseded by a repository fix (see meta.json)"]
    title = ""
    for ln in notes.splitlines():
        if ln.startswith("#"):
            title = re.sub(r"^#+\s*(C\d+_\d+)?\s*[-:–—]*\s*", "", ln).strip()
            break
    rows.append((m["name"], m["breaks"], site, title[:150], "; ".join(res), "; ".join(later)))
print("| seeded change | breaks | site (under ufl/) | what it is | when first filed | now (quick tier; example keys) |")
print("|---|---|---|---|---|---|")
for r in rows:
    print("| " + " | ".join(x.replace("|", "/") for x in r) + " |")
