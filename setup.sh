#!/bin/sh
# offline setup: install helper packages (mpmath, icontract, jsonschema) from the local
# wheelhouse into the git-ignored .deps directory next to this file
here="$(cd "$(dirname "$0")" && pwd)"
cd "$here" || exit 1
export PIP_NO_INDEX=1
PYTHONPATH="$here" /venv/bin/python -B -c "import vf; print('ufl from', vf.bootstrap().__file__)"
