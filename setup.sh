#!/bin/sh
# offline setup: install helper packages (mpmath, icontract, jsonschema; scipy for the Bessel evaluation
# monitored by C24) from the local wheelhouse into the git-ignored .deps directory next to this file
here="$(cd "$(dirname "$0")" && pwd)"
cd "$here" || exit 1
export PIP_NO_INDEX=1
PYTHONPATH="$here" /venv/bin/python -B -c "import vf; print('ufl from', vf.bootstrap().__file__); from vf import c24_deps; print('scipy for C24:', c24_deps.HAVE_SCIPY)"
