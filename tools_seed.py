#!/venv/bin/python
"""Confirm a seeded property-breaking change and file it under /verif/seeded/<name>/.

usage: tools_seed.py <source dir with patch.diff, demo.py[, notes.md]> <property id> <name> [--checks C01,C05] [--tier quick]

Steps (all in a scratch git worktree of /repo under /tmp which is removed afterwards):
  1. demo.py on the clean checkout exits 0
  2. patch applies; the repository's own test-suite still passes
  3. demo.py with the patch exits non-zero
  4. the named checks (default: the property's own) are run against the patched tree (VERIF_REPO=...), their verdict
     lines are recorded
Writes seeded/<name>/{patch.diff,demo.py,notes.md,meta.json}; never touches /repo's working tree.
"""

import json
import os
import shutil
import subprocess
import sys
import tempfile
import time

HERE = os.path.dirname(os.path.abspath(__file__))
PY = "/venv/bin/python"


def run(cmd, cwd=None, env=None, timeout=3600):
    p = subprocess.run(cmd, cwd=cwd, env=env, stdout=subprocess.PIPE, stderr=subprocess.STDOUT, timeout=timeout, text=True)
    return p.returncode, p.stdout


def main():
    args = [a for a in sys.argv[1:] if not a.startswith("--")]
    opts = dict(a[2:].split("=", 1) if "=" in a else (a[2:], "1") for a in sys.argv[1:] if a.startswith("--"))
    src, pid, name = args[:3]
    checks = opts.get("checks", pid).split(",")
    tier = opts.get("tier", "quick")
    seeds = [int(s) for s in opts.get("seeds", "0").split(",")]
    wt = tempfile.mkdtemp(prefix="seedchk_", dir="/tmp")
    os.rmdir(wt)
    meta = {"property": pid, "name": name, "ran": [], "checked_at": time.strftime("%Y-%m-%d %H:%M:%S")}
    ok = True
    try:
        rc, out = run(["git", "-C", "/repo", "worktree", "add", "--detach", wt, "HEAD", "-q"])
        assert rc == 0, out
        env = dict(os.environ, PYTHONPATH=wt, PYTHONDONTWRITEBYTECODE="1")
        demo = os.path.join(src, "demo.py")
        shutil.copy(demo, os.path.join(wt, "_demo.py"))
        rc0, out0 = run([PY, "-B", "_demo.py"], cwd=wt, env=env, timeout=600)
        meta["ran"].append({"step": "demo on clean checkout", "exit": rc0, "tail": out0[-300:]})
        rc, out = run(["git", "-C", wt, "apply", os.path.abspath(os.path.join(src, "patch.diff"))])
        meta["ran"].append({"step": "git apply patch.diff", "exit": rc, "tail": out[-300:]})
        if rc != 0:
            ok = False
        else:
            rc, out = run([PY, "-B", "-c", "import ufl, os; print(os.path.dirname(ufl.__file__))"], cwd=wt, env=env)
            assert out.strip().endswith(wt + "/ufl"), out
            rct, outt = run([PY, "-m", "pytest", "-q", "-p", "no:cacheprovider", "-n", "8", "test/"], cwd=wt, env=env, timeout=1800)
            meta["ran"].append({"step": "repository test-suite with the change", "exit": rct, "tail": outt.strip().splitlines()[-1][-200:] if outt.strip() else ""})
            rc1, out1 = run([PY, "-B", "_demo.py"], cwd=wt, env=env, timeout=600)
            meta["ran"].append({"step": "demo with the change", "exit": rc1, "tail": out1[-400:]})
            ok = rc0 == 0 and rct == 0 and rc1 != 0
            meta["confirmed"] = ok
            results = {}
            if ok or opts.get("force"):
                for c in checks:
                    for sd in seeds:
                        env2 = dict(os.environ, VERIF_REPO=wt, VERIF_SEED=str(sd))
                        t0 = time.time()
                        rcc, outc = run([os.path.join(HERE, "check"), c, "--tier", tier], cwd=HERE, env=env2, timeout=7200)
                        lines = [ln[:400] for ln in outc.splitlines() if ln.startswith(("VIOLATION", "  key=", "HELD", "INCONCLUSIVE", "BROKEN", "KNOWN-FINDING"))]
                        results[f"{c}@seed{sd}"] = {"exit": rcc, "wall_s": round(time.time() - t0, 1), "lines": lines[:8],
                                                    "verdict": "caught" if rcc == 1 else ("missed" if rcc == 0 else "inconclusive/broken")}
                        print(c, "seed", sd, "->", results[f"{c}@seed{sd}"]["verdict"], lines[:3])
            meta["checks"] = results
    finally:
        run(["git", "-C", "/repo", "worktree", "remove", "--force", wt])
        shutil.rmtree(wt, ignore_errors=True)
        run(["git", "-C", "/repo", "worktree", "prune"])
    print(json.dumps({k: v for k, v in meta.items() if k != "checks"}, indent=1))
    if not ok and not opts.get("force"):
        print("NOT CONFIRMED - nothing filed")
        return 1
    dst = os.path.join(HERE, "seeded", name)
    os.makedirs(dst, exist_ok=True)
    for fn in ("patch.diff", "demo.py", "notes.md"):
        if os.path.exists(os.path.join(src, fn)):
            shutil.copy(os.path.join(src, fn), os.path.join(dst, fn))
    notes = ""
    if os.path.exists(os.path.join(src, "notes.md")):
        notes = open(os.path.join(src, "notes.md")).read()
    meta["breaks"] = pid
    meta["needs_to_manifest"] = opts.get("needs", "see notes.md")
    meta["origin"] = opts.get("origin", "fresh sub-agent given only the property text and a scratch worktree")
    with open(os.path.join(dst, "meta.json"), "w") as fh:
        json.dump(meta, fh, indent=1)
    print("filed", dst)
    return 0


if __name__ == "__main__":
    sys.exit(main())
