#!/venv/bin/python
"""Re-run the filed seeded changes against the current checks and record the verdicts in seeded/<name>/meta.json.

usage: tools_seed_recheck.py [--only=name1,name2] [--tier=quick] [--extra=C01_1:C09,...]
For each seeded change: scratch worktree of /repo, apply patch.diff, run the property's own check (plus the checks given
with --extra) with VERIF_REPO pointing at the worktree, remove the worktree.  meta['rechecked'] = {check: {verdict, keys, commit}}.
"""
import glob
import json
import os
import subprocess
import sys
import tempfile
import time

HERE = os.path.dirname(os.path.abspath(__file__))


def run(cmd, **kw):
    p = subprocess.run(cmd, stdout=subprocess.PIPE, stderr=subprocess.STDOUT, text=True, **kw)
    return p.returncode, p.stdout


def main():
    opts = dict(a[2:].split("=", 1) for a in sys.argv[1:] if a.startswith("--") and "=" in a)
    only = set(opts["only"].split(",")) if "only" in opts else None
    tier = opts.get("tier", "quick")
    extra = {}
    for item in opts.get("extra", "").split(","):
        if ":" in item:
            n, c = item.split(":")
            extra.setdefault(n, []).append(c)
    commit = run(["git", "-C", HERE, "log", "--format=%h", "-1"])[1].strip()
    for d in sorted(glob.glob(os.path.join(HERE, "seeded", "*"))):
        name = os.path.basename(d)
        if only and name not in only:
            continue
        mp = os.path.join(d, "meta.json")
        meta = json.load(open(mp))
        wt = tempfile.mkdtemp(prefix="seedre_", dir="/tmp")
        os.rmdir(wt)
        try:
            rc, out = run(["git", "-C", "/repo", "worktree", "add", "--detach", wt, "HEAD", "-q"])
            rc, out = run(["git", "-C", wt, "apply", os.path.join(d, "patch.diff")])
            if rc != 0:
                print(name, "PATCH DOES NOT APPLY ANY MORE", out[-200:])
                meta.setdefault("rechecked", {})["_patch"] = "does not apply to the current /repo HEAD"
                json.dump(meta, open(mp, "w"), indent=1)
                continue
            for chk in [meta["breaks"]] + extra.get(name, []):
                env = dict(os.environ, VERIF_REPO=wt, VERIF_SEED=opts.get("seed", "0"))
                t0 = time.time()
                rcc, outc = run([os.path.join(HERE, "check"), chk, "--tier", tier], cwd=HERE, env=env, timeout=7200)
                keys = [ln.strip()[4:].split(" (")[0] for ln in outc.splitlines() if ln.startswith("  key=")]
                verdict = "caught" if rcc == 1 else ("missed" if rcc == 0 else "inconclusive/broken")
                meta.setdefault("rechecked", {})[chk] = {"verdict": verdict, "keys": keys[:6], "verif_commit": commit, "tier": tier, "wall_s": round(time.time() - t0, 1)}
                print(name, chk, verdict, keys[:2], flush=True)
            json.dump(meta, open(mp, "w"), indent=1)
        finally:
            run(["git", "-C", "/repo", "worktree", "remove", "--force", wt])
            run(["git", "-C", "/repo", "worktree", "prune"])


if __name__ == "__main__":
    main()
