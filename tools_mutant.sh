#!/bin/sh
# usage: tools_mutant.sh <prop> <file relative to repo> <sed expression> [extra check args]
# applies one sed edit to a scratch copy of /repo, runs the check against it, removes the copy
prop="$1"; file="$2"; expr="$3"; shift 3
d=$(mktemp -d /tmp/repo_mut.XXXXXX)
cp -r /repo/ufl "$d/ufl"
sed -i "$expr" "$d/ufl/$file"
if diff -q /repo/ufl/$file "$d/ufl/$file" >/dev/null; then echo "MUTANT DID NOT CHANGE THE FILE"; rm -rf "$d"; exit 3; fi
VERIF_REPO="$d" /verif/check "$prop" "$@" 2>&1 | grep -E "VIOLATION|key=|HELD|INCONCLUSIVE|BROKEN|KNOWN" | head -8
rm -rf "$d"
