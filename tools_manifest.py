#!/venv/bin/python
"""Regenerate MANIFEST.json from the property modules that exist (single source of truth)."""
import importlib
import json
import os
import sys

here = os.path.dirname(os.path.abspath(__file__))
sys.path.insert(0, here)
import vf  # noqa

props = [json.loads(l) for l in open(os.path.join(here, "properties.jsonl"))]
checks = []
na = []
ready = set(json.load(open(os.path.join(here, "ready.json"))))
for p in props:
    pid = p["id"]
    path = os.path.join(here, "vf", "props", pid + ".py")
    if not os.path.exists(path) or pid not in ready:
        na.append({"property_id": pid, "reason": "check not built yet (runtime-monitoring design exists in DESIGN.md section 4)"})
        continue
    mod = importlib.import_module("vf.props." + pid)
    if getattr(mod, "NOT_READY", False):
        na.append({"property_id": pid, "reason": mod.NOT_READY})
        continue
    checks.append(
        {
            "property_id": pid,
            "quick_cmd": f"./check {pid} --tier quick",
            "thorough_cmd": f"./check {pid} --tier thorough",
            "evidence_file": f"/verif/evidence/{pid}.json",
            "replay_cmd_template": f"./check {pid} --replay {{path}}",
            "engine": getattr(mod, "ENGINE", "seval"),
            "level_claimed": {
                "category": getattr(mod, "LEVEL", "exploration"),
                "text": mod.LEVEL_TEXT,
                "design_ref": f"DESIGN.md section 4, {pid}",
            },
            "level_note": mod.LEVEL_NOTE,
            "technique": mod.TECHNIQUE,
        }
    )
engines = json.load(open(os.path.join(here, "engines.json")))
served = {}
for c in checks:
    served.setdefault(c["engine"], []).append(c["property_id"])
for e in engines:
    e["serves_properties"] = served.get(e["name"], [])
man = {
    "version": 1,
    "setup_cmd": "./setup.sh",
    "hooks": {
        "guard": "UFL_VERIF",
        "enable": "no source hooks: with UFL_VERIF=1 (set by ./check) the harness attaches its monitors to the unmodified /repo sources at run time (function rebinding, __new__ wrappers, sys.monitoring)",
        "baseline_off_cmd": "cd /repo && /venv/bin/python -m pytest -ra -q -p no:cacheprovider --timeout=900 --continue-on-collection-errors",
        "source_commits": [],
        "add_only": True,
    },
    "engines": engines,
    "checks": checks,
    "not_applicable": na,
    "notes": "Runtime monitoring of the real UFL code; see DESIGN.md. Exit 2 = inconclusive (monitor floors not reached / harness broken), never reported as held.",
}
json.dump(man, open(os.path.join(here, "MANIFEST.json"), "w"), indent=1)
print("checks:", [c["property_id"] for c in checks], "not yet:", len(na))
