"""C24 workload: terminal fields (both as float callables for UFL and as exact data for the oracle),
a typed random generator of operator recipes, and the builder that turns a recipe into a real UFL
expression through the public API only.
"""

import math

import numpy as np

import ufl

from . import elements as E
from .c24_den import N

CELLS = {1: "interval", 2: "triangle", 3: "tetrahedron"}
NAMES = ("i", "j", "k", "l")

# ------------------------------------------------------------------ fields


def _dy(rng, lo=-8, hi=8, den=4, nonzero=True):
    while True:
        k = rng.randint(lo, hi)
        if k or not nonzero:
            return k / den


def _num(rng, cplx, nonzero=True):
    if cplx:
        return complex(_dy(rng, nonzero=nonzero), _dy(rng, nonzero=False))
    return _dy(rng, nonzero=nonzero)


class Field:
    """A function of the point: per component a polynomial / a sine wave / a constant."""

    def __init__(self, rng, shape, d, kind, cplx):
        self.shape = tuple(shape)
        self.d = d
        self.kind = kind
        self.cplx = cplx
        self.real = not cplx
        self.comps = {}
        for idx in np.ndindex(*self.shape):
            if kind == "poly":
                terms = []
                for _ in range(rng.choice([1, 2, 2, 3])):
                    ex = [0] * d
                    for _ in range(rng.choice([0, 1, 1, 2, 2, 3])):
                        ex[rng.randrange(d)] += 1
                    terms.append((_num(rng, cplx), tuple(ex)))
                self.comps[idx] = terms
            elif kind == "trig":
                self.comps[idx] = (_num(rng, cplx), tuple(_dy(rng, -6, 6, 4, nonzero=False) for _ in range(d)), _dy(rng, nonzero=False), _num(rng, cplx, nonzero=False))
            elif kind == "int":
                self.comps[idx] = rng.choice([0, 1, 2, -1, 3, 2])
            else:
                self.comps[idx] = _num(rng, cplx)
        self.bits = {"poly": 26, "trig": None, "const": 8, "int": 8}[kind]

    @property
    def constant(self):
        return self.kind in ("const", "int")

    # ---- oracle side: exact data, arbitrary precision
    def mp_value(self, x, MP):
        out = np.empty(self.shape, dtype=object)

        def cv(c):
            return MP.mpc(c.real, c.imag) if isinstance(c, complex) else MP.mpf(c)

        for idx, data in self.comps.items():
            if self.kind == "poly":
                tot = MP.mpf(0)
                for c, ex in data:
                    t = cv(c)
                    for k, e in enumerate(ex):
                        if e:
                            t = t * x[k] ** e
                    tot = tot + t
                out[idx] = tot
            elif self.kind == "trig":
                a, b, c, e = data
                arg = MP.mpf(c)
                for k in range(self.d):
                    arg = arg + MP.mpf(b[k]) * x[k]
                out[idx] = cv(a) * MP.sin(arg) + cv(e)
            else:
                out[idx] = cv(data)
        return out

    # ---- UFL side: plain Python floats, analytic derivatives of the closed forms
    def float_comp(self, idx, x, derivatives=()):
        data = self.comps[idx]
        if self.kind == "poly":
            tot = 0.0
            for c, ex in data:
                ex = list(ex)
                for k in derivatives:
                    c = c * ex[k]
                    ex[k] -= 1
                    if c == 0:
                        break
                if c == 0:
                    continue
                t = c
                for k, e in enumerate(ex):
                    if e > 0:
                        t = t * x[k] ** e
                tot = tot + t
            return tot
        if self.kind == "trig":
            a, b, c, e = data
            arg = c + sum(b[k] * x[k] for k in range(self.d))
            n = len(derivatives)
            fac = a
            for k in derivatives:
                fac = fac * b[k]
            return fac * math.sin(arg + n * math.pi / 2) + (e if n == 0 else 0.0)
        return 0 * data if derivatives else data

    def nested(self, x, derivatives=(), conv=None, seq=tuple):
        if not hasattr(x, "__len__"):
            x = (x,)

        def rec(prefix, rest):
            if not rest:
                v = self.float_comp(prefix, x, derivatives)
                return conv(v) if conv else v
            return seq(rec(prefix + (k,), rest[1:]) for k in range(rest[0]))

        return rec((), self.shape)

    def mapped(self, style):
        """The object put into the mapping handed to UFL."""
        f = self

        def npconv(v):
            return np.complex128(v) if isinstance(v, complex) else np.float64(v)

        if style == "value":
            return f.nested((0.0,) * f.d)
        if style == "value_list":
            return f.nested((0.0,) * f.d, seq=list)
        if style == "value_np":
            v = f.nested((0.0,) * f.d)
            return np.array(v) if f.shape else npconv(v)
        if style == "value_np32":
            # single-precision numpy scalars / arrays (np.complex64 is NOT a subclass of complex) when the data
            # are exactly representable; the judge widens its tolerance for pools that use this style
            v = f.nested((0.0,) * f.d)
            arr = np.array(v)
            single = arr.astype(np.complex64 if arr.dtype.kind == "c" else np.float32)
            if np.all(single.astype(arr.dtype) == arr):
                return single if f.shape else single[()]
            return arr if f.shape else npconv(v)
        if style == "call2":
            return lambda x, derivatives=(): f.nested(x, derivatives)
        if style == "call2_np":
            def g(x, derivatives=()):
                v = f.nested(x, derivatives)
                return np.array(v) if f.shape else npconv(v)
            return g
        if style == "call2_list":
            return lambda x, derivatives=(): f.nested(x, derivatives, seq=list)
        if style == "call1":
            return lambda x: f.nested(x)
        raise ValueError(style)


class Pool:
    """UFL terminals of one case and their data."""

    def __init__(self, rng, d, cplx):
        self.rng = rng
        self.d = d
        self.cplx = cplx
        self.cell = CELLS[d]
        self.mesh = E.mesh_for(self.cell, d)
        self.x = ufl.SpatialCoordinate(self.mesh)
        self.idx = {nm: ufl.Index() for nm in NAMES}
        self.term = {}
        self.field = {}
        self.style = {}
        self.shape = {}
        self.counter = 0

    def new(self, shape, role):
        rng = self.rng
        self.counter += 1
        name = f"{role}{self.counter}"
        cplx_f = self.cplx and rng.random() < 0.7
        if role == "c":
            kind = rng.choice(["const", "const", "int"])
            t = ufl.Constant(self.mesh, shape) if shape else ufl.Constant(self.mesh)
        else:
            kind = rng.choice(["poly", "poly", "poly", "trig", "const"])
            el = E.P(self.cell, 2, tuple(shape))
            V = ufl.FunctionSpace(self.mesh, el)
            t = ufl.Coefficient(V) if role == "f" else ufl.Argument(V, self.counter)  # equal (number, space) would make two Arguments one mapping key
        f = Field(rng, shape, self.d, kind, cplx_f)
        if f.constant:
            style = rng.choice(["value", "value", "value_np", "value_np32", "value_list" if shape else "value"] + (["call2"] if role != "c" else []))
        else:
            style = rng.choice(["call2", "call2", "call2", "call2_np", "call2_list" if shape else "call2"])
        self.term[name] = t
        self.field[name] = f
        self.style[name] = style
        self.shape[name] = tuple(shape)
        return name

    def geo(self, gname):
        """A geometric quantity given a value through the mapping (it is a Terminal like any other)."""
        name = "geo_" + gname
        if name not in self.term:
            t = getattr(ufl, gname)(self.mesh)
            shape = tuple(t.ufl_shape)
            self.term[name] = t
            self.field[name] = Field(self.rng, shape, self.d, "const", False)
            self.style[name] = self.rng.choice(["value", "value_np", "value_list" if shape else "value"])
            self.shape[name] = ("geo",) + shape
        return name

    def get(self, shape, prefer_const=False):
        shape = tuple(shape)
        have = [nm for nm, s in self.shape.items() if s == shape]
        if have and self.rng.random() < 0.6:
            return self.rng.choice(have)
        role = self.rng.choice(["f", "f", "f", "a", "c", "c"]) if not prefer_const else "c"
        return self.new(shape, role)

    def mapping(self, no_derivatives=False, python_only=False):
        m = {}
        self.used_styles = set()
        for nm, t in self.term.items():
            st = self.style[nm]
            if python_only:
                st = {"value_np": "value", "call2_np": "call2"}.get(st, st)
            if no_derivatives and st == "call2" and self.rng.random() < 0.3:
                st = "call1"
            self.used_styles.add(st)
            m[t] = self.field[nm].mapped(st)
        return m


# ------------------------------------------------------------------ recipe constructors (static typing)


class Ill(Exception):
    """The generator asked for something that has no type (generator bug guard)."""


def lit(v):
    return N("lit", (), v, (), {}, real=not isinstance(v, complex))


def _merge(a, b):
    fi = dict(a.fi)
    for k, v in b.fi.items():
        if fi.setdefault(k, v) != v:
            raise Ill("index dimension clash")
    return fi


def m_add(op, a, b):
    if a.shape != b.shape or a.fi != b.fi:
        raise Ill("add type")
    return N(op, (a, b), None, a.shape, a.fi, real=a.real and b.real)


def m_un(op, a, a_=None, real=None):
    return N(op, (a,), a_, a.shape, a.fi, real=a.real if real is None else real)


def m_mul(a, b):
    r1, r2 = len(a.shape), len(b.shape)
    rep = set(a.fi) & set(b.fi)
    fi = {k: v for k, v in _merge(a, b).items() if k not in rep}
    if r1 == 0 or r2 == 0:
        return N("mul", (a, b), None, a.shape or b.shape, fi, real=a.real and b.real)
    if r1 == 2 and r2 in (1, 2) and not rep and a.shape[1] == b.shape[0]:
        return N("mul", (a, b), None, a.shape[:1] + b.shape[1:], fi, real=a.real and b.real)
    raise Ill("mul type")


def m_div(a, b):
    if b.shape or b.fi:
        raise Ill("div type")
    return N("div", (a, b), None, a.shape, a.fi, real=a.real and b.real)


def m_pow(a, b):
    real = a.real and b.real and b.op == "lit" and isinstance(b.a, int)
    return N("pow", (a, b), None, (), {}, real=real)


def m_getitem(a, comp, style="getitem"):
    shape = a.shape
    nexp = sum(1 for c in comp if c[0] != "ell")
    full = []
    for c in comp:
        if c[0] == "ell":
            full.extend([("slice",)] * (len(shape) - nexp))
        else:
            full.append(c)
    if len(full) != len(shape):
        raise Ill("getitem rank")
    out_shape = []
    fi = dict(a.fi)
    cnt = {k: 1 for k in a.fi}
    for k, c in enumerate(full):
        if c[0] == "slice":
            out_shape.append(shape[k])
        elif c[0] == "idx":
            cnt[c[1]] = cnt.get(c[1], 0) + 1
            if fi.setdefault(c[1], shape[k]) != shape[k]:
                raise Ill("index dimension clash")
    if any(v > 2 for v in cnt.values()):
        raise Ill("index three times")
    fi = {k: v for k, v in fi.items() if cnt[k] == 1}
    return N(style, (a,), tuple(comp), tuple(out_shape), fi, real=a.real)


def m_ct(a, names):
    if a.shape or any(nm not in a.fi for nm in names) or len(set(names)) != len(names):
        raise Ill("as_tensor type")
    shape = tuple(a.fi[nm] for nm in names)
    fi = {k: v for k, v in a.fi.items() if k not in names}
    return N("as_tensor_idx", (a,), tuple(names), shape, fi, real=a.real)


def m_stack(rows, form="tensor"):
    r0 = rows[0]
    if any(r.shape != r0.shape or r.fi != r0.fi for r in rows):
        raise Ill("stack type")
    return N("stack", rows, form, (len(rows),) + r0.shape, r0.fi, real=all(r.real for r in rows))


def m_cond(c, a, b):
    if a.shape != b.shape or a.fi != b.fi:
        raise Ill("conditional type")
    return N("conditional", (c, a, b), None, a.shape, a.fi, real=a.real and b.real)


# ------------------------------------------------------------------ the generator

LITS = [0, 1, -1, 2, 3, 0.5, -0.5, 1.5, 0.25, 2.0, -3, 100, -117, 1.0, 0.0]
CLITS = [1j, 2 - 1j, 0.5 + 0.5j, -1j]
FNS = ["sqrt", "exp", "ln", "cos", "sin", "tan", "acos", "asin", "atan", "cosh", "sinh", "tanh", "erf"]
GEO = ["FacetNormal", "CellVolume", "Circumradius", "Jacobian", "CellDiameter"]


class RG:
    def __init__(self, rng, pool, deriv=True, geo=False):
        self.rng = rng
        self.pool = pool
        self.d = pool.d
        self.cplx = pool.cplx
        self.deriv = deriv
        self.geo = geo
        self.dims = [2, 3] if self.d > 1 else [1, 2, 3]

    # ---- helpers
    def coef(self, shape, const=False):
        nm = self.pool.get(shape, prefer_const=const)
        f = self.pool.field[nm]
        return N("coef", (), nm, shape, {}, real=f.real)

    def xvec(self):
        return N("x", (), None, (self.d,), {}, real=True)

    def realify(self, n, smooth=False):
        if n.real or not self.cplx:
            return n
        # below a derivative no abs of complex data: UFL documents its rule d|f| = sign(Re f) df as not meaningful there
        return m_un(self.rng.choice(["real", "real", "imag"] + ([] if smooth else ["abs"])), n, real=True)

    def pos(self, a, off=1.5, smooth=False):
        """A value with real part >= off (real mode: >= off): off + a*conj(a)-like."""
        a = self.realify(a, smooth) if self.cplx and self.rng.random() < 0.5 else a
        if self.cplx and not a.real:
            sq = m_mul(a, m_un("conj", a))
        else:
            sq = m_mul(a, a)
        return m_add("add", lit(off), sq)

    def small(self, a, smooth=False):
        """a / (2 + |a|^2)-like: modulus below 0.36."""
        return m_div(a, self.pos(a, 2, smooth))

    # ---- conditions
    def cond(self, depth, dlev):
        r = self.rng.random()
        if depth > 0 and r < 0.25:
            op = self.rng.choice(["land", "lor"])
            return N(op, (self.cond(depth - 1, dlev), self.cond(depth - 1, dlev)), None, (), {}, kind="cond")
        if depth > 0 and r < 0.35:
            return N("lnot", (self.cond(depth - 1, dlev),), None, (), {}, kind="cond")
        rel = self.rng.choice(["lt", "gt", "le", "ge", "eq", "ne"])
        style = self.rng.choice(["fn", "fn", "op"]) if rel in ("lt", "gt", "le", "ge") else "fn"
        a = self.realify(self.scalar(min(depth, 1), dlev=dlev, smooth=dlev > 0), dlev > 0)
        rr = self.rng.random()
        if rr < 0.2:
            b = a  # exact tie
        elif rr < 0.3 and a.op == "getitem" and a.kids[0].op == "x":
            b = lit(self.rng.choice([0.5, -0.5, 0.25, 1]))
        else:
            b = self.realify(self.scalar(min(depth, 1), dlev=dlev, smooth=dlev > 0), dlev > 0)
        return N("cmp", (a, b), rel, (), {}, kind="cond") if style == "fn" else N("cmp", (a, b), rel + ":op", (), {}, kind="cond")

    # ---- scalars
    def scalar_leaf(self, dlev=0):
        rng = self.rng
        r = rng.random()
        if r < 0.18:
            v = rng.choice(LITS + (CLITS if self.cplx else []))
            return lit(v)
        if r < 0.45:
            return self.coef(())
        if r < 0.60:
            return m_getitem(self.xvec(), (("int", rng.randrange(self.d)),))
        if r < 0.63 and self.geo and not dlev:
            return N("coef", (), self.pool.geo(rng.choice(["CellVolume", "Circumradius", "CellDiameter", "FacetArea"])), (), {}, real=True)
        sh = rng.choice([(n,) for n in self.dims] + [(self.d,), (self.d, self.d), (2, 2), (2, 3)])
        t = self.coef(sh) if rng.random() < 0.8 or sh != (self.d,) else self.xvec()
        return m_getitem(t, tuple(("int", rng.randrange(n)) for n in sh))

    def scalar(self, depth, dlev=0, smooth=False):
        rng = self.rng
        if depth <= 0:
            return self.scalar_leaf(dlev)
        kinks = not (smooth and self.cplx)
        table = [
            ("add", 10), ("sub", 6), ("mul", 12), ("div", 6), ("pow", 7), ("neg", 3), ("abs", 3 if kinks else 0),
            ("cplx", 6 if self.cplx else 2), ("fn", 12), ("atan2", 2), ("minmax", 3 if kinks else 0), ("sign", 2 if kinks else 0),
            ("conditional", 5 if kinks else 0), ("bessel", 3), ("variable", 2), ("restrict", 2), ("reduce", 10), ("contract", 8),
            ("idx", 6), ("deriv", 9 if self.deriv and dlev < 2 else 0), ("leaf", 3), ("ctlist", 3),
        ]
        op = rng.choices([t[0] for t in table], [t[1] for t in table])[0]
        S = lambda dd=1: self.scalar(depth - dd, dlev, smooth)  # noqa: E731
        if op == "ctlist":
            # a matrix whose columns (or rows) are listed: the list items carry a free index j, the list is indexed by k and
            # both are bound by as_tensor in either order; one fixed entry is taken (UFL looks through the list here)
            j, k = rng.sample(NAMES, 2)
            n, m = rng.choice(self.dims), rng.choice([2, 3])
            items = [m_getitem(self.tensor((n,), min(depth - 1, 1), dlev, smooth), (("idx", j),)) for _ in range(m)]
            lst = m_stack(items, rng.choice(["tensor", "vector"]))
            body = m_getitem(lst, (("idx", k),))
            names = (j, k) if rng.random() < 0.6 else (k, j)
            ct = m_ct(body, names)
            M = N("as_tensor_idx", ct.kids, (tuple(names), "tensor"), ct.shape, ct.fi, real=ct.real)
            return m_getitem(M, tuple(("int", rng.randrange(q)) for q in M.shape))
        if op == "leaf":
            return self.scalar_leaf(dlev)
        if op in ("add", "sub"):
            return m_add(op, S(), S(rng.choice([1, 2])))
        if op == "mul":
            return m_mul(S(), S(rng.choice([1, 1, 2])))
        if op == "div":
            a = S()
            rr = rng.random()
            if rr < 0.5:
                b = self.pos(S(2), 2, smooth)
            elif rr < 0.75:
                b = lit(rng.choice([2, -4, 0.5, 3, -1, 1] + ([1j, 1 + 1j] if self.cplx else [])))
            else:
                b = S(2)
            return m_div(a, b)
        if op == "pow":
            rr = rng.random()
            if rr < 0.45:
                return m_pow(S(), lit(rng.choice([0, 1, 2, 3, 2, 3, -1, -2, 4])))
            if rr < 0.7:
                return m_pow(self.pos(S(2), 1.5, smooth), lit(rng.choice([0.5, 1.5, -0.5, 2.5, 2.0, -1.0] + ([0.5 + 1j, -1j] if self.cplx else []))))
            if rr < 0.85:
                return m_pow(self.pos(S(2), 1.5, smooth), m_mul(lit(0.5), S(2)))
            if rr < 0.93:
                return m_pow(lit(rng.choice([2, 0.5, 3, -2])), m_mul(lit(0.5), S(2)))
            return m_pow(S(), S(2))
        if op == "neg":
            return m_un("neg", S())
        if op == "abs":
            return m_un("abs", S(), real=True)
        if op == "cplx":
            w = rng.choice(["conj", "real", "imag"])
            return m_un(w, S(), real=True if w != "conj" else None)
        if op == "fn":
            name = rng.choice(FNS)
            a = S()
            if name == "erf" and self.cplx:
                a = self.realify(a, smooth) if rng.random() < 0.7 else a
            if rng.random() < 0.75:
                if name == "sqrt":
                    a = self.pos(a, rng.choice([0.5, 2.5]), smooth)
                elif name == "ln":
                    a = self.pos(a, 1.5, smooth)
                elif name in ("exp", "sinh", "cosh"):
                    a = m_mul(lit(0.25), a)
                elif name in ("asin", "acos", "tan"):
                    a = self.small(a, smooth)
            real = a.real and name in ("exp", "cos", "sin", "tan", "cosh", "sinh", "tanh", "atan", "erf")
            return N("fn", (a,), name, (), {}, real=real)
        if op == "atan2":
            a, b = self.realify(S(), smooth), self.realify(S(2), smooth)
            if rng.random() < 0.6:
                b = self.pos(b, 1.5, smooth)
            return N("atan2", (a, b), None, (), {}, real=True)
        if op == "minmax":
            a, b = self.realify(S(), smooth), self.realify(S(rng.choice([1, 2])), smooth)
            if rng.random() < 0.08:
                b = a
            return N(rng.choice(["max", "min"]), (a, b), None, (), {}, real=True)
        if op == "sign":
            return N("sign", (self.realify(S(), smooth),), None, (), {}, real=True)
        if op == "conditional":
            if rng.random() < 0.25:
                # a guard: the branch that is NOT taken has no value at all (division by an exact zero, logarithm of an
                # exact zero), the way sin(x)/x is guarded at x == 0
                # the guard compares a coordinate (exact, bounded by 1.25 in every workload point) with 2
                a = m_getitem(self.xvec(), (("int", rng.randrange(self.d)),))
                s_ = self.realify(self.coef(()), smooth)  # a plain mapped terminal: s - s is zero only when evaluated
                zero = m_add("sub", s_, s_)
                bad = m_div(S(0), zero) if rng.random() < 0.6 else m_un("fn", zero, "ln")
                good = S()
                if rng.random() < 0.5:
                    g_ = m_cond(N("cmp", (a, lit(2)), "lt", (), {}, kind="cond"), good, bad)
                    g_.a = "guard:true"
                else:
                    g_ = m_cond(N("cmp", (a, lit(2)), "gt", (), {}, kind="cond"), bad, good)
                    g_.a = "guard:false"
                return g_
            return m_cond(self.cond(depth - 1, dlev), S(), S(rng.choice([1, 2])))
        if op == "bessel":
            kind = rng.choice("JYIK")
            nu = rng.choice([0, 1, 2, 0, 1, 0.5, 1.5])
            a = self.realify(S(), smooth)
            if rng.random() < 0.85 or kind in "YK":
                a = self.pos(a, 1.5, smooth)
            return N("bessel", (a,), (kind, nu), (), {}, real=True)
        if op == "variable":
            return m_un("variable", S())
        if op == "restrict":
            w = rng.choice(["+", "-", "avg", "jump"])
            if w in "+-":
                return m_un("restrict", S(), w)
            return m_un(w, S())
        if op == "reduce":
            return self.reduce(depth, dlev, smooth)
        if op == "contract":
            names = rng.sample(NAMES, rng.choice([1, 1, 2]))
            fis = {nm: rng.choice(self.dims + [self.d]) for nm in names}
            return m_mul(self.fi(fis, depth - 1, dlev, smooth), self.fi(fis, depth - 1, dlev, smooth))
        if op == "idx":
            sh = rng.choice([(n,) for n in self.dims] + [(2, 2), (3, 3), (2, 3), (self.d, self.d), (2, 2, 2)])
            t = self.tensor(sh, depth - 1, dlev, smooth)
            if len(sh) >= 2 and sh[0] == sh[1] and rng.random() < 0.4:
                nm = rng.choice(NAMES)
                comp = (("idx", nm), ("idx", nm)) + tuple(("int", rng.randrange(n)) for n in sh[2:])
                return m_getitem(t, comp)
            return m_getitem(t, tuple(("int", rng.randrange(n)) for n in sh))
        if op == "deriv":
            return self.deriv_scalar(depth, dlev)
        raise AssertionError(op)

    def reduce(self, depth, dlev, smooth):
        """Tensor -> scalar through the compound operators."""
        rng = self.rng
        T = lambda sh: self.tensor(sh, depth - 1, dlev, smooth)  # noqa: E731
        w = rng.choice(["dot", "inner", "inner2", "tr", "det", "pow2", "dot0", "outer0", "inner0", "eps"])
        n = rng.choice(self.dims + [self.d])
        if w == "eps":
            # Levi-Civita contraction  eps_ij a_i b_j  /  eps_ijk a_i b_j c_k
            k = rng.choice([2, 2, 3])
            names = rng.sample(NAMES, k)
            e = m_getitem(N("eps", (), k, (k,) * k, {}, real=True), tuple(("idx", nm) for nm in names))
            for nm in names:
                e = m_mul(e, m_getitem(T((k,)), (("idx", nm),)))
            # (abs of a complex quantity is not differentiable: below a derivative in complex mode it is left out, as everywhere)
            return e if rng.random() < 0.6 else m_un(rng.choice(["real", "conj", "neg"] + ([] if smooth and self.cplx else ["abs"])), e)
        if w == "dot":
            return N("dot", (T((n,)), T((n,))), None, (), {})
        if w == "inner":
            return N("inner", (T((n,)), T((n,))), None, (), {})
        if w == "inner2":
            sh = rng.choice([(2, 2), (n, n), (2, 3), (2, 2, 2)])
            return N("inner", (T(sh), T(sh)), None, (), {})
        if w == "tr":
            return N("tr", (T((n, n)),), None, (), {})
        if w == "det":
            m = rng.choice([1, 2, 2, 3, 3, 4])
            if m == 4 and rng.random() < 0.5:
                # one entry of the inverse of a 4 x 4 matrix (the largest size the expansions know), kept away from singular
                a = m_add("add", T((4, 4)), m_mul(lit(rng.choice([8, -9])), N("identity", (), 4, (4, 4), {}, real=True)))
                return m_getitem(N("inv", (a,), None, (4, 4), {}), (("int", rng.randrange(4)), ("int", rng.randrange(4))))
            return N("det", (T((m, m)),), None, (), {})
        if w == "pow2":
            return N("pow", (T(rng.choice([(n,), (2, 2)])), lit(2)), None, (), {})
        s1, s2 = self.scalar(depth - 1, dlev, smooth), self.scalar(depth - 1, dlev, smooth)
        return N({"dot0": "dot", "outer0": "outer", "inner0": "inner"}[w], (s1, s2), None, (), {})

    def deriv_scalar(self, depth, dlev):
        rng = self.rng
        d = self.d
        w = rng.choice(["dx", "dx", "dx2", "gradk", "div", "curl2", "gradgrad", "nabla_div", "dx3"])
        sm = True
        if w == "dx":
            return N("dx", (self.scalar(depth - 1, dlev + 1, sm),), (rng.randrange(d),), (), {})
        if w == "dx2":
            a = self.scalar(max(depth - 2, 0), dlev + 2, sm) if dlev == 0 else self.coef(())
            return N("dx", (a,), (rng.randrange(d), rng.randrange(d)), (), {})
        if w == "dx3":
            return N("dx", (self.coef(()),), (rng.randrange(d), rng.randrange(d), rng.randrange(d)), (), {})
        if w == "gradk":
            a = self.scalar(depth - 1, dlev + 1, sm)
            return m_getitem(N("grad", (a,), None, (d,), {}), (("int", rng.randrange(d)),))
        if w == "div":
            return N("Div", (self.tensor((d,), depth - 1, dlev + 1, sm),), None, (), {})
        if w == "nabla_div":
            return N("nabla_div", (self.tensor((d,), depth - 1, dlev + 1, sm),), None, (), {})
        if w == "curl2" and d == 2:
            return N("curl", (self.tensor((2,), depth - 1, dlev + 1, sm),), rng.choice(["curl", "rot"]), (), {})
        a = self.coef(()) if dlev or rng.random() < 0.5 else self.scalar(max(depth - 2, 0), dlev + 2, sm)
        g = N("grad", (N("grad", (a,), None, (d,), {}),), None, (d, d), {})
        return m_getitem(g, (("int", rng.randrange(d)), ("int", rng.randrange(d))))

    # ---- tensors without free indices
    def tensor_leaf(self, sh, dlev=0):
        rng = self.rng
        r = rng.random()
        if sh == (self.d,) and r < 0.25:
            return self.xvec()
        if len(sh) == 2 and sh[0] == sh[1] and r < 0.12:
            return N("identity", (), sh[0], sh, {}, real=True)
        if r < 0.16 and not dlev:
            return N("zero", (), sh, sh, {}, real=True)
        if r < 0.22 and len(sh) == 1:
            return m_stack([lit(rng.choice(LITS[:12])) for _ in range(sh[0])], rng.choice(["tensor", "vector"]))
        if r < 0.25 and sh in ((2, 2), (3, 3, 3)):
            return N("eps", (), len(sh), sh, {}, real=True)
        if r < 0.27 and self.geo and sh == (self.d,) and not dlev:
            return N("coef", (), self.pool.geo("FacetNormal"), sh, {}, real=True)
        return self.coef(sh)

    def tensor(self, sh, depth, dlev=0, smooth=False):
        rng = self.rng
        sh = tuple(sh)
        d = self.d
        if depth <= 0:
            return self.tensor_leaf(sh, dlev)
        rank = len(sh)
        kinks = not (smooth and self.cplx)
        T = lambda s, dd=1: self.tensor(s, depth - dd, dlev, smooth)  # noqa: E731
        S = lambda dd=1: self.scalar(depth - dd, dlev, smooth)  # noqa: E731
        opts = [("leaf", 4), ("add", 6), ("sub", 3), ("smul", 6), ("tmul", 3), ("tdiv", 3), ("neg", 2), ("cplx", 4 if self.cplx else 1),
                ("abs", 1 if kinks else 0), ("stack", 8), ("ct", 8), ("slice", 5), ("conditional", 3 if kinks else 0), ("variable", 2), ("restrict", 2), ("rowcombo", 3 if rank <= 2 else 0)]
        if rank > 3:
            return self.tensor_leaf(sh, dlev)
        dv = self.deriv and dlev < 2
        if rank == 1:
            n = sh[0]
            opts += [("matvec", 6), ("vecmat", 2), ("diag_vector", 2)]
            if n == 3:
                opts += [("cross", 5)]
            if n == 2:
                opts += [("perp", 4)]
            if dv and n == d:
                opts += [("grad", 6), ("nabla_grad", 2)]
            if dv and d == 3 and n == 3:
                opts += [("curl", 4)]
            if dv and d == 2 and n == 2:
                opts += [("curls", 2)]
            if dv:
                opts += [("Div", 3), ("nabla_div", 2), ("dxt", 3)]
        if rank == 2:
            opts += [("matmat", 5), ("outer", 5), ("transpose", 4), ("elem", 3)]
            if sh[0] == sh[1]:
                opts += [("sym", 3), ("skew", 3), ("dev", 3), ("inv", 4), ("cofac", 3), ("diag", 3), ("diagv", 2)]
            if dv and sh[1] == d:
                opts += [("grad", 5)]
            if dv and sh[0] == d:
                opts += [("nabla_grad", 4)]
            if dv:
                opts += [("dxt", 2)]
        if rank == 3:
            opts += [("outer", 4)]
            if dv and sh[2] == d:
                opts += [("grad", 2)]
        op = rng.choices([o[0] for o in opts], [o[1] for o in opts])[0]
        if op == "leaf":
            return self.tensor_leaf(sh, dlev)
        if op in ("add", "sub"):
            return m_add(op, T(sh), T(sh, rng.choice([1, 2])))
        if op == "smul":
            return m_mul(S(), T(sh))
        if op == "tmul":
            return m_mul(T(sh), S())
        if op == "tdiv":
            b = self.pos(S(2), 2, smooth) if rng.random() < 0.6 else lit(rng.choice([2, -4, 0.5, 3]))
            return m_div(T(sh), b)
        if op == "neg":
            return m_un("neg", T(sh))
        if op == "cplx":
            w = rng.choice(["conj", "real", "imag"])
            return m_un(w, T(sh), real=True if w != "conj" else None)
        if op == "abs":
            return m_un("abs", T(sh), real=True)
        if op == "variable":
            return m_un("variable", T(sh))
        if op == "restrict":
            w = rng.choice(["+", "-", "avg", "jump"])
            return m_un("restrict", T(sh), w) if w in "+-" else m_un(w, T(sh))
        if op == "conditional":
            return m_cond(self.cond(depth - 1, dlev), T(sh), T(sh, 2))
        if op == "stack":
            sub = sh[1:]
            rows = [(self.tensor(sub, depth - 1, dlev, smooth) if sub else S()) for _ in range(sh[0])]
            form = rng.choice(["tensor", "vector"] if rank == 1 else (["tensor", "matrix", "nested"] if rank == 2 else ["tensor", "nested"]))
            if form in ("matrix", "nested"):
                rows = [r if r.op == "stack" else m_stack([self.tensor(sub[1:], depth - 1, dlev, smooth) if sub[1:] else S() for _ in range(sub[0])], "tensor") for r in rows]
            return m_stack(rows, form)
        if op == "ct":
            names = rng.sample(NAMES, rank)
            fis = dict(zip(names, sh))
            body = self.fi(fis, depth - 1, dlev, smooth)
            form = rng.choice(["tensor", "tensor", "xor"])
            if rank == 1 and rng.random() < 0.4:
                form = "vector"
            if rank == 2 and rng.random() < 0.4:
                form = "matrix"
            n = m_ct(body, names)
            n.a = tuple(names)
            return N("as_tensor_idx", n.kids, (tuple(names), form), n.shape, n.fi, real=n.real)
        if op == "slice":
            extra = rng.choice([1, 1, 2]) if rank < 3 else 1
            big = list(sh)
            comp = [("slice",)] * rank
            for _ in range(extra):
                p = rng.randrange(len(big) + 1)
                n = rng.choice(self.dims)
                big.insert(p, n)
                comp.insert(p, ("int", rng.randrange(n)))
            if len(big) > 3:
                return self.tensor_leaf(sh, dlev)
            # an ellipsis instead of a run of slices, sometimes
            if rng.random() < 0.4:
                run = [q for q, c in enumerate(comp) if c[0] == "slice"]
                if run and run == list(range(run[0], run[0] + len(run))):
                    comp = comp[: run[0]] + [("ell",)] + comp[run[-1] + 1:]
                elif run:
                    # the first run of slices becomes the ellipsis, later slices stay written out:  T[..., 0, :]
                    q0 = run[0]
                    q1 = q0
                    while q1 + 1 in run:
                        q1 += 1
                    comp = comp[:q0] + [("ell",)] + comp[q1 + 1:]
            return m_getitem(self.tensor(tuple(big), depth - 1, dlev, smooth), tuple(comp))
        if op == "rowcombo":
            nm = rng.choice(NAMES)
            n = rng.choice(self.dims)
            w = self.fi({nm: n}, depth - 1, dlev, smooth)
            big = self.tensor((n,) + sh, depth - 1, dlev, smooth)
            row = m_getitem(big, (("idx", nm),) + (("slice",),) * rank) if rng.random() < 0.6 else m_getitem(big, (("idx", nm), ("ell",)))
            return m_mul(w, row) if rng.random() < 0.5 else m_mul(row, w)
        if op == "matvec":
            m = rng.choice(self.dims)
            A, v = T((sh[0], m)), T((m,))
            return m_mul(A, v) if rng.random() < 0.5 else N("dot", (A, v), None, sh, {})
        if op == "vecmat":
            m = rng.choice(self.dims)
            return N("dot", (T((m,)), T((m, sh[0]))), None, sh, {})
        if op == "diag_vector":
            return N("diag_vector", (T((sh[0], sh[0])),), None, sh, {})
        if op == "cross":
            return N("cross", (T((3,)), T((3,))), None, sh, {})
        if op == "perp":
            return N("perp", (T((2,)),), None, sh, {})
        if op == "matmat":
            m = rng.choice(self.dims)
            A, B = T((sh[0], m)), T((m, sh[1]))
            return m_mul(A, B) if rng.random() < 0.5 else N("dot", (A, B), None, sh, {})
        if op == "outer":
            if rank == 2:
                return N("outer", (T((sh[0],)), T((sh[1],))), None, sh, {})
            if rng.random() < 0.5:
                return N("outer", (T((sh[0],)), T(sh[1:])), None, sh, {})
            return N("outer", (T(sh[:2]), T((sh[2],))), None, sh, {})
        if op == "transpose":
            return N("transpose", (T((sh[1], sh[0])),), rng.choice(["fn", "T"]), sh, {})
        if op == "elem":
            w = rng.choice(["mult", "div", "pow"])
            a = T(sh)
            if w == "mult":
                b = T(sh)
            elif w == "div":
                b = m_add("add", T(sh, 2), m_stack([m_stack([lit(5) for _ in range(sh[1])]) for _ in range(sh[0])], "nested"))
            else:
                b = m_stack([m_stack([lit(rng.choice([2, 1, 3, 0])) for _ in range(sh[1])]) for _ in range(sh[0])], "nested")
            return N("elem", (a, b), w, sh, {})
        if op in ("sym", "skew", "dev", "cofac", "diag"):
            return N(op, (T(sh),), None, sh, {})
        if op == "diagv":
            return N("diag", (T((sh[0],)),), None, sh, {})
        if op == "inv":
            a = T(sh)
            if rng.random() < 0.8:
                a = m_add("add", a, m_mul(lit(rng.choice([6, 8, -7])), N("identity", (), sh[0], sh, {}, real=True)))
            return N("inv", (a,), None, sh, {})
        # ---- derivatives
        sm = True
        TD = lambda s: self.tensor(s, depth - 1, dlev + 1, sm)  # noqa: E731
        if op == "grad":
            a = TD(sh[:-1]) if rank > 1 else self.scalar(depth - 1, dlev + 1, sm)
            return N("grad", (a,), None, sh, {})
        if op == "nabla_grad":
            a = TD(sh[1:]) if rank > 1 else self.scalar(depth - 1, dlev + 1, sm)
            return N("nabla_grad", (a,), None, sh, {})
        if op == "curl":
            return N("curl", (TD((3,)),), rng.choice(["curl", "rot"]), sh, {})
        if op == "curls":
            return N("curl", (self.scalar(depth - 1, dlev + 1, sm),), rng.choice(["curl", "rot"]), sh, {})
        if op == "Div":
            return N("Div", (TD(sh + (d,)),), None, sh, {})
        if op == "nabla_div":
            return N("nabla_div", (TD((d,) + sh),), None, sh, {})
        if op == "dxt":
            ks = tuple(rng.randrange(d) for _ in range(rng.choice([1, 1, 2]) if dlev == 0 else 1))
            a = self.tensor(sh, depth - 1, dlev + len(ks), sm) if len(ks) == 1 else self.coef(sh)
            return N("dx", (a,), ks, sh, {})
        raise AssertionError(op)

    # ---- scalar-valued expressions with exactly the free indices fis (name -> dim)
    def fi(self, fis, depth, dlev=0, smooth=False):
        rng = self.rng
        if not fis:
            return self.scalar(depth, dlev, smooth)
        names = list(fis)
        kinks = not (smooth and self.cplx)
        opts = [("leafidx", 10)]
        if depth > 0:
            opts += [("prod", 10), ("sum", 6), ("scale", 6), ("unary", 3), ("conditional", 2 if kinks else 0), ("ctidx", 5), ("rep", 5)]
            if self.deriv and dlev < 2 and any(v == self.d for v in fis.values()):
                opts += [("deriv", 6)]
        op = rng.choices([o[0] for o in opts], [o[1] for o in opts])[0]
        F = lambda f, dd=1: self.fi(f, depth - dd, dlev, smooth)  # noqa: E731
        if op == "leafidx" or op == "rep":
            order = names[:]
            rng.shuffle(order)
            comp = [("idx", nm) for nm in order]
            shape = [fis[nm] for nm in order]
            if op == "rep" and len(comp) <= 1:
                # a repeated (summed) pair of axes next to the free ones
                free_pool = [nm for nm in NAMES if nm not in fis]
                r = rng.choice(free_pool)
                n = rng.choice(self.dims)
                for _ in range(2):
                    p = rng.randrange(len(comp) + 1)
                    comp.insert(p, ("idx", r))
                    shape.insert(p, n)
            while len(shape) < 3 and rng.random() < 0.25:
                p = rng.randrange(len(comp) + 1)
                n = rng.choice(self.dims)
                comp.insert(p, ("int", rng.randrange(n)))
                shape.insert(p, n)
            t = self.tensor(tuple(shape), max(depth - 1, 0), dlev, smooth)
            return m_getitem(t, tuple(comp))
        if op == "prod":
            rng.shuffle(names)
            cut = rng.randrange(len(names) + 1)
            s1 = {nm: fis[nm] for nm in names[:cut]}
            s2 = {nm: fis[nm] for nm in names[cut:]}
            free_pool = [nm for nm in NAMES if nm not in fis]
            if free_pool and rng.random() < 0.5 and len(s1) < 2 and len(s2) < 2:
                r = rng.choice(free_pool)
                n = rng.choice(self.dims)
                s1[r] = n
                s2[r] = n
            return m_mul(F(s1), F(s2))
        if op == "sum":
            return m_add(rng.choice(["add", "sub"]), F(fis), F(fis, rng.choice([1, 2])))
        if op == "scale":
            w = rng.choice(["l", "r", "d", "n"])
            if w == "l":
                return m_mul(self.scalar(depth - 1, dlev, smooth), F(fis))
            if w == "r":
                return m_mul(F(fis), self.scalar(depth - 1, dlev, smooth))
            if w == "d":
                return m_div(F(fis), self.pos(self.scalar(max(depth - 2, 0), dlev, smooth), 2, smooth))
            return m_un("neg", F(fis))
        if op == "unary":
            w = rng.choice((["abs"] if kinks else []) + ["conj", "real", "imag"])
            return m_un(w, F(fis), real=True if w != "conj" else None)
        if op == "conditional":
            return m_cond(self.cond(depth - 1, dlev), F(fis), F(fis, 2))
        if op == "ctidx":
            # a component tensor bound over OTHER (possibly the same) index objects, then indexed by ours
            order = names[:]
            rng.shuffle(order)
            inner = rng.sample(NAMES, len(order))
            body = self.fi({a: fis[b] for a, b in zip(inner, order)}, depth - 1, dlev, smooth)
            ct = m_ct(body, inner)
            ct = N("as_tensor_idx", ct.kids, (tuple(inner), "tensor"), ct.shape, ct.fi, real=ct.real)
            if rng.random() < 0.5:
                ct = m_add("add", ct, self.tensor(ct.shape, max(depth - 2, 0), dlev, smooth))
            return m_getitem(ct, tuple(("idx", nm) for nm in order))
        if op == "deriv":
            dn = [nm for nm in names if fis[nm] == self.d]
            nm = rng.choice(dn)
            rest = {k: v for k, v in fis.items() if k != nm}
            a = self.fi(rest, depth - 1, dlev + 1, True)
            if rng.random() < 0.5:
                return N("dxi", (a,), (nm,), (), fis, real=a.real)
            g = N("grad", (a,), None, (self.d,), rest, real=a.real)
            return m_getitem(g, (("idx", nm),))
        raise AssertionError(op)


# ------------------------------------------------------------------ recipe -> UFL through the public API


def _E(v):
    return v if isinstance(v, ufl.core.expr.Expr) else ufl.as_ufl(v)


class Builder:
    def __init__(self, pool):
        self.pool = pool
        self.memo = {}

    def key(self, comp):
        out = []
        for c in comp:
            if c[0] == "int":
                out.append(c[1])
            elif c[0] == "slice":
                out.append(slice(None))
            elif c[0] == "ell":
                out.append(Ellipsis)
            else:
                out.append(self.pool.idx[c[1]])
        return tuple(out)

    def rows(self, n):
        """Nested python lists for as_matrix / nested as_tensor."""
        if n.op == "stack":
            return [self.rows(k) for k in n.kids]
        return self.b(n)

    def b(self, n):
        k = id(n)
        if k not in self.memo:
            self.memo[k] = self._b(n)
        return self.memo[k]

    def _b(self, n):
        op = n.op
        P = self.pool
        K = [self.b(c) for c in n.kids] if op != "stack" else None
        if op == "lit":
            return n.a
        if op == "coef":
            return P.term[n.a]
        if op == "x":
            return P.x
        if op == "identity":
            return ufl.Identity(n.a)
        if op == "zero":
            return ufl.zero(*n.a)
        if op == "eps":
            return ufl.PermutationSymbol(n.a)
        if op == "geo":
            return getattr(ufl, n.a)(P.mesh)
        if op in ("add", "sub", "mul", "div", "pow"):
            a, b = K
            if not isinstance(a, ufl.core.expr.Expr) and not isinstance(b, ufl.core.expr.Expr):
                a = _E(a)
            if op == "add":
                return a + b
            if op == "sub":
                return a - b
            if op == "mul":
                return a * b
            if op == "div":
                return a / b
            return a ** b
        if op == "neg":
            return -_E(K[0])
        if op == "abs":
            return abs(_E(K[0]))
        if op in ("conj", "real", "imag"):
            return getattr(ufl, op)(K[0])
        if op == "variable":
            return ufl.variable(_E(K[0]))
        if op == "restrict":
            return _E(K[0])(n.a)
        if op in ("avg", "jump"):
            return getattr(ufl, op)(_E(K[0]))
        if op == "getitem":
            key = self.key(n.a)
            if len(key) == 1 and n.size % 2:
                key = key[0]
            return _E(K[0])[key]
        if op == "dxi":
            return _E(K[0]).dx(*[P.idx[nm] for nm in n.a])
        if op == "as_tensor_idx":
            names, form = n.a
            ii = tuple(P.idx[nm] for nm in names)
            if form == "vector":
                return ufl.as_vector(K[0], ii[0])
            if form == "matrix":
                return ufl.as_matrix(K[0], ii)
            if form == "xor":
                return _E(K[0]) ^ ii
            return ufl.as_tensor(K[0], ii)
        if op == "stack":
            form = n.a
            if form == "vector":
                return ufl.as_vector([self.b(c) for c in n.kids])
            if form == "matrix":
                return ufl.as_matrix([self.rows(c) for c in n.kids])
            if form == "nested":
                return ufl.as_tensor([self.rows(c) for c in n.kids])
            return ufl.as_tensor([self.b(c) for c in n.kids])
        if op in ("dot", "inner", "outer", "cross", "perp", "tr", "det", "inv", "dev", "sym", "skew", "diag", "diag_vector"):
            return getattr(ufl, op)(*K)
        if op == "cofac":
            return ufl.cofac(K[0])
        if op == "transpose":
            return _E(K[0]).T if n.a == "T" else ufl.transpose(K[0])
        if op == "elem":
            return getattr(ufl, "elem_" + n.a)(*K)
        if op == "cmp":
            rel = n.a
            a, b = K
            if rel.endswith(":op"):
                a = _E(a)
                rel = rel[:2]
                return {"lt": lambda: a < b, "gt": lambda: a > b, "le": lambda: a <= b, "ge": lambda: a >= b}[rel]()
            return getattr(ufl, rel)(a, b)
        if op == "land":
            return ufl.And(*K)
        if op == "lor":
            return ufl.Or(*K)
        if op == "lnot":
            return ufl.Not(K[0])
        if op == "conditional":
            return ufl.conditional(*K)
        if op == "sign":
            return ufl.sign(K[0])
        if op == "max":
            return ufl.max_value(*K)
        if op == "min":
            return ufl.min_value(*K)
        if op == "fn":
            return getattr(ufl, n.a)(K[0])
        if op == "atan2":
            return ufl.atan2(*K)
        if op == "bessel":
            kind, nu = n.a
            return getattr(ufl, "bessel_" + kind)(nu, K[0])
        if op == "grad":
            return ufl.grad(_E(K[0]))
        if op == "nabla_grad":
            return ufl.nabla_grad(_E(K[0]))
        if op == "Div":
            return ufl.div(_E(K[0]))
        if op == "nabla_div":
            return ufl.nabla_div(_E(K[0]))
        if op == "curl":
            return getattr(ufl, n.a)(_E(K[0]))
        if op == "dx":
            if len(n.a) == 1 and n.size % 2:
                return ufl.Dx(_E(K[0]), n.a[0])
            return _E(K[0]).dx(*n.a)
        raise ValueError(op)
