"""R: API-level definitions of the public UFL operations on labelled numpy tensors.

Written from the docstrings of ufl/operators.py and ufl/exproperators.py.  A labelled tensor
LT(arr, rank, fi) has axes value shape (rank axes) + one axis per free index ordered by index
count; fi is the sorted tuple of those counts.  R never touches a UFL constructor: the check of one
construction step is  S(result) ~ R_op(S(operand_1), S(operand_2), ...)  plus equality of the
declared shape, free indices and index dimensions with the ones R implies.
"""

import math

import numpy as np


class RReject(Exception):
    """The operation is not defined for these operands (UFL is expected to raise)."""


class RDimMismatch(RReject):
    """One index object would range over two different dimensions."""


class RUnknown(Exception):
    """R has no definition for this combination (case skipped)."""


class LT:
    __slots__ = ("arr", "rank", "fi")

    def __init__(self, arr, rank, fi):
        self.arr = np.asarray(arr, dtype=complex)
        self.rank = rank
        self.fi = tuple(fi)
        assert self.arr.ndim == rank + len(self.fi), (self.arr.shape, rank, fi)
        assert tuple(sorted(self.fi)) == self.fi

    @property
    def shape(self):
        return self.arr.shape[: self.rank]

    @property
    def dims(self):
        return dict(zip(self.fi, self.arr.shape[self.rank :]))


def lit(x):
    return LT(np.asarray(x, dtype=complex), np.ndim(x), ())


def _align(ts, pre=None, post=None):
    """Arrays of all operands with a common free-index axis order (union, sorted)."""
    fi = tuple(sorted(set().union(*[t.fi for t in ts])))
    dims = {}
    for t in ts:
        for i, d in t.dims.items():
            if dims.setdefault(i, d) != d:
                raise RDimMismatch("index dimension mismatch")
    outs = []
    for k, t in enumerate(ts):
        have = {i: t.rank + p for p, i in enumerate(t.fi)}
        order = [have[i] for i in fi if i in have]
        a = np.transpose(t.arr, list(range(t.rank)) + order)
        shp = list(a.shape[: t.rank])
        it = iter(a.shape[t.rank :])
        for i in fi:
            shp.append(next(it) if i in have else 1)
        outs.append(a.reshape(shp))
    return outs, fi, dims


def _expand_rank(a, rank_have, pre, post):
    shp = a.shape
    return a.reshape((1,) * pre + shp[:rank_have] + (1,) * post + shp[rank_have:])


def _sum_repeated(arr, rank, fi_a, fi_b, fi):
    """Implicit summation over indices that are free in both operands."""
    rep = sorted(set(fi_a) & set(fi_b))
    keep = [i for i in fi if i not in rep]
    axes = tuple(rank + fi.index(i) for i in rep)
    if axes:
        arr = arr.sum(axis=axes)
    return arr, tuple(keep)


# ------------------------------------------------------------------ arithmetic


def add(a, b):
    if a.shape != b.shape:
        raise RReject("sum of different shapes")
    if set(a.fi) != set(b.fi):
        raise RReject("sum with different free indices")
    (x, y), fi, _ = _align([a, b])
    return LT(x + y, a.rank, fi)


def neg(a):
    return LT(-a.arr, a.rank, a.fi)


def sub(a, b):
    return add(a, neg(b))


def mul(a, b):
    (x, y), fi, _ = _align([a, b])
    r1, r2 = a.rank, b.rank
    if r1 == 0 or r2 == 0:
        rank = max(r1, r2)
        x = _expand_rank(x, r1, rank - r1, 0)
        y = _expand_rank(y, r2, rank - r2, 0)
        arr, keep = _sum_repeated(x * y, rank, a.fi, b.fi, fi)
        return LT(arr, rank, keep)
    if r1 == 2 and r2 in (1, 2):
        if set(a.fi) & set(b.fi):
            raise RReject("repeated indices in non-scalar product")
        if a.shape[1] != b.shape[0]:
            raise RReject("dimension mismatch in matrix product")
        x = _expand_rank(x, 2, 0, r2 - 1)
        y = _expand_rank(y, r2, 1, 0)
        return LT((x * y).sum(axis=1), r1 + r2 - 2, fi)
    raise RReject("invalid ranks in product")


def div(a, b):
    if b.rank:
        raise RReject("division by a tensor")
    (x, y), fi, _ = _align([a, b])
    y = _expand_rank(y, 0, a.rank, 0)
    with np.errstate(all="ignore"):
        return LT(x / y, a.rank, fi)


def power(a, b):
    if b.rank:
        raise RReject("tensor exponent")
    if a.rank:
        if b.fi == () and a.fi == () and b.arr == 2:
            return inner(a, a)
        raise RReject("power of a tensor")
    (x, y), fi, _ = _align([a, b])
    with np.errstate(all="ignore"):
        yr = np.broadcast_to(y, np.broadcast_shapes(x.shape, y.shape))
        if np.all(yr.imag == 0) and np.all(yr.real == np.round(yr.real)):
            x, y = np.broadcast_arrays(x, y)
            out = np.empty(x.shape, dtype=complex)
            if not np.all(np.isfinite(yr.real)) or np.any(np.abs(yr.real) > 1e6):
                raise RReject("non-finite / huge exponent")
            for idx in np.ndindex(x.shape):
                out[idx] = x[idx] ** int(y[idx].real)
            return LT(out, 0, fi)
        return LT(_cn(x) ** y, 0, fi)


def _cn(z):
    """Same branch convention as the interpreter: values on the negative real axis from above."""
    z = np.asarray(z, dtype=complex)
    tiny = np.abs(z.imag) <= 1e-13 * np.maximum(np.abs(z.real), 1e-300)
    return np.where(tiny, z.real + 0j, z)


def absolute(a):
    return LT(np.abs(a.arr), a.rank, a.fi)


def conj(a):
    return LT(np.conj(a.arr), a.rank, a.fi)


def real(a):
    return LT(a.arr.real, a.rank, a.fi)


def imag(a):
    return LT(a.arr.imag, a.rank, a.fi)


# ------------------------------------------------------------------ indexing


def getitem(a, comp):
    """comp: tuple of ('int', k) | ('slice',) | ('ellipsis',) | ('index', count, dim-agnostic)."""
    shape = a.shape
    n_explicit = sum(1 for c in comp if c[0] != "ellipsis")
    if sum(1 for c in comp if c[0] == "ellipsis") > 1:
        raise RReject("two ellipses")
    full = []
    for c in comp:
        if c[0] == "ellipsis":
            full.extend([("slice",)] * (len(shape) - n_explicit))
        else:
            full.append(c)
    if len(full) != len(shape):
        raise RReject("wrong number of indices")
    if all(c[0] == "slice" for c in full):
        return a
    arr = a.arr
    # labels of the axes after indexing: slice axes stay shape axes (in order), index axes become free
    sel = []
    slice_axes = []
    index_axes = []
    for k, c in enumerate(full):
        if c[0] == "int":
            if not (0 <= c[1] < shape[k]):
                raise RReject("index out of bounds")
            sel.append(c[1])
        else:
            sel.append(slice(None))
            if c[0] == "slice":
                slice_axes.append(k)
            else:
                index_axes.append((k, c[1]))
    arr = arr[tuple(sel) + (slice(None),) * len(a.fi)]
    # position bookkeeping after dropping int axes
    remaining = [k for k, c in enumerate(full) if c[0] != "int"]
    pos = {k: p for p, k in enumerate(remaining)}
    nrem = len(remaining)
    labels = [None] * nrem
    for k in slice_axes:
        labels[pos[k]] = ("s", k)
    for k, cnt in index_axes:
        labels[pos[k]] = ("i", cnt)
    labels = labels + [("i", c) for c in a.fi]
    # repeated index labels: take the diagonal and sum (implicit summation)
    counts = {}
    for lab in labels:
        if lab[0] == "i":
            counts[lab[1]] = counts.get(lab[1], 0) + 1
    if any(v > 2 for v in counts.values()):
        raise RReject("index repeated more than twice")
    for cnt, v in counts.items():
        if v == 2:
            p = [q for q, lab in enumerate(labels) if lab == ("i", cnt)]
            if arr.shape[p[0]] != arr.shape[p[1]]:
                raise RReject("repeated index over different dimensions")
            arr = np.trace(arr, axis1=p[0], axis2=p[1])
            labels = [lab for q, lab in enumerate(labels) if q not in p]
    # order: slice axes first (in original order), then free indices sorted by count
    s_pos = [q for q, lab in enumerate(labels) if lab[0] == "s"]
    i_pos = sorted([q for q, lab in enumerate(labels) if lab[0] == "i"], key=lambda q: labels[q][1])
    arr = np.transpose(arr, s_pos + i_pos)
    return LT(arr, len(s_pos), tuple(labels[q][1] for q in i_pos))


def as_tensor_indices(a, idx):
    """as_tensor(expr, (i, j, ...)): expr scalar-valued with these free indices."""
    if not idx:
        return a
    if a.rank:
        raise RReject("as_tensor of a non-scalar expression with indices")
    if len(set(idx)) != len(idx) or any(i not in a.fi for i in idx):
        raise RReject("as_tensor indices must be distinct free indices")
    rest = [i for i in a.fi if i not in idx]
    order = [a.fi.index(i) for i in idx] + [a.fi.index(i) for i in rest]
    return LT(np.transpose(a.arr, order), len(idx), tuple(rest))


def stack(rows):
    """as_vector / as_matrix / as_tensor of (nested) lists: rows are LTs of equal shape."""
    if not rows:
        raise RReject("empty list tensor")
    if any(r.shape != rows[0].shape for r in rows):
        raise RReject("rows of different shape")
    arrs, fi, _ = _align(rows)
    arrs = np.broadcast_arrays(*arrs)
    return LT(np.stack(arrs, axis=0), rows[0].rank + 1, fi)


# ------------------------------------------------------------------ tensor algebra


def _nofi(*ts):
    fi_sets = [set(t.fi) for t in ts]
    for i in range(len(fi_sets)):
        for j in range(i + 1, len(fi_sets)):
            if fi_sets[i] & fi_sets[j]:
                raise RUnknown("overlapping free indices in a compound operator")


def dot(a, b):
    if a.rank == 0 and b.rank == 0:
        return mul(a, b)
    if a.rank == 0 or b.rank == 0:
        raise RReject("dot with a scalar")
    _nofi(a, b)
    if a.shape[-1] != b.shape[0]:
        raise RReject("dot dimension mismatch")
    (x, y), fi, _ = _align([a, b])
    x = _expand_rank(x, a.rank, 0, b.rank - 1)
    y = _expand_rank(y, b.rank, a.rank - 1, 0)
    return LT((x * y).sum(axis=a.rank - 1), a.rank + b.rank - 2, fi)


def inner(a, b):
    if a.rank == 0 and b.rank == 0:
        return mul(a, conj(b))
    if a.shape != b.shape:
        raise RReject("inner of different shapes")
    _nofi(a, b)
    (x, y), fi, _ = _align([a, b])
    return LT((x * np.conj(y)).sum(axis=tuple(range(a.rank))), 0, fi)


def outer(a, b):
    if a.rank == 0 and b.rank == 0:
        return mul(conj(a), b)
    _nofi(a, b)
    (x, y), fi, _ = _align([a, b])
    x = _expand_rank(x, a.rank, 0, b.rank)
    y = _expand_rank(y, b.rank, a.rank, 0)
    return LT(np.conj(x) * y, a.rank + b.rank, fi)


def cross(a, b):
    if a.shape != (3,) or b.shape != (3,):
        raise RReject("cross needs 3-vectors")
    _nofi(a, b)
    (x, y), fi, _ = _align([a, b])
    x, y = np.broadcast_arrays(x, y)
    return LT(np.cross(x, y, axis=0), 1, fi)


def perp(a):
    if a.shape != (2,):
        raise RReject("perp needs a 2-vector")
    return LT(np.stack([-a.arr[1], a.arr[0]]), 1, a.fi)


def transpose(a):
    if a.rank == 0:
        return a
    if a.rank != 2:
        raise RReject("transpose needs rank 2")
    return LT(np.swapaxes(a.arr, 0, 1), 2, a.fi)


def _square(a):
    if a.rank != 2 or a.shape[0] != a.shape[1]:
        raise RReject("square matrix expected")


def tr(a):
    _square(a)
    return LT(np.trace(a.arr, axis1=0, axis2=1), 0, a.fi)


def _mats(a):
    return np.moveaxis(a.arr, (0, 1), (-2, -1))


def det(a):
    if a.rank == 0:
        return a
    _square(a)
    if a.fi:
        raise RReject("free indices in determinant")
    return LT(np.linalg.det(a.arr), 0, ())


def inv(a):
    if a.rank == 0:
        return div(lit(1.0), a)
    _square(a)
    if a.fi:
        raise RReject("free indices in inverse")
    return LT(np.linalg.inv(a.arr), 2, ())


def cofac(a):
    _square(a)
    if a.fi:
        raise RReject("free indices in cofactor")
    n = a.shape[0]
    c = np.zeros((n, n), dtype=complex)
    for i in range(n):
        for j in range(n):
            m = np.delete(np.delete(a.arr, i, axis=0), j, axis=1)
            c[i, j] = (-1) ** (i + j) * (np.linalg.det(m) if n > 1 else 1.0)
    return LT(c, 2, ())


def dev(a):
    _square(a)
    n = a.shape[0]
    t = np.trace(a.arr, axis1=0, axis2=1)
    eye = np.eye(n).reshape((n, n) + (1,) * len(a.fi))
    return LT(a.arr - t[None, None] * eye / n, 2, a.fi)


def skew(a):
    _square(a)
    return LT((a.arr - np.swapaxes(a.arr, 0, 1)) / 2, 2, a.fi)


def sym(a):
    _square(a)
    return LT((a.arr + np.swapaxes(a.arr, 0, 1)) / 2, 2, a.fi)


def diag(a):
    if a.rank == 1:
        n = a.shape[0]
        out = np.zeros((n, n) + a.arr.shape[1:], dtype=complex)
        for i in range(n):
            out[i, i] = a.arr[i]
        return LT(out, 2, a.fi)
    _square(a)
    n = a.shape[0]
    out = np.zeros_like(a.arr)
    for i in range(n):
        out[i, i] = a.arr[i, i]
    return LT(out, 2, a.fi)


def diag_vector(a):
    _square(a)
    n = a.shape[0]
    return LT(np.stack([a.arr[i, i] for i in range(n)]), 1, a.fi)


def elem(op, a, b):
    if a.shape != b.shape:
        raise RReject("elementwise operation on different shapes")
    if a.rank == 0:
        return {"mult": mul, "div": div, "pow": power}[op](a, b)
    # elementwise on components: free indices behave as in the scalar operators
    comps = []
    for idx in np.ndindex(a.shape):
        x = LT(a.arr[idx], 0, a.fi)
        y = LT(b.arr[idx], 0, b.fi)
        comps.append({"mult": mul, "div": div, "pow": power}[op](x, y))
    fi = comps[0].fi
    arr = np.stack([c.arr for c in comps]).reshape(a.shape + comps[0].arr.shape)
    return LT(arr, a.rank, fi)


# ------------------------------------------------------------------ conditions, functions


class CondLT:
    def __init__(self, mask, fi):
        self.mask = mask
        self.fi = tuple(fi)


def compare(op, a, b):
    if a.rank or b.rank:
        raise RReject("comparison of tensors")
    (x, y), fi, _ = _align([a, b])
    x, y = np.broadcast_arrays(x, y)
    if op in ("lt", "le", "gt", "ge"):
        x, y = x.real, y.real
    m = {"lt": x < y, "le": x <= y, "gt": x > y, "ge": x >= y, "eq": x == y, "ne": x != y}[op]
    return CondLT(m, fi)


def logical(op, a, b=None):
    if op == "not":
        return CondLT(~a.mask, a.fi)
    fi = tuple(sorted(set(a.fi) | set(b.fi)))

    def ex(c):
        have = {i: p for p, i in enumerate(c.fi)}
        m = np.transpose(c.mask, [have[i] for i in fi if i in have]) if c.mask.ndim else c.mask
        shp = []
        it = iter(m.shape)
        for i in fi:
            shp.append(next(it) if i in have else 1)
        return m.reshape(shp)

    x, y = np.broadcast_arrays(ex(a), ex(b))
    return CondLT(x & y if op == "and" else x | y, fi)


def conditional(c, a, b):
    if a.shape != b.shape:
        raise RReject("conditional branches of different shape")
    if set(a.fi) != set(b.fi):
        raise RReject("conditional branches with different free indices")
    cl = LT(c.mask.astype(complex), 0, c.fi)
    (m, x, y), fi, _ = _align([cl, a, b])
    m = _expand_rank(m, 0, a.rank, 0)
    return LT(np.where(m != 0, x, y), a.rank, fi)


def sign(a):
    if a.rank:
        raise RReject("sign of a tensor")
    return LT(np.sign(a.arr.real), 0, a.fi)


def minmax(which, a, b):
    if a.rank or b.rank:
        raise RReject("min/max of tensors")
    (x, y), fi, _ = _align([a, b])
    x, y = np.broadcast_arrays(x, y)
    m = x.real > y.real if which == "max" else x.real < y.real
    return LT(np.where(m, x, y), 0, fi)


def mathfn(name, a):
    if a.rank:
        raise RReject("math function of a tensor")
    x = a.arr
    with np.errstate(all="ignore"):
        if name == "sqrt":
            r = np.sqrt(_cn(x))
        elif name == "ln":
            r = np.log(_cn(x))
        elif name == "erf":
            import mpmath

            r = np.empty(x.shape, dtype=complex)
            for idx in np.ndindex(x.shape):
                z = x[idx]
                r[idx] = math.erf(z.real) if z.imag == 0 else complex(mpmath.erf(mpmath.mpc(z.real, z.imag)))
        else:
            f = {"exp": np.exp, "sin": np.sin, "cos": np.cos, "tan": np.tan, "sinh": np.sinh, "cosh": np.cosh, "tanh": np.tanh,
                 "asin": np.arcsin, "acos": np.arccos, "atan": np.arctan}[name]
            r = f(x)
    return LT(r, 0, a.fi)


def atan2(a, b):
    if a.rank or b.rank:
        raise RReject("atan2 of tensors")
    (x, y), fi, _ = _align([a, b])
    return LT(np.arctan2(x.real, y.real), 0, fi)


def bessel(kind, nu, a):
    import mpmath

    if a.rank:
        raise RReject("bessel of a tensor")
    fun = {"J": mpmath.besselj, "Y": mpmath.bessely, "I": mpmath.besseli, "K": mpmath.besselk}[kind]
    r = np.empty(a.arr.shape, dtype=complex)
    for idx in np.ndindex(a.arr.shape):
        z = a.arr[idx]
        r[idx] = complex(fun(nu, mpmath.mpc(z.real, z.imag)))
    return LT(r, 0, a.fi)
