"""C27 mutation monitor: snapshot(obj) before a call == snapshot(obj) after the call.

snapshot = independent full-fidelity walk of the object (vf.canon in mode 'abs' for small
trees, a DAG-memoised digest built from the same terminal data for every size), the user
visible observables named by the property (repr, hash, signature, arguments, coefficients,
integral metadata, subdomain data) and the same observables *recomputed from the current
state* (so that a value hidden behind a cache of the input still shows).

`Monitor.call(op, fn, *args, **kw)` snapshots every Expr / Form / Integral / BaseForm /
Measure / plain container reachable through the arguments (tuples, lists, dicts), runs the
real function, and compares after the call returned OR raised.
"""

import hashlib
import signal

from .canon import Canon, canon_value

TREE_LIMIT = 5000  # above this tree size only the DAG digest is taken (repr / canon are tree walks)
DEPTH_LIMIT = 150

# most specific component first: the first differing one names the mechanism
PRIORITY = [
    "n-integrals",
    "metadata",
    "subdomain_data",
    "integral-header",
    "integrand",
    "structure",
    "container",
    "value",
    "measure",
    "arguments",
    "coefficients",
    "arguments-recomputed",
    "coefficients-recomputed",
    "signature",
    "signature-recomputed",
    "hash",
    "hash-recomputed",
    "repr",
]


class C27Canon(Canon):
    """vf.canon.Canon with a work-around: Interpolate has derivatives=None (tuple(None) raises there)."""

    def expr(self, o):
        tn = type(o).__name__
        if tn in ("ExternalOperator", "Interpolate") and o.derivatives is None:
            ops = tuple(self.expr(x) for x in o.ufl_operands)
            extra = (
                ("space", self.space(o.ufl_function_space())),
                ("derivatives", None),
                ("slots", tuple(self.any(s) for s in o.argument_slots())),
            )
            return (tn, ops, extra)
        return super().expr(o)


def _h(data):
    return hashlib.blake2b(repr(data).encode(), digest_size=12).hexdigest()


def dag_stats(e):
    """(tree size, depth, unique nodes) of an expression, memoised over the DAG."""
    memo = {}
    stack = [(e, False)]
    while stack:
        o, done = stack.pop()
        k = id(o)
        if k in memo:
            continue
        ops = o.ufl_operands
        if not done:
            stack.append((o, True))
            for op in ops:
                if id(op) not in memo:
                    stack.append((op, False))
        else:
            s, d = 1, 0
            for op in ops:
                ss, dd = memo[id(op)]
                s += ss
                d = max(d, dd)
            memo[k] = (s, d + 1)
    s, d = memo[id(e)]
    return s, d, len(memo)


def _shape_info(o):
    if type(o).__name__ == "MultiIndex":
        return None
    try:
        return (tuple(o.ufl_shape), tuple(o.ufl_free_indices), tuple(o.ufl_index_dimensions))
    except Exception as ex:  # reading a shape must not decide anything by itself
        return ("shape-raises", type(ex).__name__)


def dag_digest(e, c):
    """Digest of the full content of an expression; linear in the number of unique nodes."""
    memo = {}
    stack = [(e, False)]
    while stack:
        o, done = stack.pop()
        k = id(o)
        if k in memo:
            continue
        ops = o.ufl_operands
        if not done:
            stack.append((o, True))
            for op in ops:
                if id(op) not in memo:
                    stack.append((op, False))
            continue
        tn = type(o).__name__
        if o._ufl_is_terminal_:
            data = ("T", c.terminal(o, tn))
        else:
            extra = ()
            if tn in ("ExternalOperator", "Interpolate"):
                extra = (
                    ("space", c.space(o.ufl_function_space())),
                    ("derivatives", tuple(o.derivatives) if o.derivatives is not None else None),
                    ("slots", tuple(c.any(s) for s in o.argument_slots())),
                )
            data = ("O", tn, tuple(memo[id(op)] for op in ops), extra)
        memo[k] = _h((data, _shape_info(o)))
    return memo[id(e)]


def snap_expr(e, c, full):
    size, depth, uniq = dag_stats(e)
    small = size <= TREE_LIMIT and depth <= DEPTH_LIMIT
    comp = {}
    struct = {"digest": dag_digest(e, c)}
    if small:
        struct["canon"] = c.any(e)
    comp["structure"] = struct
    if small:
        comp["repr"] = repr(e)
    if full:
        comp["hash"] = hash(e)
    try:
        comp["hash-recomputed"] = e._ufl_compute_hash_()
    except Exception as ex:
        comp["hash-recomputed"] = ("raises", type(ex).__name__)
    return {"kind": type(e).__name__, "small": small, "size": size, "comp": comp}


def _sd(sd):
    if sd is None:
        return None
    if hasattr(sd, "ufl_id"):
        return ("sd", id(sd), repr(sd))
    return canon_value(sd)


def _integral_parts(itg, c):
    e = itg.integrand()
    size, depth, uniq = dag_stats(e)
    small = size <= TREE_LIMIT and depth <= DEPTH_LIMIT
    header = (
        itg.integral_type(),
        c.domain(itg.ufl_domain()),
        canon_value(itg.subdomain_id()),
        tuple((c.domain(d), t) for d, t in itg.extra_domain_integral_type_map().items()),
    )
    integrand = {"digest": dag_digest(e, c)}
    if small:
        integrand["canon"] = c.expr(e)
    return header, canon_value(itg.metadata()), _sd(itg.subdomain_data()), integrand, small, size


def _terms(objs, c):
    return tuple(c.any(o) for o in objs)


def _guard(f):
    try:
        return f()
    except Exception as ex:
        return ("raises", type(ex).__name__)


def snap_integrals(itgs, c):
    heads, mds, sds, bodies = [], [], [], []
    small = True
    size = 0
    for itg in itgs:
        h, m, s, b, sm, sz = _integral_parts(itg, c)
        heads.append(h)
        mds.append(m)
        sds.append(s)
        bodies.append(b)
        small = small and sm
        size += sz
    comp = {
        "n-integrals": len(heads),
        "metadata": tuple(mds),
        "subdomain_data": tuple(sds),
        "integral-header": tuple(heads),
        "integrand": tuple(bodies),
    }
    return comp, small and size <= TREE_LIMIT, size


def snap_form(F, c, full):
    from ufl.algorithms.analysis import extract_arguments, extract_coefficients
    from ufl.form import Form

    itgs = F.integrals()
    comp, small, size = snap_integrals(itgs, c)
    if small:
        comp["repr"] = repr(F)
    if full:
        comp["hash"] = _guard(lambda: hash(F))
        comp["signature"] = _guard(F.signature)
        comp["arguments"] = _guard(lambda: _terms(F.arguments(), c))
        comp["coefficients"] = _guard(lambda: _terms(F.coefficients(), c))
    # the same observables computed from the object's current integrals without its caches
    comp["signature-recomputed"] = _guard(lambda: Form(list(itgs)).signature())
    comp["arguments-recomputed"] = _guard(lambda: _terms(extract_arguments(F), c))
    comp["coefficients-recomputed"] = _guard(lambda: _terms(extract_coefficients(F), c))
    comp["hash-recomputed"] = _guard(lambda: hash(tuple(hash(i) for i in itgs)))
    return {"kind": "Form", "small": small, "size": size, "comp": comp}


def snap_integral(itg, c, full):
    comp, small, size = snap_integrals([itg], c)
    if small:
        comp["repr"] = repr(itg)
    if full:
        comp["hash"] = _guard(lambda: hash(itg))
    return {"kind": "Integral", "small": small, "size": size, "comp": comp}


def snap_baseform(B, c, full):
    comp = {"structure": {"canon": _guard(lambda: c.any(B))}}
    comp["repr"] = _guard(lambda: repr(B))
    if full:
        comp["hash"] = _guard(lambda: hash(B))
        comp["arguments"] = _guard(lambda: _terms(B.arguments(), c))
        comp["coefficients"] = _guard(lambda: _terms(B.coefficients(), c))
    return {"kind": type(B).__name__, "small": True, "size": 0, "comp": comp}


def snap_measure(m, c):
    data = (
        m.integral_type(),
        canon_value(m.subdomain_id()),
        c.domain(m.ufl_domain()),
        _sd(m.subdomain_data()),
        tuple(repr(x) for x in m.intersect_measures()),
    )
    return {"kind": "Measure", "small": True, "size": 0, "comp": {"measure": data, "metadata": canon_value(m.metadata()), "repr": repr(m)}}


def snap_any(o, c, full, depth=0):
    """Snapshot of anything passed to an algorithm."""
    from ufl.core.expr import Expr
    from ufl.form import BaseForm, Form
    from ufl.integral import Integral
    from ufl.measure import Measure

    if isinstance(o, Form):
        return snap_form(o, c, full)
    if isinstance(o, Integral):
        return snap_integral(o, c, full)
    if isinstance(o, Expr):
        return snap_expr(o, c, full)
    if isinstance(o, BaseForm):
        return snap_baseform(o, c, full)
    if isinstance(o, Measure):
        return snap_measure(o, c)
    if isinstance(o, dict) and depth < 4:
        items = [(snap_any(k, c, full, depth + 1), snap_any(v, c, full, depth + 1)) for k, v in list(o.items())]
        return {"kind": "dict", "container": ("dict", len(items)), "items": items}
    if isinstance(o, (list, tuple)) and depth < 4:
        items = [snap_any(x, c, full, depth + 1) for x in o]
        return {"kind": type(o).__name__, "container": (type(o).__name__, len(items)), "items": items}
    return {"kind": "plain", "comp": {"value": canon_value(o)}, "small": True, "size": 0}


def diff(b, a, path=""):
    """List of (path, kind, [differing component names]) between two snapshots."""
    out = []
    if b["kind"] != a["kind"]:
        return [(path, b["kind"], ["container"])]
    if "items" in b:
        if b["container"] != a["container"]:
            return [(path, b["kind"], ["container"])]
        for n, (x, y) in enumerate(zip(b["items"], a["items"])):
            if isinstance(x, tuple):
                out += diff(x[0], y[0], f"{path}.key{n}")
                out += diff(x[1], y[1], f"{path}.val{n}")
            else:
                out += diff(x, y, f"{path}[{n}]")
        return out
    cb, ca = b["comp"], a["comp"]
    names = [k for k in cb if k not in ca or cb[k] != ca[k]] + [k for k in ca if k not in cb]
    if names:
        names.sort(key=lambda k: PRIORITY.index(k) if k in PRIORITY else 99)
        out.append((path, b["kind"], names))
    return out


def first_difference(x, y, path="", limit=6):
    """Human readable first differing position of two nested tuples."""
    if type(x) is not type(y):
        return f"{path}: {str(x)[:160]!r} -> {str(y)[:160]!r}"
    if isinstance(x, dict):
        for k in sorted(x, key=lambda k: k != "canon"):
            if k not in y or x[k] != y[k]:
                return first_difference(x[k], y.get(k), f"{path}.{k}")
        return f"{path}: keys {sorted(x)} -> {sorted(y)}"
    if isinstance(x, (tuple, list)):
        if len(x) != len(y):
            return f"{path}: length {len(x)} -> {len(y)}: {str(x)[:200]} -> {str(y)[:200]}"
        for n, (p, q) in enumerate(zip(x, y)):
            if p != q:
                return first_difference(p, q, f"{path}/{n}")
    return f"{path}: {str(x)[:200]!r} -> {str(y)[:200]!r}"


def _get(snapshot, path):
    """Component dict of the leaf addressed by a diff path."""
    s = snapshot
    import re

    for tok in re.findall(r"\.key(\d+)|\.val(\d+)|\[(\d+)\]", path):
        k, v, i = tok
        if k:
            s = s["items"][int(k)][0]
        elif v:
            s = s["items"][int(v)][1]
        else:
            s = s["items"][int(i)]
    return s


class CallTimeout(BaseException):
    """The real UFL call exceeded the per-call time limit (expression blow-up); the history is abandoned."""


def _on_alarm(signum, frame):
    raise CallTimeout()


class Monitor:
    call_limit = 6.0  # seconds per real call

    def __init__(self, ctx, full=True):
        self.ctx = ctx
        self.full = full
        self.canon = C27Canon("abs")
        self.trace = []  # op names of the running history
        self.watch = []  # (label, object, snapshot) re-checked by recheck()
        self._last_arg_ids = set()

    def snapshot(self, o):
        return snap_any(o, self.canon, self.full)

    def remember(self, label, o):
        self.watch.append((label, o, self.snapshot(o)))

    def _report(self, op, where, obj, before, after, what):
        ctx = self.ctx
        for path, kind, names in diff(before, after):
            main = names[0]
            key = f"C27/{op}/{main}"
            lb, la = _get(before, path), _get(after, path)
            if main == "container":
                vb, va = (lb["kind"], lb.get("container")), (la["kind"], la.get("container"))
            else:
                vb, va = lb["comp"].get(main), la["comp"].get(main)
            detail = {
                "operation": op,
                "object": where + path,
                "object_kind": kind,
                "all_differing_components": names,
                "first_difference": first_difference(vb, va)[:1500],
                "repr_before": str(lb.get("comp", {}).get("repr"))[:600],
                "history": list(self.trace),
                "call": what,
            }
            ctx.violation(key, f"{op}: {kind} {where}{path} changed in component {main!r} ({', '.join(names)}); {detail['first_difference'][:300]}", detail)
            ctx.count("mutations_seen")

    def call(self, op, fn, *args, **kw):
        """Run fn(*args, **kw) under the mutation monitor.  Returns (status, result)."""
        ctx = self.ctx
        what = kw.pop("_what", None)
        self._last_arg_ids = {id(a) for a in args} | {id(v) for v in kw.values()}
        before = self.snapshot((args, kw))
        nobj = _count_leaves(before)
        old = signal.signal(signal.SIGALRM, _on_alarm)
        try:
            signal.setitimer(signal.ITIMER_REAL, self.call_limit)
            try:
                res = fn(*args, **kw)
            finally:
                signal.setitimer(signal.ITIMER_REAL, 0)
            status = "ok"
        except CallTimeout:
            signal.signal(signal.SIGALRM, old)
            ctx.count("call_timeouts")
            ctx.covered("ops_timed_out", op)
            raise
        except (KeyboardInterrupt, SystemExit, GeneratorExit, MemoryError):
            raise
        except BaseException as ex:  # UFL has error classes deriving from BaseException (ArityMismatch, ...)
            res = ex
            status = "raised"
        after = self.snapshot((args, kw))
        ctx.count("monitored_calls")
        ctx.count("input_objects_compared", nobj)
        ctx.count("calls_returned" if status == "ok" else "calls_raised")
        ctx.covered("ops", op)
        if status == "raised":
            ctx.covered("ops_raised", op + ":" + type(res).__name__)
        self.trace.append(op if status == "ok" else op + "!")
        self._report(op, "arg", (args, kw), before, after, what)
        return status, res

    def recheck(self, op):
        """Compare every remembered object of the history with its last snapshot."""
        for n, (label, o, snap) in enumerate(self.watch):
            after = self.snapshot(o)
            self.ctx.count("history_rechecks")
            if diff(snap, after):
                if id(o) not in self._last_arg_ids:
                    self._report(op, label, o, snap, after, "re-check of an earlier input of the same history")
                self.watch[n] = (label, o, after)


def _count_leaves(s):
    if "items" in s:
        n = 0
        for x in s["items"]:
            if isinstance(x, tuple):
                n += _count_leaves(x[0]) + _count_leaves(x[1])
            else:
                n += _count_leaves(x)
        return n
    return 0 if s["kind"] == "plain" else 1
