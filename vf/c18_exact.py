"""Exact-degree oracle for C18 (engine 'exactdeg').

The true total polynomial degree of an expression on an affine simplex cell is measured, not derived:
the expression is evaluated by the reference interpreter `vf.seval.S` in exact rational arithmetic at
consecutive integer parameters of a random rational line X(t) = X0 + t*d in reference coordinates
(for facet integrals: a line inside the facet), and the degree in t is read off the forward differences
(the order of the highest non-vanishing difference; no tolerance anywhere).

The number of sample points comes from `ubound`, a deliberately crude structural upper bound of the degree
(sum for products, max for sums, exponent times base for powers, *no* reduction for derivatives).  It is
used only to know how many points are enough (a polynomial of degree <= U is determined by U+1 points);
two more points are taken and the two highest difference orders must vanish, otherwise the bound itself
was wrong and the oracle reports an error instead of a degree.  `ubound` raises NotPolynomial for anything that is
not a polynomial in the coordinates by construction (division by a non-constant, conditions that vary in
space, abs / min / max / math functions of non-constants, inverse of a non-constant matrix): such
expressions are outside the property and are skipped.
"""

import math
from fractions import Fraction

import numpy as np
from ufl.classes import Argument, Coefficient, Constant, ConstantValue, GeometricQuantity

from .jet import IllConditioned, OArr, QBackend, plain
from .seval import S
from .world import REF_VERTS, Side, World, element_leaves, facet_vertices

MAX_UBOUND = 22


def _unnest(a):
    """Object array of python scalars: unwraps elements that are themselves 0-d arrays (seval stores the 0-d
    object array of a scalar geometric quantity as an *element* of the jet array)."""
    a = np.asarray(a, dtype=object).view(np.ndarray)
    out = np.empty(a.shape, dtype=object)
    for idx in np.ndindex(a.shape):
        v = a[idx]
        while isinstance(v, np.ndarray):
            v = v.reshape(()).view(np.ndarray)[()]
        out[idx] = v
    return out


class ExactBackend(QBackend):
    """Fractions, plus square roots of rational squares (geometry of the hand-made manifold cells)."""

    name = "fraction-exact-sqrt"

    def det(self, a):
        return super().det(_unnest(a))

    def inv(self, a):
        return super().inv(_unnest(a))

    def fn(self, name, *params):
        if name == "sqrt":
            return self._sqrt
        return super().fn(name, *params)

    def _sqrt(self, x):
        x = _unnest(x)
        out = np.empty(x.shape, dtype=object)
        for idx in np.ndindex(x.shape):
            v = Fraction(x[idx])
            if v < 0:
                raise IllConditioned("square root of a negative rational")
            n, d = math.isqrt(v.numerator), math.isqrt(v.denominator)
            if n * n != v.numerator or d * d != v.denominator:
                raise IllConditioned("irrational square root in the exact backend")
            out[idx] = Fraction(n, d)
        return out.view(OArr)


# --------------------------------------------------------------------------- structural upper bound


class NotPolynomial(Exception):
    """The expression is not a polynomial in the coordinates by construction (outside the property)."""


class UnknownNode(Exception):
    pass


_MAX_OF_OPERANDS = {
    "Sum", "ListTensor", "ComponentTensor", "Indexed", "IndexSum", "Transposed", "Trace", "Deviatoric", "Skew", "Sym",
    "Perp", "PositiveRestricted", "NegativeRestricted", "Conj", "Real", "Imag", "ExprList", "ExprMapping",
    "Grad", "Div", "Curl", "NablaGrad", "NablaDiv", "ReferenceGrad", "ReferenceDiv", "ReferenceCurl", "ReferenceValue",
}
_SUM_OF_OPERANDS = {"Product", "Inner", "Dot", "Outer", "Cross", "ElemMult"}
_CONDITIONS = {"EQ", "NE", "LT", "GT", "LE", "GE", "AndCondition", "OrCondition", "NotCondition"}


def ubound(e, memo=None):
    """Crude upper bound of the total degree in the coordinates; raises NotPolynomial / UnknownNode."""
    if memo is None:
        memo = {}
    k = id(e)
    if k in memo:
        return memo[k]
    r = _ubound(e, memo)
    memo[k] = r
    return r


def _ubound(e, memo):
    name = type(e).__name__
    ops = e.ufl_operands
    if e._ufl_is_terminal_:
        if isinstance(e, (Coefficient, Argument)):
            return max([lf[2] for lf in element_leaves(e.ufl_element())] + [0])
        if name in ("SpatialCoordinate", "CellCoordinate"):
            return 1
        if isinstance(e, (ConstantValue, Constant)) or name in ("MultiIndex", "Label"):
            return 0
        if isinstance(e, GeometricQuantity):
            if name in ("FacetCoordinate",):
                raise UnknownNode(name)
            return 0  # affine simplex cells: every other geometric quantity is constant on the cell
        raise UnknownNode(name)
    if name in ("Grad", "ReferenceGrad") and type(ops[0]).__name__ in ("SpatialCoordinate", "CellCoordinate"):
        return 0  # affine cells: the coordinate fields are affine in each other, their gradients are the (constant) Jacobian data
    if name in _MAX_OF_OPERANDS:
        return max([ubound(o, memo) for o in ops] + [0])
    if name in _SUM_OF_OPERANDS:
        return sum(ubound(o, memo) for o in ops)
    if name == "Variable":
        return ubound(ops[0], memo)
    if name in ("Division", "ElemDiv"):
        if ubound(ops[1], memo) != 0:
            raise NotPolynomial("division by a non-constant")
        return ubound(ops[0], memo)
    if name == "Power":
        b = ubound(ops[0], memo)
        g = ops[1]
        if type(g).__name__ == "Zero":
            return 0
        if type(g).__name__ in ("IntValue", "FloatValue"):
            v = g.value()
            if float(v) == int(v) and int(v) >= 0:
                return b * int(v)
        if b == 0 and ubound(g, memo) == 0:
            return 0
        raise NotPolynomial("power with a non-integer / negative / varying exponent")
    if name == "Determinant":
        n = ops[0].ufl_shape[0] if ops[0].ufl_shape else 1
        return n * ubound(ops[0], memo)
    if name == "Cofactor":
        n = ops[0].ufl_shape[0]
        return max(n - 1, 0) * ubound(ops[0], memo)
    if name == "Inverse":
        if ubound(ops[0], memo) != 0:
            raise NotPolynomial("inverse of a non-constant matrix")
        return 0
    if name == "Conditional":
        if ubound(ops[0], memo) != 0:
            raise NotPolynomial("condition varies in space")
        return max(ubound(ops[1], memo), ubound(ops[2], memo))
    if name in _CONDITIONS:
        return max([ubound(o, memo) for o in ops] + [0])
    if name in ("MinValue", "MaxValue", "Abs", "Sign", "Sqrt", "Exp", "Ln", "Cos", "Sin", "Tan", "Cosh", "Sinh", "Tanh",
                "Acos", "Asin", "Atan", "Erf", "Atan2", "BesselJ", "BesselY", "BesselI", "BesselK", "MathFunction"):
        if any(ubound(o, memo) != 0 for o in ops):
            raise NotPolynomial(name + " of a non-constant")
        return 0
    if name == "VariableDerivative":
        return ubound(ops[0], memo)
    if name == "CoefficientDerivative":
        F, ws, vs, cd = ops
        if len(cd.ufl_operands):
            raise UnknownNode("coefficient_derivatives map")
        return ubound(F, memo) + max([ubound(v, memo) for v in vs.ufl_operands] + [0])
    raise UnknownNode(name)


# --------------------------------------------------------------------------- worlds and lines

# integer / dyadic embeddings R^t -> R^g whose Gram determinant is the square of a rational, so that the
# pseudo-determinant of the Jacobian (contravariant / L2 Piola maps on immersed manifolds) is rational
_EMBED = {
    (1, 2): [(1, 0), (0, 1), (0.75, 1), (1, 0.75), (-0.75, 1)],
    (1, 3): [(1, 0, 0), (0.5, 1, 1), (1, 0.5, -1), (0.75, 0, 1), (0, 1, 0.75), (0.5, 0.75, 1.5)],
    (2, 3): [((1, 0), (0, 1), (0, 0)), ((1, 0), (0, 1), (2, 2)), ((1, 0), (0, 1), (0, 0.75)), ((1, 0), (0, 1), (0.75, 0)),
             ((1, 0), (0, 1), (-2, 2)), ((1, 0), (0, 1), (2, -2))],
}


def make_world(rng, cell, gdim, itype):
    """A World whose geometry is exact in rational arithmetic (immersed cells get a rational pseudo-determinant)."""
    w = World(rng, cell, gdim, itype, False, conforming=True)
    t = w.tdim
    if gdim > t:
        if w.two_sided:
            raise ValueError("interior facets are only used with gdim == tdim here")
        s = w.sides["+"]
        flat = World(rng, cell, t, "cell", False).sides["+"].verts  # (t+1, t), dyadic, well shaped
        M = np.array(rng.choice(_EMBED[(t, gdim)]), dtype=float).reshape(gdim, t)
        perm = list(range(gdim))
        rng.shuffle(perm)
        M = M[perm] * np.array([rng.choice([1.0, -1.0]) for _ in range(gdim)])[:, None]
        shift = np.array([rng.randint(-8, 8) / 4 for _ in range(gdim)])
        V = flat @ M.T + shift
        w.sides["+"] = Side(cell, V, s.orientation, s.facet, s.X, s.ridge)
        p = w.sides["+"]
        w.x = p.verts[0] + (p.verts[1:] - p.verts[0]).T @ p.X
    return w


class Line:
    """X(t) = X0 + t*d in reference coordinates, dyadic; inside the facet for facet integrals."""

    def __init__(self, rng, w):
        s = w.sides["+"]
        t = s.tdim
        RV = np.array(REF_VERTS[s.cellname], dtype=float).reshape(t + 1, t)
        if s.facet is None:
            self.X0 = np.array([rng.randint(-4, 4) / 4 for _ in range(t)])
            self.d = np.array([rng.choice([-3, -2, -1, 1, 2, 3]) / 2 for _ in range(t)])
        else:
            fv = facet_vertices(s.cellname, s.facet)
            if len(fv) < 2:
                raise ValueError("point facets have no line")
            T = [RV[v] - RV[fv[0]] for v in fv[1:]]
            self.X0 = RV[fv[0]] + sum(tk * (rng.randint(-4, 4) / 4) for tk in T)
            self.d = sum(tk * (rng.choice([-3, -2, -1, 1, 2, 3]) / 2) for tk in T)

    def at(self, k):
        return self.X0 + k * self.d


def set_point(w, X):
    for s in w.sides.values():
        # conforming two-cell worlds: the shared facet has the same vertex positions in both cells, so a
        # point of the facet has the same reference coordinates on both sides
        s.X = np.array(X, dtype=float)


class Probe:
    """A world together with a line in it."""

    def __init__(self, rng, cell, gdim, itype):
        self.w = make_world(rng, cell, gdim, itype)
        self.line = Line(rng, self.w)

    def describe(self):
        d = self.w.describe()
        d["line_X0"] = self.line.X0.tolist()
        d["line_d"] = self.line.d.tolist()
        return d


def _degree_of_sequence(vals):
    """Order of the highest non-vanishing forward difference (-1 for the zero sequence) and the number of
    vanishing difference orders above it that were actually checked."""
    cur = list(vals)
    deg = -1
    k = 0
    n = len(cur)
    while cur:
        if any(v != 0 for v in cur):
            deg = k
        cur = [b - a for a, b in zip(cur, cur[1:])]
        k += 1
    return deg, (n - 1) - deg


class OracleError(Exception):
    pass


def _exact(v):
    while isinstance(v, np.ndarray):
        v = v.reshape(()).view(np.ndarray)[()]
    if isinstance(v, Fraction):
        return v
    if isinstance(v, (int, np.integer)):
        return Fraction(int(v))
    if isinstance(v, (float, np.floating)):
        return Fraction(float(v))  # a float is a dyadic rational: exact
    if isinstance(v, (complex, np.complexfloating)) and complex(v).imag == 0:
        return Fraction(complex(v).real)
    raise OracleError(f"value of type {type(v).__name__} in the exact evaluation")


class DegreeTooHigh(Exception):
    pass


def true_degree(e, probes, B, stats=None, memo=None, side=None):
    """Exact total degree of e (max over its entries and over the probes); -1 for identically zero.

    Raises NotPolynomial / UnknownNode (outside the property), DegreeTooHigh, and whatever S raises."""
    U = ubound(e, memo)
    if U > MAX_UBOUND:
        raise DegreeTooHigh(U)
    n = U + 3
    best = -1
    for p in probes:
        seqs = None
        ks = range(-(n // 2), n - (n // 2))
        for k in ks:
            set_point(p.w, p.line.at(k))
            r = S(e, p.w, B, side=side)
            flat = [_exact(v) for v in plain(r.arr).ravel()]
            if seqs is None:
                seqs = [[] for _ in flat]
            for q, v in zip(seqs, flat):
                q.append(v)
            if stats is not None:
                stats["evaluations"] = stats.get("evaluations", 0) + 1
        for q in seqs or []:
            deg, spare = _degree_of_sequence(q)
            if deg > U or (deg >= 0 and spare < 2):
                raise OracleError(f"degree {deg} measured although the structural bound is {U}")
            best = max(best, deg)
    return best, U

