"""S: the reference interpreter of UFL expression DAGs on a World.

S never constructs UFL objects and never calls a UFL algorithm; it only reads node
classes, operands and terminal data.  Values are labelled jets:

    V(arr, rank, fi):  arr.shape == (2,)*d + value shape (rank axes) + one axis per free
                       index, ordered by index count;  fi = tuple of those counts.

Derivative nodes are evaluated by definition through additional jet levels (frames),
never by differentiation rules.
"""

import numpy as np

from . import jet as J
from .jet import CBackend, IllConditioned
from .world import Ambiguous, Unsupported, element_leaves, pullback_kind


class StructureMismatch(Exception):
    """A node's declared shape / free indices differ from what its operands imply."""


class V:
    __slots__ = ("arr", "rank", "fi")

    def __init__(self, arr, rank, fi):
        self.arr = arr
        self.rank = rank
        self.fi = tuple(fi)


class Ctx:
    def __init__(self, world, B, frames=(), side=None, root=None, nosub=False):
        self.world = world
        self.B = B
        self.frames = tuple(frames)
        self.d = len(self.frames)
        self.side = side
        self.nosub = nosub  # True while the image of a substituted terminal is evaluated
        self.root = root or self
        self.memo = {}
        self.kids = {}
        if root is None:
            self.gdata = {}
            self.keep = []
            self.strict_struct = True

    def child(self, frames=None, side=Ellipsis, nosub=None):
        frames = self.frames if frames is None else tuple(frames)
        side = self.side if side is Ellipsis else side
        nosub = self.nosub if nosub is None else nosub
        key = (frames, side, nosub)
        c = self.root.kids.get(key)
        if c is None:
            c = self.root.kids[key] = Ctx(self.world, self.B, frames, side, self.root, nosub)
        return c

    def push(self, frame):
        return self.child(self.frames + (frame,))

    def drop(self, lvl):
        return self.child(self.frames[:lvl] + self.frames[lvl + 1 :])

    # -- geometry helpers
    def sidename(self):
        return self.side or "+"

    def geo(self, name, sidename=None):
        s = self.world.sides[sidename or self.sidename()]
        return s.geo(self.B)(name)

    def posX(self, sidename):
        """Reference position on a side as a jet (2,)*d + (tdim,)."""
        B, d = self.B, self.d
        s = self.world.sides[sidename]
        if getattr(self.world, "curved", False):
            return self._posX_curved(s)
        out = B.zeros((2,) * d + (s.tdim,))
        out[(0,) * d] = B.asarray(s.X)
        for lvl, fr in enumerate(self.frames):
            if fr[0] == "S":
                idx = tuple(1 if k == lvl else 0 for k in range(d))
                if fr[1] == "phys":
                    K = s.geo(B)("JacobianInverse")
                    out[idx] = K[:, fr[2]]
                else:
                    e = B.zeros((s.tdim,))
                    e[fr[2]] = B.scalar(1)
                    out[idx] = e
        return out


def _posX_curved(self, s):
    """Reference position under a non-affine map: the frames are applied from the outermost inwards; a physical
    direction e_j perturbs the reference point by eps * K(X)[:, j] with K taken at the point as perturbed so far
    (exact, since eps**2 == 0 on every level)."""
    key = ("posX", self.frames)
    hit = self.root.memo.get(key)
    if hit is not None:
        return hit
    B, d = self.B, self.d
    X = B.zeros((2,) * d + (s.tdim,))
    X[(0,) * d] = B.asarray(s.X)
    for lvl, fr in enumerate(self.frames):
        if fr[0] != "S":
            continue
        if fr[1] == "phys":
            K = J.jinv(B, curved_jacobian(self.world, B, X, d), d)
            Z = K[..., :, fr[2]]
        else:
            Z = B.zeros((2,) * d + (s.tdim,))
            Z[(0,) * d + (fr[2],)] = B.scalar(1)
        X = X + insert_eps(B, np.take(Z, 0, axis=lvl), lvl)
    self.root.memo[key] = X
    return X


Ctx._posX_curved = _posX_curved


def curved_jacobian(w, B, X, d):
    """J(X) = A + Q X as a jet (2,)*d + (g, t)."""
    Jm = J.acopy(J.einsum("gtu,...u->...gt", B.asarray(w.Q), X))
    Jm[(0,) * d] = Jm[(0,) * d] + B.asarray(w.A)
    return Jm


def curved_x(w, B, X, d):
    """x(X) = x0 + A X + 1/2 Q X X as a jet (2,)*d + (g,)."""
    lin = J.einsum("gt,...t->...g", B.asarray(w.A), X)
    QX = J.einsum("gtu,...u->...gt", B.asarray(w.Q), X)  # (.., g, t)
    quad = J.mul(QX, X[..., None, :], d).sum(axis=-1)
    x = J.acopy(lin + quad * B.scalar(0.5))
    x[(0,) * d] = x[(0,) * d] + B.asarray(w.x0)
    return x


def insert_eps(B, arr_low, lvl):
    """Depth d-1 jet -> depth d jet whose eps_lvl coefficient is arr_low (primal part 0)."""
    z = B.zeros(arr_low.shape)
    return J.stack([z, arr_low], axis=lvl)


def eps_part(arr, lvl, d):
    """Coefficient of eps_lvl (a jet of depth d-1)."""
    return np.take(arr, 1, axis=lvl)


# ---------------------------------------------------------------------------- alignment


def merge_fi(*vs):
    s = set()
    for v in vs:
        s.update(v.fi)
    return tuple(sorted(s))


def expand(v, d, fi_all, pre=0, post=0):
    """Array with axes jets + (1,)*pre + shape + (1,)*post + one axis per index in fi_all."""
    arr = v.arr
    rank = v.rank
    have = {i: d + rank + k for k, i in enumerate(v.fi)}
    order = [have[i] for i in fi_all if i in have]
    arr = np.transpose(arr, list(range(d + rank)) + order)
    shp = list(arr.shape[:d]) + [1] * pre + list(arr.shape[d : d + rank]) + [1] * post
    it = iter(arr.shape[d + rank :])
    for i in fi_all:
        shp.append(next(it) if i in have else 1)
    return arr.reshape(shp)


def bcast(*arrs):
    return J.bcast(*arrs)


def fidims(v, d):
    return dict(zip(v.fi, v.arr.shape[d + v.rank :]))


# ---------------------------------------------------------------------------- evaluation


def evaluate(e, ctx):
    key = id(e)
    r = ctx.memo.get(key)
    if r is not None:
        return r
    wm = getattr(ctx.world, "mesh", None)
    if wm is not None and e._ufl_is_terminal_:
        # the world is one cell of ONE mesh: a terminal that belongs to another mesh has no value here
        dom = getattr(e, "_domain", None)
        if dom is None and type(e).__name__ in ("Coefficient", "Argument"):
            dom = ctx.world.resolve(e).ufl_function_space().ufl_domain()
        if dom is not None and dom != wm:
            other = getattr(ctx.world, "others", {}).get(dom)
            if other is None:
                raise StructureMismatch(f"{type(e).__name__} lives on another mesh than the one integrated over")
            # a world may know further meshes (each with its own cell, same reference point): the terminal is
            # evaluated there; only plain values, no derivative frames, no sides
            if ctx.d or ctx.side is not None:
                raise Unsupported("terminal of a second mesh under a derivative frame / restriction")
            oc = ctx.root.kids.get(("other", id(other)))
            if oc is None:
                oc = ctx.root.kids[("other", id(other))] = Ctx(other, ctx.B, (), None, None)
                oc.strict_struct = ctx.root.strict_struct
            return evaluate(e, oc)
    sub = getattr(ctx.world, "subst", None)
    if sub and not ctx.nosub and e._ufl_is_terminal_ and type(e).__name__ in ("Coefficient", "Argument", "Constant") and e in sub:
        r = _substituted(e, sub[e], ctx)
    else:
        h = _dispatch(type(e))
        r = h(e, ctx)
    r.arr = J.fix(r.arr)
    if not isinstance(r.arr, np.ndarray):
        r.arr = np.asarray(r.arr, dtype=complex) if ctx.B.name == "complex128" else ctx.B.asarray(r.arr)
    B = ctx.B
    # structural cross-check: declared attributes vs. what the operands imply
    d = ctx.d
    shape = tuple(r.arr.shape[d : d + r.rank])
    if ctx.root.strict_struct and getattr(e, "_ufl_is_evaluation_checked_", True):
        try:
            decl_shape = tuple(e.ufl_shape)
            decl_fi = tuple(e.ufl_free_indices)
            decl_dims = tuple(e.ufl_index_dimensions)
        except Exception:
            decl_shape = None
        if decl_shape is not None:
            dims = tuple(r.arr.shape[d + r.rank :])
            if decl_shape != shape or decl_fi != tuple(r.fi) or decl_dims != dims:
                raise StructureMismatch(
                    f"{type(e).__name__}: declared shape {decl_shape} indices {decl_fi} dims {decl_dims}; "
                    f"operands imply shape {shape} indices {tuple(r.fi)} dims {dims}"
                )
    B.track(r.arr) if r.arr.dtype != object else None
    ctx.memo[key] = r
    ctx.root.keep.append(e)
    return r


def _substituted(e, spec, ctx):
    """Value of terminal e under world.subst: one simultaneous (non-recursive) substitution.

    spec = ("expr", image) or ("lin", [(scalar, terminal), ...]); the image is evaluated in the same
    frames and on the same side (so derivatives and restrictions follow) with substitution off."""
    c2 = ctx.child(nosub=True)
    B, d = ctx.B, ctx.d
    want = tuple(e.ufl_shape)
    if spec[0] == "expr":
        v = evaluate(spec[1], c2)
        if tuple(v.arr.shape[d : d + v.rank]) != want:
            raise StructureMismatch("substituted image has another shape than the terminal")
        return V(v.arr, v.rank, v.fi)
    if spec[0] == "lin":
        tot = None
        for a, t in spec[1]:
            v = evaluate(t, c2)
            if v.fi or tuple(v.arr.shape[d : d + v.rank]) != want:
                raise StructureMismatch("linear combination of terminals with another shape")
            term = v.arr * B.scalar(a)
            tot = term if tot is None else tot + term
        if tot is None:
            tot = B.zeros((2,) * d + want)
        return V(tot, len(want), ())
    raise Unsupported("unknown substitution spec")


_HANDLERS = {}
_CACHE = {}


def handler(*names):
    def deco(f):
        for n in names:
            _HANDLERS[n] = f
        return f

    return deco


def _dispatch(cls):
    h = _CACHE.get(cls)
    if h is None:
        for c in cls.__mro__:
            h = _HANDLERS.get(c.__name__)
            if h is not None:
                break
        if h is None:
            raise Unsupported("node type " + cls.__name__)
        _CACHE[cls] = h
    return h


def const(ctx, a, rank=None):
    a = np.asarray(a)
    arr = J.jconst(ctx.B, a, ctx.d)
    return V(arr, a.ndim if rank is None else rank, ())


# -- terminals ------------------------------------------------------------------------


@handler("Zero")
def _zero(e, ctx):
    dims = tuple(e.ufl_shape) + tuple(e.ufl_index_dimensions)
    return V(ctx.B.zeros((2,) * ctx.d + dims), len(e.ufl_shape), e.ufl_free_indices)


@handler("ScalarValue")
def _scalar(e, ctx):
    try:
        v = complex(e._value)
    except OverflowError:
        raise IllConditioned("integer literal too large for floating point")
    return const(ctx, v)


@handler("Identity")
def _identity(e, ctx):
    return const(ctx, np.eye(e.ufl_shape[0]))


@handler("PermutationSymbol")
def _perm(e, ctx):
    n = e.ufl_shape[0]
    a = np.zeros((n,) * n)
    import itertools

    for p in itertools.permutations(range(n)):
        sign = 1
        q = list(p)
        for i in range(n):
            while q[i] != i:
                j = q[i]
                q[i], q[j] = q[j], q[i]
                sign = -sign
        a[p] = sign
    return const(ctx, a)


@handler("Constant")
def _constant(e, ctx):
    return const(ctx, ctx.world.constant(e))


def _two_sided(ctx, fn, what):
    """Evaluate a terminal; in a two-sided world without restriction both sides must agree."""
    w = ctx.world
    if ctx.side is not None or not w.two_sided:
        if ctx.side == "-" and "-" not in w.sides:
            raise Unsupported("'-' restriction in a one-sided world")
        return fn(ctx.sidename())
    a = fn("+")
    b = fn("-")
    B = ctx.B
    fa = B.to_complex(a)
    fb = B.to_complex(b)
    if fa.shape != fb.shape or np.max(np.abs(fa - fb), initial=0.0) > 1e-9 * max(1.0, np.max(np.abs(fa), initial=0.0)):
        raise Ambiguous(what)
    return a


def _ref_value(f, ctx, sidename):
    """Reference value jet (2,)*d + (reference_value_size,) of form argument f."""
    w = ctx.world
    B, d = ctx.B, ctx.d
    X = ctx.posX(sidename)
    e = w.resolve(f).ufl_element()
    leaves = element_leaves(e)
    if sidename == "-" and w.two_sided and any(l[3] for l in leaves):
        # continuous components: the minus side sees the plus-side polynomial (as a function
        # of the physical point) plus a term vanishing on the facet, so values agree on the
        # facet while normal derivatives differ.
        sm = w.sides["-"]
        sp = w.sides["+"]
        gm, gp = sm.geo(B), sp.geo(B)
        Jm = gm("Jacobian")
        x = J.einsum("gt,...t->...g", Jm, X)
        x0m = gm("CellOrigin")
        xprim = x[(0,) * d] + x0m
        x = J.acopy(x)
        x[(0,) * d] = xprim
        shift = J.acopy(x)
        shift[(0,) * d] = shift[(0,) * d] - gp("CellOrigin")
        Xp = J.einsum("tg,...g->...t", gp("JacobianInverse"), shift)
        base = w.field(f, "+").eval(B, Xp, d)
        n = gp("FacetNormal")
        rel = J.acopy(x)
        rel[(0,) * d] = rel[(0,) * d] - B.asarray(w.x)
        s = J.einsum("g,...g->...", n, rel)
        q = w.jump_field(f).eval(B, Xp, d)
        cont = base + J.mul(s[..., None], q, d)
        own = w.field(f, "-").eval(B, X, d)
        mask = []
        for kind, rshape, deg, c in leaves:
            mask.extend([c] * int(np.prod(rshape, dtype=int)))
        mask = np.array(mask, dtype=bool)
        return J.where(mask, cont, own)
    return w.field(f, sidename).eval(B, X, d)


def _pushforward(f, F, ctx, sidename):
    """Physical value from the reference value by the element's declared push-forward."""
    w = ctx.world
    B, d = ctx.B, ctx.d
    e = w.resolve(f).ufl_element()
    g = w.sides[sidename].geo(B)
    gdim = w.gdim

    def leaf(kind, rshape, Fl):
        # Fl: (2,)*d + rshape
        if kind == "identity":
            return Fl
        if getattr(w, "curved", False):
            return _curved_leaf(kind, Fl, ctx, sidename)
        Jm, K, detJ = g("Jacobian"), g("JacobianInverse"), g("JacobianDeterminant")
        if kind == "contravariant":
            return J.einsum("gt,...t->...g", Jm, Fl) / detJ
        if kind == "covariant":
            return J.einsum("tg,...t->...g", K, Fl)
        if kind == "l2":
            return Fl / detJ
        if kind == "dcontra":
            return J.einsum("gm,...mn,hn->...gh", Jm, Fl, Jm) / (detJ * detJ)
        if kind == "dcov":
            return J.einsum("mg,...mn,nh->...gh", K, Fl, K)
        if kind == "covcontra":
            return J.einsum("mg,...mn,hn->...gh", K, Fl, Jm) / detJ
        raise Unsupported("push-forward " + kind)

    def rec(el, Fflat):
        kind = pullback_kind(el)
        if kind == "mixed":
            outs = []
            off = 0
            for s in el.sub_elements:
                n = s.reference_value_size
                outs.append(rec(s, Fflat[..., off : off + n]))
                off += n
            return np.concatenate([o.reshape(o.shape[:d] + (-1,)) for o in outs], axis=d)
        if kind == "symmetric":
            symmetry = el.pullback._symmetry if not hasattr(el, "_symmetry") or el._symmetry is None else el._symmetry
            offs = [0]
            for s in el.sub_elements:
                offs.append(offs[-1] + s.reference_value_size)
            block = tuple(i + 1 for i in max(symmetry.keys()))
            comps = []
            for comp in np.ndindex(block):
                i = symmetry[comp]
                s = el.sub_elements[i]
                comps.append(rec(s, Fflat[..., offs[i] : offs[i + 1]]))
            sub_shape = comps[0].shape[d:]
            arr = J.stack(comps, axis=d)
            return arr.reshape(arr.shape[:d] + block + sub_shape)
        rshape = tuple(el.reference_value_shape)
        Fl = Fflat.reshape(Fflat.shape[:d] + rshape)
        return leaf(kind, rshape, Fl)

    out = rec(e, F)
    return out


def _curved_leaf(kind, Fl, ctx, sidename):
    """The push-forwards on a non-affine cell: J, K and detJ are jets (they vary with the point), so every product
    is a jet product."""
    B, d = ctx.B, ctx.d
    Jm = curved_jacobian(ctx.world, B, ctx.posX(sidename), d)  # (.., g, t)
    tr = lambda m: np.swapaxes(m, -1, -2)  # noqa: E731
    mm = lambda a, b: J.jmatmul(a, b, d)  # noqa: E731
    vec = lambda m, v: J.jmatmul(m, v[..., None], d)[..., 0]  # noqa: E731
    if kind in ("contravariant", "l2", "dcontra", "covcontra"):
        det = J.jdet(B, Jm, d)
        rdet = J.jrecip(B, det if hasattr(det, "ndim") else J.fix(np.asarray(det)), d)
    if kind in ("covariant", "dcov", "covcontra"):
        K = J.jinv(B, Jm, d)  # (.., t, g)
    if kind == "contravariant":
        return J.mul(vec(Jm, Fl), rdet[..., None], d)
    if kind == "covariant":
        return vec(tr(K), Fl)
    if kind == "l2":
        return J.mul(Fl, rdet.reshape(rdet.shape + (1,) * (Fl.ndim - d)), d)
    if kind == "dcontra":
        out = mm(mm(Jm, Fl), tr(Jm))
        return J.mul(out, J.mul(rdet, rdet, d)[..., None, None], d)
    if kind == "dcov":
        return mm(mm(tr(K), Fl), K)
    if kind == "covcontra":
        return J.mul(mm(mm(tr(K), Fl), tr(Jm)), rdet[..., None, None], d)
    raise Unsupported("push-forward " + kind)


def _form_argument_value(f, ctx, sidename):
    F = _ref_value(f, ctx, sidename)
    return _pushforward(f, F, ctx, sidename)


@handler("Coefficient", "Argument")
def _form_argument(e, ctx):
    B, d = ctx.B, ctx.d
    arr = _two_sided(ctx, lambda s: _form_argument_value(e, ctx, s), "form argument")
    shape = tuple(arr.shape[d:])
    want = tuple(e.ufl_shape)
    if shape != want:
        if int(np.prod(shape, dtype=int)) == int(np.prod(want, dtype=int)):
            arr = arr.reshape(arr.shape[:d] + want)
        else:
            raise StructureMismatch(f"form argument value shape {want} vs push-forward shape {shape}")
    # perturbations from Gateaux / variable frames
    for lvl, fr in enumerate(ctx.frames):
        if fr[0] == "G":
            pert = _gateaux_perturbation(e, ctx, lvl, fr)
            if pert is not None:
                arr = arr + insert_eps(B, pert, lvl)
        elif fr[0] == "V" and fr[1] == "coef" and ctx.root.gdata[fr[2]] == e:
            unit = B.zeros((2,) * (d - 1) + want)
            unit[(0,) * (d - 1) + tuple(fr[3])] = B.scalar(1)
            arr = arr + insert_eps(B, unit, lvl)
    return V(arr, len(want), ())


def _gateaux_perturbation(f, ctx, lvl, fr):
    """eps-coefficient of coefficient f under the Gateaux frame fr (a depth d-1 jet) or None.

    Frame data: (ws, vs, cd); an entry of ws is a Coefficient (whole) or a tuple
    ("comp", coefficient, component) for a user-level pairing of one fixed component."""
    ws, vs, cd = ctx.root.gdata[fr[1]]
    B = ctx.B
    c2 = None
    total = None
    for w_, v_ in zip(ws, vs):
        comp = None
        if isinstance(w_, tuple):
            _, w_, comp = w_
        if w_ == f:
            c2 = ctx.drop(lvl)
            vv = evaluate(v_, c2)
            if vv.fi:
                raise Unsupported("free indices in a Gateaux direction")
            arr = vv.arr
            if comp is not None:
                if vv.rank:
                    raise StructureMismatch("component direction must be scalar")
                full = B.zeros(arr.shape[: c2.d] + tuple(f.ufl_shape))
                full[(slice(None),) * c2.d + tuple(comp)] = arr
                arr = full
            elif tuple(arr.shape[c2.d :]) != tuple(f.ufl_shape):
                raise StructureMismatch("direction shape differs from coefficient shape")
            total = arr if total is None else total + arr
    if total is None and cd:
        for k, df in cd:
            if k == f:
                if len(vs) != 1 or isinstance(ws[0], tuple):
                    raise Unsupported("coefficient derivatives with several directions")
                c2 = ctx.drop(lvl)
                dv = evaluate(df, c2)
                vv = evaluate(vs[0], c2)
                if dv.fi or vv.fi:
                    raise Unsupported("free indices in coefficient derivatives")
                r = vv.rank
                a = dv.arr
                b = vv.arr.reshape(vv.arr.shape[: c2.d] + (1,) * (dv.rank - r) + vv.arr.shape[c2.d :])
                prod = J.mul(a, b, c2.d)
                if r:
                    prod = prod.sum(axis=tuple(range(prod.ndim - r, prod.ndim)))
                total = prod
    return total


@handler("ReferenceValue")
def _reference_value(e, ctx):
    (f,) = e.ufl_operands
    for fr in ctx.frames:
        if fr[0] in ("G", "V"):
            raise Unsupported("ReferenceValue under a functional derivative")
    d = ctx.d
    arr = _two_sided(ctx, lambda s: _ref_value(f, ctx, s), "reference value")
    rshape = tuple(ctx.world.resolve(f).ufl_element().reference_value_shape)
    arr = arr.reshape(arr.shape[:d] + rshape)
    return V(arr, len(rshape), ())


@handler("SpatialCoordinate")
def _x(e, ctx):
    d, B = ctx.d, ctx.B

    def f(s):
        if getattr(ctx.world, "curved", False):
            return curved_x(ctx.world, B, ctx.posX(s), d)
        g = ctx.world.sides[s].geo(B)
        X = ctx.posX(s)
        x = J.einsum("gt,...t->...g", g("Jacobian"), X)
        x = J.acopy(x)
        x[(0,) * d] = x[(0,) * d] + g("CellOrigin")
        return x

    return V(_two_sided(ctx, f, "x"), 1, ())


@handler("CellCoordinate")
def _X(e, ctx):
    return V(_two_sided(ctx, lambda s: ctx.posX(s), "X"), 1, ())


@handler("FacetCoordinate")
def _Xf(e, ctx):
    w = ctx.world
    if not hasattr(w, "Xf"):
        raise Unsupported("facet coordinate without facet")
    if w.two_sided and not w.conforming:
        raise Unsupported("facet coordinate in a non-conforming two-cell world")
    return const(ctx, w.Xf)


@handler("QuadratureWeight")
def _weight(e, ctx):
    return const(ctx, ctx.world.weight)


@handler("GeometricQuantity")
def _geometric(e, ctx):
    name = type(e).__name__
    B = ctx.B

    def f(s):
        if getattr(ctx.world, "curved", False):
            return _curved_geometric(name, ctx, s)
        a = ctx.world.sides[s].geo(B)(name)
        return J.jconst(B, B.to_complex(a), ctx.d) if False else _jc(B, a, ctx.d)

    arr = _two_sided(ctx, f, name)
    return V(arr, arr.ndim - ctx.d, ())


def _curved_geometric(name, ctx, s):
    """Point-dependent geometry of a non-affine cell (vf.world.CurvedWorld)."""
    B, d = ctx.B, ctx.d
    if name not in ("Jacobian", "JacobianInverse", "JacobianDeterminant"):
        raise Unsupported("geometric quantity " + name + " on a non-affine cell")
    Jm = curved_jacobian(ctx.world, B, ctx.posX(s), d)
    if name == "Jacobian":
        return Jm
    if name == "JacobianInverse":
        return J.jinv(B, Jm, d)
    out = J.jdet(B, Jm, d)
    return out if hasattr(out, "ndim") else J.fix(np.asarray(out))


def _jc(B, a, d):
    a = np.asarray(a)
    out = B.zeros((2,) * d + a.shape)
    out[(0,) * d] = a
    return out


# -- scalar algebra -----------------------------------------------------------------------


@handler("Sum")
def _sum(e, ctx):
    a, b = (evaluate(o, ctx) for o in e.ufl_operands)
    d = ctx.d
    if a.rank != b.rank:
        raise StructureMismatch("Sum of different ranks")
    fi = merge_fi(a, b)
    x, y = expand(a, d, fi), expand(b, d, fi)
    if x.shape[d : d + a.rank] != y.shape[d : d + b.rank]:
        raise StructureMismatch("Sum of different shapes")
    x, y = bcast(x, y)
    return V(x + y, a.rank, fi)


@handler("Product")
def _product(e, ctx):
    a, b = (evaluate(o, ctx) for o in e.ufl_operands)
    d = ctx.d
    fi = merge_fi(a, b)
    if a.rank and b.rank:
        raise StructureMismatch("Product of two tensors")
    rank = max(a.rank, b.rank)
    x = expand(a, d, fi, pre=rank - a.rank)
    y = expand(b, d, fi, pre=rank - b.rank)
    return V(J.mul(x, y, d), rank, fi)


@handler("Division")
def _division(e, ctx):
    a, b = (evaluate(o, ctx) for o in e.ufl_operands)
    d = ctx.d
    if b.rank:
        raise StructureMismatch("Division by a tensor")
    fi = merge_fi(a, b)
    x = expand(a, d, fi)
    y = expand(b, d, fi, pre=a.rank)
    return V(J.mul(x, J.jrecip(ctx.B, y, d), d), a.rank, fi)


@handler("Power")
def _power(e, ctx):
    a, b = (evaluate(o, ctx) for o in e.ufl_operands)
    d, B = ctx.d, ctx.B
    if a.rank or b.rank:
        raise StructureMismatch("Power of tensors")
    fi = merge_fi(a, b)
    x, y = expand(a, d, fi), expand(b, d, fi)
    if J.is_const_jet(y, d):
        y0 = B.to_complex(J.primal(y, d))
        vals = set(np.ravel(y0).tolist())
        if len(vals) == 1:
            p = complex(next(iter(vals)))
            x, _ = bcast(x, y)
            return V(J.jpowc(B, x, p, d), 0, fi)
    x, y = bcast(x, y)
    return V(J.jpow(B, x, y, d), 0, fi)


@handler("Abs")
def _abs(e, ctx):
    a = evaluate(e.ufl_operands[0], ctx)
    return V(J.jabs(ctx.B, a.arr, ctx.d), a.rank, a.fi)


@handler("Conj")
def _conj(e, ctx):
    a = evaluate(e.ufl_operands[0], ctx)
    return V(ctx.B.conj(a.arr), a.rank, a.fi)


@handler("Real")
def _real(e, ctx):
    a = evaluate(e.ufl_operands[0], ctx)
    return V(ctx.B.real_part(a.arr), a.rank, a.fi)


@handler("Imag")
def _imag(e, ctx):
    a = evaluate(e.ufl_operands[0], ctx)
    return V(ctx.B.imag_part(a.arr), a.rank, a.fi)


_MATH = {
    "sqrt": J.jsqrt,
    "exp": J.jexp,
    "ln": J.jln,
    "cos": J.jcos,
    "sin": J.jsin,
    "tan": J.jtan,
    "cosh": J.jcosh,
    "sinh": J.jsinh,
    "tanh": J.jtanh,
    "acos": J.jacos,
    "asin": J.jasin,
    "atan": J.jatan,
    "erf": J.jerf,
}


@handler("MathFunction")
def _math(e, ctx):
    a = evaluate(e.ufl_operands[0], ctx)
    fn = _MATH.get(e._name)
    if fn is None:
        raise Unsupported("math function " + e._name)
    return V(fn(ctx.B, a.arr, ctx.d), a.rank, a.fi)


@handler("BesselFunction")
def _bessel(e, ctx):
    nu_e, arg = e.ufl_operands
    nu = 0 if type(nu_e).__name__ == "Zero" else nu_e._value
    if float(nu) != int(nu) or int(nu) < 0:
        raise Unsupported("non-integer Bessel order")
    kind = {"cyl_bessel_j": "J", "cyl_bessel_y": "Y", "cyl_bessel_i": "I", "cyl_bessel_k": "K"}[e._name]
    a = evaluate(arg, ctx)
    return V(J.jbessel(ctx.B, kind, int(nu), a.arr, ctx.d), a.rank, a.fi)


@handler("Atan2")
def _atan2(e, ctx):
    a, b = (evaluate(o, ctx) for o in e.ufl_operands)
    d = ctx.d
    fi = merge_fi(a, b)
    x, y = bcast(expand(a, d, fi), expand(b, d, fi))
    return V(J.jatan2(ctx.B, x, y, d), 0, fi)


# -- conditions ---------------------------------------------------------------------------


class BoolV:
    __slots__ = ("mask", "fi")

    def __init__(self, mask, fi):
        self.mask = mask
        self.fi = tuple(fi)


def _cond(e, ctx):
    key = ("cond", id(e))
    r = ctx.memo.get(key)
    if r is None:
        r = ctx.memo[key] = _cond_eval(e, ctx)
    return r


_CMP = {"EQ": "eq", "NE": "ne", "LT": "lt", "LE": "le", "GT": "gt", "GE": "ge"}


def _cond_eval(e, ctx):
    name = type(e).__name__
    d = ctx.d
    if name in _CMP:
        a, b = (evaluate(o, ctx) for o in e.ufl_operands)
        if a.rank or b.rank:
            raise StructureMismatch("comparison of tensors")
        fi = merge_fi(a, b)
        x, y = bcast(expand(a, d, fi), expand(b, d, fi))
        if e.ufl_operands[0] is e.ufl_operands[1] and not name.startswith(("EQ", "NE")):
            # the very same expression on both sides: an exact tie by construction, not a numerical near-tie
            px = ctx.B.to_complex(J.primal(x, d))
            if np.all(np.isfinite(px)) and not np.any(np.abs(px.imag) > 1e-12):
                return BoolV(np.full(px.shape, _CMP[name] in ("le", "ge"), dtype=bool), fi)
        return BoolV(ctx.B.compare(_CMP[name], J.primal(x, d), J.primal(y, d)), fi)
    if name in ("AndCondition", "OrCondition"):
        a, b = (_cond(o, ctx) for o in e.ufl_operands)
        fi = tuple(sorted(set(a.fi) | set(b.fi)))
        x = _expand_mask(a, fi)
        y = _expand_mask(b, fi)
        x, y = np.broadcast_arrays(x, y)
        return BoolV((x & y) if name == "AndCondition" else (x | y), fi)
    if name == "NotCondition":
        a = _cond(e.ufl_operands[0], ctx)
        return BoolV(~a.mask, a.fi)
    raise Unsupported("condition " + name)


def _expand_mask(b, fi_all):
    have = {i: k for k, i in enumerate(b.fi)}
    order = [have[i] for i in fi_all if i in have]
    m = np.transpose(b.mask, order) if b.mask.ndim else b.mask
    shp = []
    it = iter(m.shape)
    for i in fi_all:
        shp.append(next(it) if i in have else 1)
    return m.reshape(shp)


@handler("Condition")
def _condition_as_value(e, ctx):
    raise Unsupported("condition used as a value")


@handler("Conditional")
def _conditional(e, ctx):
    c, t, f = e.ufl_operands
    cv = _cond(c, ctx)
    a, b = evaluate(t, ctx), evaluate(f, ctx)
    d = ctx.d
    if a.rank != b.rank:
        raise StructureMismatch("conditional branches of different rank")
    fi = tuple(sorted(set(a.fi) | set(b.fi) | set(cv.fi)))
    x, y = expand(a, d, fi), expand(b, d, fi)
    m = _expand_mask(cv, fi)
    m = m.reshape((1,) * a.rank + m.shape)
    x, y = bcast(x, y)
    tail = np.broadcast_shapes(x.shape[d:], m.shape)
    x = J.broadcast_to(x, x.shape[:d] + tail)
    y = J.broadcast_to(y, y.shape[:d] + tail)
    return V(J.where(np.broadcast_to(m, tail), x, y), a.rank, fi)


def _minmax(e, ctx, op):
    a, b = (evaluate(o, ctx) for o in e.ufl_operands)
    d = ctx.d
    if a.rank or b.rank:
        raise StructureMismatch("min/max of tensors")
    fi = merge_fi(a, b)
    x, y = bcast(expand(a, d, fi), expand(b, d, fi))
    m = ctx.B.compare(op, J.primal(x, d), J.primal(y, d))
    return V(J.where(m, x, y), 0, fi)


@handler("MinValue")
def _minv(e, ctx):
    return _minmax(e, ctx, "lt")


@handler("MaxValue")
def _maxv(e, ctx):
    return _minmax(e, ctx, "gt")


# -- indexing -----------------------------------------------------------------------------


def _is_fixed(ind):
    return type(ind).__name__ == "FixedIndex"


@handler("Indexed")
def _indexed(e, ctx):
    A, mi = e.ufl_operands
    a = evaluate(A, ctx)
    d = ctx.d
    if len(mi) != a.rank:
        raise StructureMismatch("Indexed: multiindex length != operand rank")
    arr = a.arr
    idx = [slice(None)] * d
    newlabels = []
    for k, ind in enumerate(mi):
        if _is_fixed(ind):
            iv = int(ind)
            if not (0 <= iv < arr.shape[d + k]):
                raise StructureMismatch("Indexed: fixed index out of range")
            idx.append(iv)
        else:
            idx.append(slice(None))
            newlabels.append(ind.count())
    arr = arr[tuple(idx)]
    labels = newlabels + list(a.fi)
    while len(set(labels)) != len(labels):
        for lab in labels:
            pos = [p for p, q in enumerate(labels) if q == lab]
            if len(pos) > 1:
                if arr.shape[d + pos[0]] != arr.shape[d + pos[1]]:
                    raise StructureMismatch("Indexed: repeated index over axes of different length")
                arr = np.diagonal(arr, axis1=d + pos[0], axis2=d + pos[1])
                labels = [q for p, q in enumerate(labels) if p not in pos[:2]] + [lab]
                break
    order = sorted(range(len(labels)), key=lambda p: labels[p])
    arr = np.transpose(arr, list(range(d)) + [d + p for p in order])
    return V(arr, 0, sorted(labels))


@handler("IndexSum")
def _index_sum(e, ctx):
    a = evaluate(e.ufl_operands[0], ctx)
    (j,) = e.ufl_operands[1]
    jc = j.count()
    d = ctx.d
    if jc not in a.fi:
        raise StructureMismatch("IndexSum over an index that is not free in the summand")
    p = a.fi.index(jc)
    return V(a.arr.sum(axis=d + a.rank + p), a.rank, a.fi[:p] + a.fi[p + 1 :])


@handler("ComponentTensor")
def _component_tensor(e, ctx):
    a = evaluate(e.ufl_operands[0], ctx)
    d = ctx.d
    if a.rank:
        raise StructureMismatch("ComponentTensor of a non-scalar")
    ii = [i.count() for i in e.ufl_operands[1]]
    if len(set(ii)) != len(ii) or any(i not in a.fi for i in ii):
        raise StructureMismatch("ComponentTensor indices must be distinct free indices of the operand")
    rest = [i for i in a.fi if i not in ii]
    order = [a.fi.index(i) for i in ii] + [a.fi.index(i) for i in rest]
    arr = np.transpose(a.arr, list(range(d)) + [d + p for p in order])
    return V(arr, len(ii), rest)


@handler("ListTensor")
def _list_tensor(e, ctx):
    vs = [evaluate(o, ctx) for o in e.ufl_operands]
    d = ctx.d
    fi = merge_fi(*vs)
    rank = vs[0].rank
    if any(v.rank != rank for v in vs):
        raise StructureMismatch("ListTensor rows of different rank")
    arrs = [expand(v, d, fi) for v in vs]
    shapes = {a.shape[d : d + rank] for a in arrs}
    if len(shapes) != 1:
        raise StructureMismatch("ListTensor rows of different shape")
    arrs = bcast(*arrs)
    return V(J.stack(arrs, axis=d), rank + 1, fi)


@handler("Variable")
def _variable(e, ctx):
    op, label = e.ufl_operands
    a = evaluate(op, ctx)
    arr = a.arr
    B, d = ctx.B, ctx.d
    for lvl, fr in enumerate(ctx.frames):
        if fr[0] == "V" and fr[1] == "label" and fr[2] == label.count():
            if a.fi:
                raise Unsupported("variable with free indices")
            unit = B.zeros((2,) * (d - 1) + arr.shape[d:])
            unit[(0,) * (d - 1) + tuple(fr[3])] = B.scalar(1)
            arr = arr + insert_eps(B, unit, lvl)
    return V(arr, a.rank, a.fi)


@handler("Restricted")
def _restricted(e, ctx):
    if ctx.side is not None:
        raise Unsupported("nested restriction")
    return evaluate(e.ufl_operands[0], ctx.child(side=e._side))


@handler("ExprList", "ExprMapping", "MultiIndex", "Label")
def _container(e, ctx):
    raise Unsupported("container node evaluated as a value")


@handler("CellAvg", "FacetAvg", "BaseFormOperator")
def _unsupported(e, ctx):
    raise Unsupported(type(e).__name__)


# -- tensor algebra -----------------------------------------------------------------------


def _pair(e, ctx):
    a, b = (evaluate(o, ctx) for o in e.ufl_operands)
    fi = merge_fi(a, b)
    return a, b, fi


@handler("Outer")
def _outer(e, ctx):
    a, b, fi = _pair(e, ctx)
    d = ctx.d
    x = expand(a, d, fi, post=b.rank)
    y = expand(b, d, fi, pre=a.rank)
    return V(J.mul(ctx.B.conj(x), y, d), a.rank + b.rank, fi)


@handler("Inner")
def _inner(e, ctx):
    a, b, fi = _pair(e, ctx)
    d = ctx.d
    if a.rank != b.rank:
        raise StructureMismatch("Inner of different ranks")
    x, y = expand(a, d, fi), expand(b, d, fi)
    if x.shape[d : d + a.rank] != y.shape[d : d + a.rank]:
        raise StructureMismatch("Inner of different shapes")
    r = J.mul(x, ctx.B.conj(y), d)
    if a.rank:
        r = r.sum(axis=tuple(range(d, d + a.rank)))
    return V(r, 0, fi)


@handler("Dot")
def _dot(e, ctx):
    a, b, fi = _pair(e, ctx)
    d = ctx.d
    if a.rank == 0 or b.rank == 0:
        raise StructureMismatch("Dot of a scalar")
    x = expand(a, d, fi, post=b.rank - 1)
    y = expand(b, d, fi, pre=a.rank - 1)
    if x.shape[d + a.rank - 1] != y.shape[d + a.rank - 1]:
        raise StructureMismatch("Dot: contracted dimensions differ")
    r = J.mul(x, y, d).sum(axis=d + a.rank - 1)
    return V(r, a.rank + b.rank - 2, fi)


@handler("Cross")
def _cross(e, ctx):
    a, b, fi = _pair(e, ctx)
    d = ctx.d
    x, y = expand(a, d, fi), expand(b, d, fi)
    if x.shape[d] != 3 or y.shape[d] != 3 or a.rank != 1 or b.rank != 1:
        raise StructureMismatch("Cross needs 3-vectors")

    def c(i):
        return np.take(x, i, axis=d), np.take(y, i, axis=d)

    (x0, y0), (x1, y1), (x2, y2) = c(0), c(1), c(2)
    m = lambda p, q: J.mul(p, q, d)
    comps = [m(x1, y2) - m(x2, y1), m(x2, y0) - m(x0, y2), m(x0, y1) - m(x1, y0)]
    comps = bcast(*comps)
    return V(J.stack(comps, axis=d), 1, fi)


@handler("Perp")
def _perp(e, ctx):
    a = evaluate(e.ufl_operands[0], ctx)
    d = ctx.d
    if a.rank != 1 or a.arr.shape[d] != 2:
        raise StructureMismatch("Perp needs a 2-vector")
    x0, x1 = np.take(a.arr, 0, axis=d), np.take(a.arr, 1, axis=d)
    return V(J.stack([-x1, x0], axis=d), 1, a.fi)


@handler("Transposed")
def _transposed(e, ctx):
    a = evaluate(e.ufl_operands[0], ctx)
    d = ctx.d
    if a.rank != 2:
        raise StructureMismatch("Transposed needs rank 2")
    return V(np.swapaxes(a.arr, d, d + 1), 2, a.fi)


def _square(a, d, what):
    if a.rank != 2 or a.arr.shape[d] != a.arr.shape[d + 1]:
        raise StructureMismatch(what + " needs a square matrix")


def _mat_last(a, d):
    """Move the two shape axes behind the free-index axes (matrix routines act on the last two)."""
    return np.moveaxis(a.arr, (d, d + 1), (-2, -1))


def _mat_front(arr, d):
    return np.moveaxis(arr, (-2, -1), (d, d + 1))


@handler("Trace")
def _trace(e, ctx):
    a = evaluate(e.ufl_operands[0], ctx)
    d = ctx.d
    _square(a, d, "Trace")
    return V(J.trace(a.arr, d, d + 1), 0, a.fi)


@handler("Determinant")
def _determinant(e, ctx):
    a = evaluate(e.ufl_operands[0], ctx)
    d = ctx.d
    if a.rank == 0:
        return a
    _square(a, d, "Determinant")
    return V(J.jdet(ctx.B, _mat_last(a, d), d), 0, a.fi)


@handler("Inverse")
def _inverse(e, ctx):
    a = evaluate(e.ufl_operands[0], ctx)
    d = ctx.d
    if a.rank == 0:
        return V(J.jrecip(ctx.B, a.arr, d), 0, a.fi)
    _square(a, d, "Inverse")
    m = _mat_last(a, d)
    _flag_singular(ctx, m, d)
    return V(_mat_front(J.jinv(ctx.B, m, d), d), 2, a.fi)


def _flag_singular(ctx, m, d):
    B = ctx.B
    m0 = B.to_complex(J.primal(m, d))
    with np.errstate(all="ignore"):
        try:
            c = np.linalg.cond(m0)
        except Exception:
            c = np.inf
    if np.any(~np.isfinite(c)) or np.any(c > 1e6):
        B.flag("inverse:ill-conditioned")


@handler("Cofactor")
def _cofactor(e, ctx):
    """Cofactor matrix by its definition through signed minors (valid for singular matrices)."""
    a = evaluate(e.ufl_operands[0], ctx)
    d = ctx.d
    _square(a, d, "Cofactor")
    m = _mat_last(a, d)
    n = m.shape[-1]
    if n == 1:
        # UFL has no lowering for the cofactor of a 1x1 matrix ("cofactor_expr not implemented for dimension 1") and its
        # constructor refuses a zero 1x1 operand: nothing the code promises, so nothing to judge
        raise Unsupported("cofactor of a 1x1 matrix")
    rows = []
    for i in range(n):
        row = []
        for j in range(n):
            ri = [r for r in range(n) if r != i]
            cj = [c for c in range(n) if c != j]
            minor = m[..., ri, :][..., :, cj]
            row.append(J.jdet(ctx.B, minor, d) * ((-1) ** (i + j)))
        rows.append(J.stack(bcast(*row), axis=-1))
    cof = J.stack(rows, axis=-2)
    return V(_mat_front(cof, d), 2, a.fi)


@handler("Deviatoric")
def _dev(e, ctx):
    a = evaluate(e.ufl_operands[0], ctx)
    d = ctx.d
    _square(a, d, "Deviatoric")
    n = a.arr.shape[d]
    tr = J.trace(a.arr, d, d + 1)
    eye = ctx.B.asarray(np.eye(n)).reshape((n, n) + (1,) * len(a.fi))
    tr = tr.reshape(tr.shape[:d] + (1, 1) + tr.shape[d:])
    return V(a.arr - tr * eye / ctx.B.scalar(n), 2, a.fi)


@handler("Skew")
def _skew(e, ctx):
    a = evaluate(e.ufl_operands[0], ctx)
    d = ctx.d
    _square(a, d, "Skew")
    return V((a.arr - np.swapaxes(a.arr, d, d + 1)) / ctx.B.scalar(2), 2, a.fi)


@handler("Sym")
def _sym(e, ctx):
    a = evaluate(e.ufl_operands[0], ctx)
    d = ctx.d
    _square(a, d, "Sym")
    return V((a.arr + np.swapaxes(a.arr, d, d + 1)) / ctx.B.scalar(2), 2, a.fi)


# -- derivatives --------------------------------------------------------------------------


def _grad_array(f, ctx, kind):
    """Stack of directional derivatives along a new last shape axis."""
    w = ctx.world
    d = ctx.d
    n = w.gdim if kind == "phys" else w.tdim
    v0 = evaluate(f, ctx)
    comps = []
    for j in range(n):
        c2 = ctx.push(("S", kind, j))
        v = evaluate(f, c2)
        if v.fi != v0.fi or v.rank != v0.rank:
            raise StructureMismatch("derivative operand changed structure")
        comps.append(eps_part(v.arr, d, d + 1))
    arr = J.stack(bcast(*comps), axis=d + v0.rank)
    return V(arr, v0.rank + 1, v0.fi)


@handler("Grad")
def _grad(e, ctx):
    return _grad_array(e.ufl_operands[0], ctx, "phys")


@handler("ReferenceGrad")
def _rgrad(e, ctx):
    return _grad_array(e.ufl_operands[0], ctx, "ref")


def _div_of(g, d):
    if g.rank < 2:
        raise StructureMismatch("divergence of a scalar")
    a = g.arr
    ax1, ax2 = d + g.rank - 2, d + g.rank - 1
    if a.shape[ax1] != a.shape[ax2]:
        raise StructureMismatch("divergence: last axis length != dimension")
    return V(J.trace(a, ax1, ax2), g.rank - 2, g.fi)


@handler("Div")
def _div(e, ctx):
    return _div_of(_grad_array(e.ufl_operands[0], ctx, "phys"), ctx.d)


@handler("ReferenceDiv")
def _rdiv(e, ctx):
    return _div_of(_grad_array(e.ufl_operands[0], ctx, "ref"), ctx.d)


@handler("NablaGrad")
def _nabla_grad(e, ctx):
    g = _grad_array(e.ufl_operands[0], ctx, "phys")
    d = ctx.d
    return V(np.moveaxis(g.arr, d + g.rank - 1, d), g.rank, g.fi)


@handler("NablaDiv")
def _nabla_div(e, ctx):
    g = _grad_array(e.ufl_operands[0], ctx, "phys")
    d = ctx.d
    if g.rank < 2:
        raise StructureMismatch("nabla_div of a scalar")
    a = np.moveaxis(g.arr, d + g.rank - 1, d + 1)  # derivative axis next to the first shape axis
    if a.shape[d] != a.shape[d + 1]:
        raise StructureMismatch("nabla_div: first axis length != dimension")
    return V(J.trace(a, d, d + 1), g.rank - 2, g.fi)


def _curl_from_grad(g, d, B):
    a = g.arr
    rank_f = g.rank - 1
    if rank_f == 0:
        if a.shape[d] != 2:
            raise StructureMismatch("curl of a scalar needs 2D")
        return V(J.stack([np.take(a, 1, axis=d), -np.take(a, 0, axis=d)], axis=d), 1, g.fi)
    if rank_f != 1:
        raise StructureMismatch("curl of a tensor")
    n = a.shape[d]
    if a.shape[d + 1] != n:
        raise StructureMismatch("curl: vector length != dimension")

    def G(i, j):  # d f_i / d x_j
        return np.take(np.take(a, j, axis=d + 1), i, axis=d)

    if n == 2:
        return V(G(1, 0) - G(0, 1), 0, g.fi)
    if n == 3:
        comps = [G(2, 1) - G(1, 2), G(0, 2) - G(2, 0), G(1, 0) - G(0, 1)]
        return V(J.stack(comps, axis=d), 1, g.fi)
    raise StructureMismatch("curl needs dimension 2 or 3")


@handler("Curl")
def _curl(e, ctx):
    return _curl_from_grad(_grad_array(e.ufl_operands[0], ctx, "phys"), ctx.d, ctx.B)


@handler("ReferenceCurl")
def _rcurl(e, ctx):
    return _curl_from_grad(_grad_array(e.ufl_operands[0], ctx, "ref"), ctx.d, ctx.B)


@handler("VariableDerivative")
def _variable_derivative(e, ctx):
    f, v = e.ufl_operands
    d, B = ctx.d, ctx.B
    vshape = tuple(v.ufl_shape)
    if type(v).__name__ == "Variable":
        target = ("label", v.ufl_operands[1].count())
    else:
        gid = ("vcoef", id(v))
        ctx.root.gdata[gid] = v
        target = ("coef", gid)
    v0 = evaluate(f, ctx)
    comps = []
    for comp in np.ndindex(vshape):
        c2 = ctx.push(("V", target[0], target[1], tuple(comp)))
        r = evaluate(f, c2)
        comps.append(eps_part(r.arr, d, d + 1))
    if not comps:
        raise Unsupported("empty variable")
    arr = J.stack(bcast(*comps), axis=d + v0.rank)
    arr = arr.reshape(arr.shape[: d + v0.rank] + vshape + arr.shape[d + v0.rank + 1 :])
    return V(arr, v0.rank + len(vshape), v0.fi)


@handler("CoefficientDerivative")
def _coefficient_derivative(e, ctx):
    F, ws, vs, cd = e.ufl_operands
    if type(e).__name__ != "CoefficientDerivative":
        raise Unsupported(type(e).__name__)
    d = ctx.d
    cdo = cd.ufl_operands
    cdl = tuple((cdo[2 * i], cdo[2 * i + 1]) for i in range(len(cdo) // 2))
    for w_ in ws.ufl_operands:
        if type(w_).__name__ != "Coefficient":
            raise Unsupported("derivative with respect to " + type(w_).__name__)
    gid = ("G", id(e))
    ctx.root.gdata[gid] = (tuple(ws.ufl_operands), tuple(vs.ufl_operands), cdl)
    c2 = ctx.push(("G", gid))
    r = evaluate(F, c2)
    return V(eps_part(r.arr, d, d + 1), r.rank, r.fi)


# ------------------------------------------------------------------------------- top level

CB = CBackend()


class Result:
    """Value of an expression in a world: primal array + free index labels + conditioning."""

    def __init__(self, arr, rank, fi, flags, maxabs, jets=None):
        self.arr = arr
        self.rank = rank
        self.fi = fi
        self.flags = flags
        self.maxabs = maxabs
        self.jets = jets


def S(expr, world, B=None, side=None, gateaux=None, strict=True):
    """Evaluate expr in world.  `gateaux` = (ws, vs, cd) (or a list of such frames, outermost
    derivative last) installs Gateaux frames and returns the mixed eps-coefficient, i.e. the
    (iterated) directional derivative by definition."""
    B = B or CB
    B.reset()
    ctx = Ctx(world, B, (), side)
    ctx.strict_struct = strict
    with np.errstate(all="ignore"):
        if gateaux is not None:
            frames = gateaux if isinstance(gateaux, list) else [gateaux]
            c2 = ctx
            for k, fr in enumerate(frames):
                gid = ("G", "outer", k)
                ctx.gdata[gid] = fr
                c2 = c2.push(("G", gid))
            r = evaluate(expr, c2)
            arr = r.arr[(1,) * len(frames)]
        else:
            r = evaluate(expr, ctx)
            arr = r.arr
    B.check_finite(arr, "result")
    return Result(J.fix(arr), r.rank, r.fi, set(B.flags), B.maxabs)


_BY_DEFINITION = {"grad": "Grad", "div": "Div", "curl": "Curl", "rot": "Curl", "nabla_grad": "NablaGrad", "nabla_div": "NablaDiv"}


class _Application:
    """An operator applied to operand expressions that was never built as a UFL node (the constructor may fold it away)."""

    def __init__(self, operands):
        self.ufl_operands = tuple(operands)


def S_apply(opname, operands, world, B=None, side=None):
    """Value of `opname(*operands)` BY DEFINITION: the operand expressions are evaluated as they are, the operator itself
    is applied by the interpreter (derivative operators: jets of the operand), so nothing the UFL constructor does when the
    node is built (folding grad(x) to the identity, ...) enters the expected value."""
    B = B or CB
    B.reset()
    ctx = Ctx(world, B, (), side)
    h = _HANDLERS[_BY_DEFINITION[opname]]
    with np.errstate(all="ignore"):
        r = h(_Application(operands), ctx)
    arr = J.fix(r.arr)
    B.check_finite(arr, "result")
    return Result(arr, r.rank, r.fi, set(B.flags), B.maxabs)
