"""Multi-process histories for C12 (signature independent of counters / hash seed / process).

Three parts, all used by vf/props/C12.py:

* `gen_recipe(rng)` - pure python (no ufl): draws a *recipe*, a JSON-able straight-line program of
  public-API calls (declarations of meshes, spaces, coefficients, constants, indices, geometric
  quantities, arguments; expression building; integrals; optional derivative).  The recipe is data,
  so "the same form built in the same way" is true by construction in every process.
* `build(recipe, conf)` - interpreter of a recipe inside the current process, with the process
  history requested by `conf`: counters pre-set, unrelated objects created in between.
* `child_main()` - entry point of a child process (one interpreter start = one history): reads
  {"recipes": [...], "confs": [...], "order": [...]} from stdin, builds every recipe under its
  configuration, observes the signatures through the real UFL functions and prints one JSON line.
"""

import hashlib
import itertools
import json
import random
import signal
import sys

SCALAR_GQ = ["CellVolume", "Circumradius", "CellDiameter", "MinCellEdgeLength", "MaxCellEdgeLength", "JacobianDeterminant"]
FACET_SCALAR_GQ = ["FacetArea", "MinFacetEdgeLength", "MaxFacetEdgeLength"]
COUNTED = ["Coefficient", "Constant", "Index", "Label", "Mesh"]


# ====================================================================== recipe generator (no ufl)


class _P:
    """Program under construction."""

    def __init__(self, rng):
        self.rng = rng
        self.prog = []
        self.nown = {k: 0 for k in COUNTED}

    def emit(self, op, a=(), **p):
        self.prog.append({"o": op, "a": list(a), "p": p})
        return len(self.prog) - 1


def _assoc(P, ids, op):
    """Combine a list of value ids with a binary op in a random association / order of insertion."""
    rng = P.rng
    ids = list(ids)
    mode = rng.choice(["left", "right", "balanced", "random"])
    if mode == "left":
        acc = ids[0]
        for x in ids[1:]:
            acc = P.emit(op, [acc, x])
        return acc
    if mode == "right":
        acc = ids[-1]
        for x in reversed(ids[:-1]):
            acc = P.emit(op, [x, acc])
        return acc
    if mode == "balanced":
        while len(ids) > 1:
            nxt = []
            for k in range(0, len(ids) - 1, 2):
                nxt.append(P.emit(op, [ids[k], ids[k + 1]]))
            if len(ids) % 2:
                nxt.append(ids[-1])
            ids = nxt
        return ids[0]
    while len(ids) > 1:
        k = rng.randrange(len(ids) - 1)
        ids[k : k + 2] = [P.emit(op, [ids[k], ids[k + 1]])]
    return ids[0]


class _Gen:
    def __init__(self, rng):
        self.rng = rng
        self.P = _P(rng)
        self.features = set()

    # ------------------------------------------------------------ declarations
    def declare(self):
        rng, P = self.rng, self.P
        self.cell, self.gdim = rng.choice([("triangle", 2)] * 5 + [("tetrahedron", 3)] * 2 + [("interval", 1)])
        r = rng.random()
        self.nmesh = 3 if r < 0.15 else (2 if r < 0.45 else 1)  # up to two meshes besides the one integrated over
        self.mesh = [None] * self.nmesh
        self.space = {}
        g = self.gdim
        scal_el = rng.sample(["P1", "P2", "DG1", "DG0", "P3"], 2)
        self.scal_el = scal_el
        tasks = []
        for m in range(self.nmesh):
            tasks += [("const", m, ())] * (rng.randint(3, 6) if m == 0 else rng.randint(1, 3))
            tasks += [("coef", m, scal_el[0])] * (rng.randint(3, 5) if m == 0 else rng.randint(1, 2))
            tasks += [("coef", m, scal_el[1])] * rng.randint(0, 2)
            tasks += [("coef", m, "P1v")] * (rng.randint(2, 3) if m == 0 else rng.randint(0, 1))
            tasks += [("const", m, (g,))] * (rng.randint(1, 3) if m == 0 else rng.randint(0, 1))
            if m == 0:
                tasks += [("coef", 0, "P1t")] * rng.randint(0, 2)
                tasks += [("const", 0, (g, g))] * rng.randint(0, 2)
                tasks += [("const", 0, (g, g, g, g))] * rng.choice([0, 0, 1])
            tasks += [("mesh", m)]
        tasks += [("index",)] * rng.randint(3, 6)
        rng.shuffle(tasks)
        self.consts = {}  # (mesh, shape) -> [ids]
        self.coefs = {}  # (mesh, elem) -> [ids]
        self.indices = []
        # some recipes use a user subclass of Constant for part of their constants, the first one created included
        # (a subclass is counted with Constant: which of the two kinds a process meets first must not matter)
        subconst = rng.random() < 0.3
        seen_const = False
        for t in tasks:
            if t[0] == "mesh":
                self._mesh(t[1])
            elif t[0] == "index":
                self.indices.append(P.emit("index"))
                P.nown["Index"] += 1
            elif t[0] == "const":
                m = self._mesh(t[1])
                sub = subconst and (not seen_const or rng.random() < 0.5)
                seen_const = True
                if sub:
                    self.features.add("subclassed-constant")
                    self.consts.setdefault((t[1], tuple(t[2])), []).append(P.emit("const", [m], shape=list(t[2]), sub=True))
                else:
                    self.consts.setdefault((t[1], tuple(t[2])), []).append(P.emit("const", [m], shape=list(t[2])))
                P.nown["Constant"] += 1
            elif t[0] == "coef":
                s = self._space(t[1], t[2])
                self.coefs.setdefault((t[1], t[2]), []).append(P.emit("coef", [s]))
                P.nown["Coefficient"] += 1
        self.arity = rng.choice([0, 0, 1, 1, 1, 2])
        self.arg_el = rng.choice([scal_el[0], scal_el[0], "P1v"])
        self.args = []
        if self.arity:
            s = self._space(0, self.arg_el)
            for n in range(self.arity):
                self.args.append(P.emit("arg", [s], number=n))
        self.geo = {}

    def _mesh(self, m):
        if self.mesh[m] is None:
            self.mesh[m] = self.P.emit("mesh", cell=self.cell, gdim=self.gdim)
            self.P.nown["Mesh"] += 1
        return self.mesh[m]

    def _space(self, m, el):
        if (m, el) not in self.space:
            self.space[(m, el)] = self.P.emit("space", [self._mesh(m)], elem=el)
        return self.space[(m, el)]

    def _geo(self, m, name):
        if (m, name) not in self.geo:
            self.geo[(m, name)] = self.P.emit("geo", [self._mesh(m)], name=name)
        return self.geo[(m, name)]

    # ------------------------------------------------------------ atoms
    def R(self, e, force=False):
        """Restrict on interior facets."""
        if self.itype == "interior_facet":
            return self.P.emit("res", [e], side=self.rng.choice("+-"))
        return e

    def any_mesh(self):
        return self.rng.randrange(self.nmesh)

    def atom(self, fam):
        """A scalar, index-free expression of the family `fam`; None if the family is empty."""
        rng, P = self.rng, self.P
        g = self.gdim
        if fam == "const":
            pool = [c for (m, sh), v in self.consts.items() if sh == () for c in v]
            return rng.choice(pool)
        if fam == "coef":
            el = rng.choice(self.scal_el) if rng.random() < 0.3 else self.scal_el[0]
            pool = [c for (m, e), v in self.coefs.items() if e == el for c in v]
            if not pool:
                return None
            return self.R(rng.choice(pool))
        if fam == "gq":
            names = list(SCALAR_GQ)
            if self.itype != "cell" and g > 1:
                names += FACET_SCALAR_GQ[: (3 if g == 3 else 1)]
            # same class on every mesh: the same name is drawn with high probability
            name = self.gq_name if rng.random() < 0.7 else rng.choice(names)
            if name not in names:
                name = rng.choice(names)
            return self.R(self._geo(self.any_mesh(), name))
        if fam == "xcomp":
            x = self._geo(self.any_mesh(), "SpatialCoordinate")
            k = rng.randrange(g) if rng.random() < 0.5 else 0
            return P.emit("idx", [self.R(x)], ix=[["f", k]])
        if fam == "ncomp":
            if self.itype == "cell":
                return None
            n = self._geo(self.any_mesh(), "FacetNormal")
            return P.emit("idx", [self.R(n)], ix=[["f", rng.randrange(g)]])
        if fam == "vcomp":
            pool = [c for (m, e), v in self.coefs.items() if e == "P1v" for c in v]
            cpool = [c for (m, sh), v in self.consts.items() if sh == (g,) for c in v]
            if cpool and (not pool or rng.random() < 0.5):
                return P.emit("idx", [rng.choice(cpool)], ix=[["f", rng.randrange(g)]])
            if not pool:
                return None
            return P.emit("idx", [self.R(rng.choice(pool))], ix=[["f", rng.randrange(g)]])
        if fam == "var":
            inner = self.atom(rng.choice(["const", "coef", "gq", "xcomp"]))
            if inner is None:
                return None
            if rng.random() < 0.3:
                other = self.atom(rng.choice(["const", "coef"]))
                if other is not None:
                    inner = P.emit(rng.choice(["add", "mul"]), [inner, other])
            v = P.emit("var", [inner])
            P.nown["Label"] += 1
            self.vars.append(v)
            return v
        if fam == "contr":
            a, b = self.vec(), self.vec()
            if a is None or b is None:
                return None
            i = rng.choice(self.indices)
            return P.emit("mul", [P.emit("idx", [a], ix=[["i", i]]), P.emit("idx", [b], ix=[["i", i]])])
        if fam == "deriv":
            pool = [c for (m, e), v in self.coefs.items() if e in ("P2", "P3", "P1", "DG1") for c in v]
            if not pool:
                return None
            f = rng.choice(pool)
            if rng.random() < 0.5:
                return self.R(P.emit("dxi", [f], ix=["f", rng.randrange(g)]))
            i = rng.choice(self.indices)
            h = rng.choice(pool)
            return P.emit("mul", [self.R(P.emit("dxi", [f], ix=["i", i])), self.R(P.emit("dxi", [h], ix=["i", i]))])
        if fam == "rep2":
            # one subscript with two different repeated indices (a double trace of a rank-4 tensor)
            c4 = [c for (m, sh), v in self.consts.items() if sh == (g, g, g, g) for c in v]
            if not c4 or len(self.indices) < 2:
                return None
            i, j = rng.sample(self.indices, 2)
            pat = rng.choice([[i, i, j, j], [i, j, i, j], [i, j, j, i], [j, j, i, i]])
            self.features.add("double-trace")
            return P.emit("idx", [rng.choice(c4)], ix=[["i", q] for q in pat])
        if fam == "tcontr":
            ts = [c for (m, e), v in self.coefs.items() if e == "P1t" for c in v]
            ts = [self.R(t) for t in ts] + [c for (m, sh), v in self.consts.items() if sh == (g, g) for c in v]
            if len(ts) < 1 or len(self.indices) < 4:
                return None
            A, B = rng.choice(ts), rng.choice(ts)
            i, j, k, l = rng.sample(self.indices, 4)
            c = self.atom("const")
            e = P.emit("mul", [P.emit("idx", [A], ix=[["i", i], ["i", j]]), c])
            ct = P.emit("as_tensor", [e], ix=[j, i])
            return P.emit("mul", [P.emit("idx", [ct], ix=[["i", k], ["i", l]]), P.emit("idx", [B], ix=[["i", k], ["i", l]])])
        if fam == "zerofi":
            a, b = self.vec(), self.vec()
            if a is None or b is None:
                return None
            i = rng.choice(self.indices)
            l, r, c = self.atom("const"), self.atom("const"), self.atom("const")
            z = P.emit("smul", [P.emit("idx", [a], ix=[["i", i]])], c=0)
            t = P.emit("mul", [c, P.emit("idx", [a], ix=[["i", i]])])
            tf = [z, t] if rng.random() < 0.5 else [t, z]
            cond = P.emit("cond", [l, r] + tf, cmp=rng.choice(["lt", "gt", "le", "ge"]))
            self.features.add("zero-with-free-index")
            return P.emit("mul", [cond, P.emit("idx", [b], ix=[["i", i]])])
        if fam == "listtensor":
            comps = [self.atom(rng.choice(["const", "coef", "gq"])) for _ in range(g)]
            b = self.vec()
            if b is None or any(c is None for c in comps):
                return None
            i = rng.choice(self.indices)
            lt = P.emit("as_vector", comps)
            return P.emit("mul", [P.emit("idx", [lt], ix=[["i", i]]), P.emit("idx", [b], ix=[["i", i]])])
        if fam == "compound":
            a, b = self.vec(), self.vec()
            if a is None or b is None:
                return None
            return P.emit(rng.choice(["dot", "inner"]), [a, b])
        raise KeyError(fam)

    def vec(self):
        """A vector of shape (gdim,) without free indices."""
        rng, P = self.rng, self.P
        g = self.gdim
        r = rng.random()
        pool = [c for (m, e), v in self.coefs.items() if e == "P1v" for c in v]
        cpool = [c for (m, sh), v in self.consts.items() if sh == (g,) for c in v]
        if r < 0.4 and pool:
            return self.R(rng.choice(pool))
        if r < 0.65 and cpool:
            return rng.choice(cpool)
        if r < 0.8:
            return self.R(self._geo(self.any_mesh(), "SpatialCoordinate"))
        if r < 0.9 and self.itype != "cell":
            return self.R(self._geo(self.any_mesh(), "FacetNormal"))
        spool = [c for (m, e), v in self.coefs.items() if e in ("P1", "P2", "P3", "DG1") for c in v]
        if spool:
            return self.R(P.emit("grad", [rng.choice(spool)]))
        if pool:
            return self.R(rng.choice(pool))
        return rng.choice(cpool) if cpool else None

    # ------------------------------------------------------------ expressions
    def comm_list(self, fam=None):
        """A commutative list (sum or product) of >= 3 atoms of the same family."""
        rng, P = self.rng, self.P
        fams = ["const"] * 6 + ["coef"] * 3 + ["gq"] * 4 + ["xcomp"] * 2 + ["var"] * 3 + ["vcomp"] * 2 + ["contr"] * 2
        fams += ["deriv", "tcontr", "zerofi", "listtensor", "compound", "ncomp", "rep2", "rep2"]
        fam = fam or rng.choice(fams)
        n = rng.randint(3, 5)
        atoms = []
        for _ in range(n):
            a = self.atom(fam)
            if a is None:
                a = self.atom("const")
            atoms.append(a)
        if fam in ("const", "coef") and rng.random() < 0.5:
            # pairs of the same family: products inside a sum (compares Product nodes operand-wise)
            k = rng.randint(2, 3)
            terms = [P.emit("mul", [self.atom(fam) or self.atom("const"), self.atom(fam) or self.atom("const")]) for _ in range(k)]
            atoms = terms + atoms[:1]
            op = "add"
        else:
            op = rng.choice(["add", "mul", "mul"])
        self.features.add(f"{op}:{fam}")
        return _assoc(P, atoms, op)

    def scalar(self, depth):
        rng, P = self.rng, self.P
        if depth <= 0:
            return self.comm_list()
        r = rng.random()
        if r < 0.30:
            return _assoc(P, [self.scalar(depth - 1) for _ in range(rng.randint(2, 3))], rng.choice(["add", "mul"]))
        if r < 0.40:
            return P.emit(rng.choice(["sin", "exp", "abs", "cos"]), [self.scalar(depth - 1)])
        if r < 0.48:
            return P.emit("pow", [self.scalar(depth - 1)], n=rng.choice([2, 3]))
        if r < 0.56:
            den = P.emit("add", [P.emit("pow", [self.comm_list("const")], n=2), P.emit("lit", v=1)])
            return P.emit("div", [self.scalar(depth - 1), den])
        if r < 0.64:
            a, b = self.comm_list(), self.comm_list()
            return P.emit("cond", [a, b, self.scalar(depth - 1), self.comm_list()], cmp=rng.choice(["lt", "gt", "le", "ge"]))
        if r < 0.72:
            # derivative with respect to one of the variables
            if not self.vars:
                self.atom("var")
            if self.vars:
                v = rng.choice(self.vars)
                e = _assoc(P, [v, self.comm_list("var"), self.scalar(depth - 1)], "mul")
                self.features.add("diff")
                return P.emit("diff", [e, v])
        if r < 0.76:
            return P.emit("sub", [self.scalar(depth - 1), self.comm_list()])
        return self.comm_list()

    def integrand(self):
        rng, P = self.rng, self.P
        s = self.scalar(rng.choice([0, 1, 1, 2]))
        if self.arity == 0:
            return s
        vs = []
        for a in self.args:
            if self.arg_el == "P1v":
                w = self.vec()
                vs.append(P.emit("dot", [w, self.R(a)]) if w is not None else P.emit("idx", [self.R(a)], ix=[["f", 0]]))
            else:
                vs.append(self.R(a))
        if self.arity == 2 and self.arg_el != "P1v" and rng.random() < 0.5:
            t = P.emit("inner", [self.R(P.emit("grad", [self.args[0]])), self.R(P.emit("grad", [self.args[1]]))])
            return P.emit("mul", [s, t])
        e = vs[0]
        for v in vs[1:]:
            e = P.emit("mul", [e, v])
        return P.emit("mul", [s, e]) if rng.random() < 0.7 else P.emit("mul", [e, s])

    def form(self):
        rng, P = self.rng, self.P
        nint = rng.choice([1, 1, 2, 2, 3])
        forms = []
        self.vars = []
        self.itypes = []
        for _ in range(nint):
            self.itype = rng.choice(["cell"] * 3 + ["exterior_facet", "interior_facet"])
            if self.gdim == 1 and self.itype != "cell":
                self.itype = "cell"
            self.itypes.append(self.itype)
            self.gq_name = rng.choice(SCALAR_GQ)
            e = self.integrand()
            m = 0 if rng.random() < 0.75 else self.any_mesh()
            sid = rng.choice([None, None, 1, 2, 10, [1, 2]])
            deg = rng.choice([None, None, 2, 4])
            forms.append(P.emit("integral", [e, self._mesh(m)], itype=self.itype, sid=sid, degree=deg))
        f = forms[0]
        for g in forms[1:]:
            f = P.emit("fadd", [f, g])
        if self.arity <= 1 and rng.random() < 0.2:
            pool = [c for (m, e), v in self.coefs.items() if m == 0 and e == self.scal_el[0] for c in v]
            if pool:
                if len(pool) >= 2 and rng.random() < 0.5:
                    # with respect to a tuple of coefficients (the direction is created by UFL on their mixed space)
                    two = rng.sample(pool, 2)
                    f = P.emit("derivative", [f] + two)
                    self.features.add("derivative-tuple")
                else:
                    f = P.emit("derivative", [f, rng.choice(pool)])
                self.features.add("derivative")
        return f

    def recipe(self):
        self.declare()
        out = self.form()
        return {
            "prog": self.P.prog,
            "out": out,
            "nown": self.P.nown,
            "cell": self.cell,
            "gdim": self.gdim,
            "nmesh": self.nmesh,
            "arity": self.arity,
            "itypes": self.itypes,
            "features": sorted(self.features),
        }


def gen_recipe(rng):
    return _Gen(rng).recipe()


def recipe_digest(recipe):
    return hashlib.sha1(json.dumps(recipe["prog"], sort_keys=True).encode()).hexdigest()[:16]


# ====================================================================== process histories


def gen_conf(rng, kind, boundary, nown):
    """History of one recipe in one process.

    kind: 'fresh' counters at 0; 'shift' counters pre-set so that the recipe's own objects straddle
    `boundary`; 'noise' unrelated objects in between; 'shift+noise' both.
    """
    conf = {"start": {k: 0 for k in COUNTED}, "noise": None}
    if "natural" in kind:
        conf["start"] = None
    if "shift" in kind:
        for k in COUNTED:
            n = nown.get(k, 0)
            r = rng.random()
            if r < 0.8:
                b = boundary
            elif r < 0.9:
                b = rng.choice([10, 100, 1000, 10000])
            else:
                b = None
            if b is None:
                conf["start"][k] = rng.choice([0, 1, 3, 11, 23, 57, 204])
            else:
                conf["start"][k] = max(0, b - rng.randint(1, max(1, n - 1)))
    if "noise" in kind:
        conf["noise"] = {"seed": rng.randrange(1 << 30), "rate": rng.choice([0.15, 0.4, 0.8])}
    return conf


class HarnessError(Exception):
    pass


_SUBCONST = []


def _sub_constant():
    """A user subclass of Constant (as the repository's test_strip_forms.py has one), defined once per process."""
    if not _SUBCONST:
        import ufl

        class VfConstant(ufl.Constant):
            """Constant carrying nothing more: stands for any user subclass."""

        _SUBCONST.append(VfConstant)
    return _SUBCONST[0]


def set_counters(start):
    """Put the global creation counters where `start` says (state named in the property anchors)."""
    if start is None:
        return  # history kind 'natural': the counters are whatever this process has made of them so far
    import ufl
    from ufl.classes import Coefficient, Constant, Index, Label
    from ufl.domain import Mesh

    for name, cls in (("Coefficient", Coefficient), ("Constant", Constant), ("Index", Index), ("Label", Label)):
        cls._counter = itertools.count(int(start[name]))
    Mesh._ufl_global_id = int(start["Mesh"])
    # classes that are counted but not used by the recipes: moved along with Coefficient
    from ufl.core.base_form_operator import BaseFormOperator
    from ufl.matrix import Matrix

    BaseFormOperator._counter = itertools.count(int(start["Coefficient"]))
    Matrix._counter = itertools.count(int(start["Coefficient"]))
    _ = ufl


def set_one_counter(name, n):
    """Next object of the counted class `name` gets the count n."""
    import ufl.classes as uc
    from ufl.domain import Mesh

    if name == "Mesh":
        Mesh._ufl_global_id = int(n)
    else:
        getattr(uc, name)._counter = itertools.count(int(n))


_CAT = {}


def _catalogue(cell, gdim):
    from . import elements as E

    key = (cell, gdim)
    if key not in _CAT:
        _CAT[key] = E.catalogue(cell, gdim)
    return _CAT[key]


class _Noise:
    """Unrelated objects created between the recipe's own objects."""

    def __init__(self, spec, cell, gdim):
        import ufl

        from . import elements as E

        self.rng = random.Random(spec["seed"])
        self.rate = spec["rate"]
        self.ufl = ufl
        self.E = E
        self.cell, self.gdim = cell, gdim
        self.mesh = None
        self.space = None
        self.made = 0
        self.keep = []

    def tick(self):
        rng, ufl = self.rng, self.ufl
        if rng.random() >= self.rate:
            return
        for _ in range(rng.randint(1, 4)):
            what = rng.choice(["const", "coef", "index", "label", "mesh", "expr"])
            if self.mesh is None or what == "mesh":
                self.mesh = self.E.mesh_for(self.cell, self.gdim)
                self.space = ufl.FunctionSpace(self.mesh, _catalogue(self.cell, self.gdim)["P1"])
            if what == "const":
                self.keep.append(ufl.Constant(self.mesh))
            elif what == "coef":
                self.keep.append(ufl.Coefficient(self.space))
            elif what == "index":
                self.keep.append(ufl.Index())
            elif what == "label":
                self.keep.append(ufl.variable(ufl.Constant(self.mesh)))
            elif what == "expr":
                f, c = ufl.Coefficient(self.space), ufl.Constant(self.mesh)
                i = ufl.Index()
                frm = (c * f + ufl.grad(f)[i] * ufl.grad(f)[i]) * ufl.dx(self.mesh)
                if rng.random() < 0.3:
                    frm.signature()
                self.keep.append(frm)
            self.made += 1


def build(recipe, conf):
    """Run the recipe through the public API under the history `conf`.

    Returns (form, own) where own maps class name -> list of the recipe's own objects in creation order.
    """
    import ufl

    from . import elements as E

    set_counters(conf["start"])
    noise = _Noise(conf["noise"], recipe["cell"], recipe["gdim"]) if conf.get("noise") else None
    # diagnostics only: give the own objects of some classes exactly the listed counts
    force = {k: list(v) for k, v in (conf.get("force") or {}).items()}
    made_of = {k: 0 for k in COUNTED}
    op_class = {"mesh": "Mesh", "coef": "Coefficient", "const": "Constant", "index": "Index", "var": "Label"}
    cat = _catalogue(recipe["cell"], recipe["gdim"])
    vals = []
    own = {k: [] for k in COUNTED}
    binops = {
        "add": lambda a, b: a + b,
        "sub": lambda a, b: a - b,
        "mul": lambda a, b: a * b,
        "div": lambda a, b: a / b,
        "dot": ufl.dot,
        "inner": ufl.inner,
        "outer": ufl.outer,
    }
    unops = {"sin": ufl.sin, "cos": ufl.cos, "exp": ufl.exp, "abs": abs, "grad": ufl.grad, "div_": ufl.div, "tr": ufl.tr, "neg": lambda a: -a}
    cmps = {"lt": ufl.lt, "gt": ufl.gt, "le": ufl.le, "ge": ufl.ge, "eq": ufl.eq, "ne": ufl.ne}

    def ix(spec):
        return vals[spec[1]] if spec[0] == "i" else int(spec[1])

    for st in recipe["prog"]:
        o, a, p = st["o"], [vals[k] for k in st["a"]], st["p"]
        if noise is not None and o in ("mesh", "const", "coef", "index", "var", "integral", "as_tensor", "geo"):
            noise.tick()
        if force and o in op_class and op_class[o] in force:
            cls = op_class[o]
            set_one_counter(cls, force[cls][made_of[cls]])
            made_of[cls] += 1
        if o == "mesh":
            v = E.mesh_for(p["cell"], p["gdim"])
            own["Mesh"].append(v)
        elif o == "space":
            v = ufl.FunctionSpace(a[0], cat[p["elem"]])
        elif o == "coef":
            v = ufl.Coefficient(a[0])
            own["Coefficient"].append(v)
        elif o == "const":
            v = (_sub_constant() if p.get("sub") else ufl.Constant)(a[0], tuple(p["shape"]))
            own["Constant"].append(v)
        elif o == "index":
            v = ufl.Index()
            own["Index"].append(v)
        elif o == "arg":
            v = ufl.Argument(a[0], p["number"])
        elif o == "geo":
            v = getattr(ufl, p["name"])(a[0])
        elif o == "lit":
            v = ufl.as_ufl(p["v"])
        elif o in binops:
            v = binops[o](a[0], a[1])
        elif o in unops:
            v = unops[o](a[0])
        elif o == "pow":
            v = a[0] ** p["n"]
        elif o == "smul":
            v = p["c"] * a[0]
        elif o == "idx":
            v = a[0][tuple(ix(s) for s in p["ix"])]
        elif o == "dxi":
            v = a[0].dx(ix(p["ix"]))
        elif o == "as_tensor":
            v = ufl.as_tensor(a[0], tuple(vals[k] for k in p["ix"]))
        elif o == "as_vector":
            v = ufl.as_vector(a)
        elif o == "cond":
            v = ufl.conditional(cmps[p["cmp"]](a[0], a[1]), a[2], a[3])
        elif o == "res":
            v = a[0](p["side"])
        elif o == "var":
            v = ufl.variable(a[0])
            own["Label"].append(v.label())
        elif o == "diff":
            v = ufl.diff(a[0], a[1])
        elif o == "integral":
            kw = {"domain": a[1]}
            if p["sid"] is not None:
                kw["subdomain_id"] = tuple(p["sid"]) if isinstance(p["sid"], list) else p["sid"]
            if p["degree"] is not None:
                kw["metadata"] = {"quadrature_degree": p["degree"]}
            v = a[0] * ufl.Measure({"cell": "dx", "exterior_facet": "ds", "interior_facet": "dS"}[p["itype"]], **kw)
        elif o == "fadd":
            v = a[0] + a[1]
        elif o == "derivative":
            v = ufl.derivative(a[0], a[1]) if len(a) == 2 else ufl.derivative(a[0], tuple(a[1:]))
        else:
            raise HarnessError("unknown op " + o)
        vals.append(v)
    return vals[recipe["out"]], own, (noise.made if noise else 0)


def _tolist(x):
    if isinstance(x, tuple):
        return [_tolist(y) for y in x]
    if isinstance(x, (str, int, float)) or x is None:
        return x
    return repr(x)


class _Timeout(Exception):
    pass


def _alarm(signum, frame):
    raise _Timeout()


def observe(recipe, conf, want_canon=True, per_recipe_timeout=20, only=None, use_alarm=True):
    """Build and observe one recipe; every observable goes through the real UFL functions."""
    import ufl
    from ufl.algorithms import compute_form_data
    from ufl.algorithms.renumbering import renumber_indices
    from ufl.algorithms.signature import compute_expression_signature, compute_terminal_hashdata

    out = {}
    if use_alarm:
        signal.signal(signal.SIGALRM, _alarm)
        signal.alarm(per_recipe_timeout)
    try:
        try:
            form, own, made = build(recipe, conf)
        except HarnessError:
            raise
        except _Timeout:
            raise
        except Exception as ex:
            out["build"] = "raised:" + type(ex).__name__
            out["build_msg"] = str(ex)[:200]
            return out
        out["build"] = "ok"
        out["noise_made"] = made
        # where did the own objects land (public accessors only)
        counts = {}
        for k, objs in own.items():
            counts[k] = [(o.ufl_id() if k == "Mesh" else o.count()) for o in objs]
        out["counts"] = counts

        def guarded(name, f):
            if only is not None and name not in only:
                return
            try:
                out[name] = f()
            except _Timeout:
                raise
            except Exception as ex:
                out[name] = "raised:" + type(ex).__name__

        guarded("sig", lambda: form.signature())
        guarded("sig_renum", lambda: renumber_indices(form).signature())

        def expr_sigs():
            ren = {}
            ren.update(form.domain_numbering())
            ren.update(form.terminal_numbering())
            return [compute_expression_signature(itg.integrand(), ren) for itg in form.integrals()]

        guarded("sig_expr", expr_sigs)

        def fd_sig():
            fd = compute_form_data(form)
            return fd.preprocessed_form.signature()

        guarded("sig_fd", fd_sig)
        if recipe.get("lower"):

            def fd_low():
                fd = compute_form_data(
                    form,
                    do_apply_function_pullbacks=True,
                    do_apply_integral_scaling=True,
                    do_apply_geometry_lowering=True,
                    preserve_geometry_types=(ufl.classes.Jacobian,),
                    do_apply_restrictions=True,
                    do_estimate_degrees=True,
                    complex_mode=False,
                )
                return fd.preprocessed_form.signature()

            guarded("sig_fd_lowered", fd_low)

        # ---- diagnostics only (never decide a verdict): relative structure and terminal hash data
        if want_canon:
            try:
                from .canon import canon

                out["canon"] = _tolist(canon(form, "rel"))
            except _Timeout:
                raise
            except Exception as ex:
                out["canon"] = "raised:" + type(ex).__name__
            try:
                ren = {}
                ren.update(form.domain_numbering())
                ren.update(form.terminal_numbering())
                thd = compute_terminal_hashdata([i.integrand() for i in form.integrals()], ren)
                by = {}
                for t, d in thd.items():
                    by.setdefault(type(t).__name__, []).append(str(d))
                out["thd"] = {k: hashlib.sha1("|".join(sorted(v)).encode()).hexdigest()[:12] for k, v in by.items()}
            except _Timeout:
                raise
            except Exception as ex:
                out["thd"] = "raised:" + type(ex).__name__
            # numbering of the own coefficients / constants (ordinal of creation -> number)
            try:
                cn = form.coefficient_numbering()
                out["coef_numbering"] = [cn.get(c) for c in own["Coefficient"]]
                kn = form.constant_numbering()
                out["const_numbering"] = [kn.get(c) for c in own["Constant"]]
            except _Timeout:
                raise
            except Exception as ex:
                out["coef_numbering"] = "raised:" + type(ex).__name__
    except _Timeout:
        out["timeout"] = True
    finally:
        if use_alarm:
            signal.alarm(0)
    return out


def tree_fingerprint(pkg_dir):
    """Digest of the contents of every source file of the tree under test."""
    import os

    h = hashlib.sha1()
    for root, dirs, files in os.walk(pkg_dir):
        dirs.sort()
        for f in sorted(files):
            if f.endswith(".py"):
                path = os.path.join(root, f)
                h.update(os.path.relpath(path, pkg_dir).encode() + b"\0")
                try:
                    with open(path, "rb") as fh:
                        h.update(hashlib.sha1(fh.read()).digest())
                except OSError:
                    h.update(b"unreadable")
    return h.hexdigest()[:16]


def child_main():
    """One child process = one interpreter start = one history."""
    import os

    job = json.load(sys.stdin)
    import ufl  # noqa: F401  (through vf bootstrap: VERIF_REPO decides the tree)

    fp0 = tree_fingerprint(os.path.dirname(ufl.__file__))

    res = {}
    for k in job["order"]:
        res[str(k)] = observe(job["recipes"][k], job["confs"][k], want_canon=job.get("canon", True))
    fp1 = tree_fingerprint(os.path.dirname(ufl.__file__))
    sys.stdout.write("C12RESULT " + json.dumps({"ufl": ufl.__file__, "tree": fp0 if fp0 == fp1 else "changed-while-running", "res": res}) + "\n")
    sys.stdout.flush()


if __name__ == "__main__":
    child_main()
