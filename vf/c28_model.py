"""Finite-dimensional model of UFL base forms for property C28.

Every primal function space V_i of a case gets a basis of n_i Coefficient 'basis functions'
b^i_1..b^i_n (their polynomial fields are created by the worlds on demand); V_i* gets the dual
basis.  Model objects:

  Coefficient f on V_i    coordinate vector c_f (REAL, also in complex mode - see ASSUMPTIONS of the
                          property module); its field in every world is sum_k c_f[k] * field(b_k)
                          (installed directly as a linear-combination field, because a substituted
                          terminal would not receive Gateaux perturbations in seval)
  Cofunction on V_i*      random array (n_i,)
  Matrix(R, C)            random array (n_R, n_C)
  Form                    A[i, j, ..] = Phi(F)[argument_0 := b_i, argument_1 := b_j, ..]   (vf.phi)
  Constant (scalar)       one fixed number in all worlds

`Model.assemble(obj, vals)` is the small recursive assembler over the structure of an object that UFL
*returned*: Form -> Phi assembly, FormSum -> weighted sum, Action -> contraction of the last slot
of the left with the first slot of the right operand, Adjoint -> conjugate transpose, Matrix /
Cofunction -> their arrays, Coargument / Argument -> identity, ZeroBaseForm -> zeros.
Nothing here calls a UFL algorithm; it reads classes, operands, arguments() of Forms and integrands.
"""

import numpy as np

import ufl
from ufl.duals import is_dual

from . import elements as E
from .jet import IllConditioned
from .phi import WorldSet, phi
from .seval import CB, S, StructureMismatch
from .world import Ambiguous, Unsupported


class Skip(Exception):
    """The oracle cannot decide this object (unsupported node, ambiguous value, unknown space...)."""


class Inconsistent(Exception):
    """The structure UFL returned cannot be assembled consistently (slot dimensions do not fit)."""


class LinField:
    """sum_k vec[k] * fields[k] - duck-typed like world.PolyField (only .eval is used by seval)."""

    def __init__(self, fields, vec):
        self.fields = fields
        self.vec = vec  # shared mutable list of python complex numbers

    def eval(self, B, X, d):
        tot = None
        for c, F in zip(self.vec, self.fields):
            a = F.eval(B, X, d) * B.scalar(c)
            tot = a if tot is None else tot + a
        return tot


def okey(o):
    """Identity of a coefficient-like object that survives UFL's reconstruction: (class name, count)."""
    return (type(o).__name__, o.count())


def primal(space):
    return space.dual() if is_dual(space) else space


class Model:
    def __init__(self, rng, cell, gdim, cplx, elements, dims):
        self.rng = rng
        self.cell, self.gdim, self.cplx = cell, gdim, cplx
        self.mesh = E.mesh_for(cell, gdim)
        self.spaces = [ufl.FunctionSpace(self.mesh, e) for e in elements]
        self.dims = list(dims)
        self.ws = WorldSet(rng, cell, gdim, cplx)
        self.basis = [[ufl.Coefficient(V) for _ in range(n)] for V, n in zip(self.spaces, self.dims)]
        # create the basis fields now, in a fixed order
        for bs in self.basis:
            for b in bs:
                self._fields_of(b)
        self.vecs = {}  # okey -> shared mutable list (current coordinate vector installed in the worlds)
        self.base = {}  # okey -> np.array base value (coefficients: real vector, cofunctions: array)
        self.alt = {}  # okey -> alternative value for dependency tests
        self.obj = {}  # okey -> object
        self.space_of = {}  # okey -> space index
        self.mats = {}  # count -> array
        self.consts = {}  # Constant -> value
        self._form_cache = {}
        self._stack = set()

    # ------------------------------------------------------------------ creation of model objects
    def _fields_of(self, t):
        out = []
        for w in self.ws.worlds.values():
            for s in w.sides:
                out.append(w.field(t, s))
            if w.two_sided:
                out.append(w.jump_field(t))
        return out

    def _rvec(self, n, real=False):
        r = self.rng
        if self.cplx and not real:
            return np.array([complex(r.randint(-8, 8) / 4, r.randint(-8, 8) / 4) for _ in range(n)])
        return np.array([complex(r.choice([-7, -5, -3, -2, -1, 1, 2, 3, 5, 6]) / 4) for _ in range(n)])

    def slot_space(self, slot):
        i, dual = slot
        return self.spaces[i].dual() if dual else self.spaces[i]

    def space_index(self, space):
        p = primal(space)
        for i, V in enumerate(self.spaces):
            if V == p:
                return i
        raise Skip("function space outside the model")

    def slot_of(self, space):
        return (self.space_index(space), bool(is_dual(space)))

    def new_coefficient(self, i):
        f = ufl.Coefficient(self.spaces[i])
        k = okey(f)
        n = self.dims[i]
        self.base[k] = self._rvec(n, real=True)
        self.alt[k] = self._rvec(n, real=True) + 0.125
        self.vecs[k] = [complex(x) for x in self.base[k]]
        self.obj[k] = f
        self.space_of[k] = i
        for w in self.ws.worlds.values():
            for s in w.sides:
                w.fields[(f, s)] = LinField([w.field(b, s) for b in self.basis[i]], self.vecs[k])
            if w.two_sided:
                w.qfields[f] = LinField([w.jump_field(b) for b in self.basis[i]], self.vecs[k])
        return f

    def new_cofunction(self, i, via_coefficient=False):
        Vd = self.spaces[i].dual()
        c = ufl.Coefficient(Vd) if via_coefficient else ufl.Cofunction(Vd)
        k = okey(c)
        n = self.dims[i]
        self.base[k] = self._rvec(n)
        self.alt[k] = self._rvec(n) + 0.125
        self.obj[k] = c
        self.space_of[k] = i
        return c

    def new_matrix(self, slot_r, slot_c):
        M = ufl.Matrix(self.slot_space(slot_r), self.slot_space(slot_c))
        n, m = self.dims[slot_r[0]], self.dims[slot_c[0]]
        self.mats[M.count()] = self._rvec(n * m).reshape(n, m)
        return M

    def new_constant(self):
        k = ufl.Constant(self.mesh)
        v = self._rvec(1)[0]
        self.consts[k] = v
        for w in self.ws.worlds.values():
            w.constants[k] = np.array(v, dtype=complex)
        return k

    # ------------------------------------------------------------------ state
    def value(self, k, ov):
        v = ov.get(k) if ov else None
        return self.base[k] if v is None else v

    def install(self, ov):
        """Make every coefficient's field the linear combination given by the state (base + overrides)."""
        for k, lst in self.vecs.items():
            v = self.value(k, ov)
            for j in range(len(lst)):
                lst[j] = complex(v[j])

    @staticmethod
    def ovkey(ov):
        if not ov:
            return ()
        return tuple(sorted((k, v.tobytes()) for k, v in ov.items()))

    # ------------------------------------------------------------------ scalars (FormSum weights)
    def scalar(self, w):
        if isinstance(w, (int, float, complex)):
            return complex(w)
        if isinstance(w, np.generic):
            return complex(w)
        if isinstance(w, ufl.core.expr.Expr):
            if w.ufl_shape or w.ufl_free_indices:
                raise Skip("non-scalar weight")
            world = self.ws.worlds["cell"]
            try:
                r = S(w, world)
            except (Unsupported, Ambiguous, StructureMismatch, IllConditioned) as ex:
                raise Skip("weight: " + str(ex)[:80])
            return complex(r.arr)
        raise Skip("weight of type " + type(w).__name__)

    # ------------------------------------------------------------------ Phi assembly of a Form
    def form_array(self, form, ov=None):
        """(array over the form's arguments() in their order, argument spaces, magnitude)."""
        args = tuple(form.arguments())
        slots = [self.slot_of(a.ufl_function_space()) for a in args]
        if any(d for _, d in slots):
            raise Skip("Form with an argument in a dual space")
        coefs = sorted(okey(c) for c in form.coefficients() if okey(c) in self.vecs)
        ck = (id(form), tuple((k, self.value(k, ov).tobytes()) for k in coefs))
        hit = self._form_cache.get(ck)
        if hit is not None and hit[0] is form:
            return hit[1], slots, hit[2]
        self.install(ov)
        shape = tuple(self.dims[i] for i, _ in slots)
        arr = np.zeros(shape, dtype=complex)
        mag = 0.0
        try:
            for idx in np.ndindex(*shape):
                sub = {a: ("expr", self.basis[s[0]][j]) for a, s, j in zip(args, slots, idx)}
                r = phi(form, self.ws, CB, subst=sub)
                arr[idx] = complex(r.arr)
                mag = max(mag, float(r.maxabs))
        except (Unsupported, Ambiguous, StructureMismatch, IllConditioned) as ex:
            raise Skip(type(ex).__name__ + ": " + str(ex)[:100])
        finally:
            self.install(None)
        if not np.all(np.isfinite(arr)):
            raise Skip("non-finite form value")
        mag = max(mag, float(np.max(np.abs(arr), initial=0.0)))
        self._form_cache[ck] = (form, arr, mag)
        return arr, slots, mag

    # ------------------------------------------------------------------ assembler of UFL results
    def assemble(self, o, ov=None):
        """-> (array or None for a zero of unknown arity, list of slots, magnitude)."""
        from ufl.action import Action
        from ufl.adjoint import Adjoint
        from ufl.argument import Argument, Coargument
        from ufl.coefficient import Coefficient, Cofunction
        from ufl.form import Form, FormSum, ZeroBaseForm
        from ufl.matrix import Matrix

        t = type(o)
        if t in (FormSum, Action, Adjoint):
            if id(o) in self._stack:
                raise Inconsistent(f"the {t.__name__} object contains itself as an operand (cyclic structure)")
            self._stack.add(id(o))
            try:
                return self._assemble(o, ov)
            finally:
                self._stack.discard(id(o))
        return self._assemble(o, ov)

    def _assemble(self, o, ov):
        from ufl.action import Action
        from ufl.adjoint import Adjoint
        from ufl.argument import Coargument
        from ufl.coefficient import Cofunction
        from ufl.form import Form, FormSum, ZeroBaseForm
        from ufl.matrix import Matrix

        t = type(o)
        if t is Form:
            if not o.integrals():
                return None, None, 0.0
            return self.form_array(o, ov)
        if t is FormSum:
            tot, slots, mag = None, None, 0.0
            comps, ws = o.components(), o.weights()
            if len(comps) != len(ws):
                raise Inconsistent("FormSum with different numbers of components and weights")
            for c, w in zip(comps, ws):
                a, s, m = self.assemble(c, ov)
                wv = self.scalar(w)
                mag = max(mag, m * abs(wv))
                if a is None:
                    continue
                if tot is None:
                    tot, slots = a * wv, s
                else:
                    if tot.shape != a.shape:
                        if not np.any(a):
                            continue
                        if not np.any(tot):
                            tot, slots = a * wv, s
                            continue
                        raise Inconsistent(f"FormSum of components with array shapes {tot.shape} and {a.shape}")
                    tot = tot + a * wv
            return tot, slots, mag
        if t is Action:
            la, ls, lm = self.operand(o.left(), ov)
            ra, rs, rm = self.operand(o.right(), ov)
            if la is None or ra is None:
                return None, None, 0.0
            if not ls or not rs:
                raise Inconsistent("Action of an operand without a slot to contract")
            if la.shape[-1] != ra.shape[0]:
                raise Inconsistent(f"Action contracts slots of dimensions {la.shape[-1]} and {ra.shape[0]}")
            arr = np.tensordot(la, ra, axes=([la.ndim - 1], [0]))
            return arr, list(ls[:-1]) + list(rs[1:]), lm * rm * la.shape[-1]
        if t is Adjoint:
            a, s, m = self.assemble(o.form(), ov)
            if a is None:
                return None, None, 0.0
            if a.ndim != 2:
                raise Inconsistent("Adjoint of an object with %d slots" % a.ndim)
            return np.conj(a).T, [s[1], s[0]], m
        if t is Matrix:
            a = self.mats.get(o.count())
            if a is None:
                raise Skip("unknown Matrix")
            r, c = o.ufl_function_spaces()
            return a, [self.slot_of(r), self.slot_of(c)], float(np.max(np.abs(a)))
        if t is Cofunction:
            k = okey(o)
            if k not in self.base:
                raise Skip("unknown Cofunction")
            a = self.value(k, ov)
            return a, [(self.space_of[k], False)], float(np.max(np.abs(a)))
        if t is Coargument:
            i, d = self.slot_of(o.ufl_function_space())
            return np.eye(self.dims[i], dtype=complex), [(i, False), (i, True)], 1.0
        if t is ZeroBaseForm:
            slots = [self.slot_of(a.ufl_function_space()) for a in o.arguments()]
            return np.zeros(tuple(self.dims[i] for i, _ in slots), dtype=complex), slots, 0.0
        raise Skip("no assembly rule for " + t.__name__)

    def operand(self, o, ov):
        """Operand of an Action: a BaseForm, a Coefficient (its coordinate vector), a Sum of those."""
        from ufl.algebra import Sum
        from ufl.argument import Argument
        from ufl.coefficient import Coefficient

        if isinstance(o, Coefficient):
            k = okey(o)
            if k not in self.vecs:
                raise Skip("unknown Coefficient")
            a = self.value(k, ov)
            return a, [(self.space_of[k], True)], float(np.max(np.abs(a)))
        if isinstance(o, Sum):
            x, y = o.ufl_operands
            a, s, m = self.operand(x, ov)
            b, s2, m2 = self.operand(y, ov)
            return a + b, s, m + m2
        if isinstance(o, Argument):
            i, d = self.slot_of(o.ufl_function_space())
            return np.eye(self.dims[i], dtype=complex), [(i, True), (i, False)], 1.0
        return self.assemble(o, ov)
