"""The world model: one concrete place where a UFL expression has a value.

Everything here is computed from vertex coordinates with plain linear algebra; no UFL
algorithm is called.  Reference-cell conventions are the UFC/basix ones that UFL leaves to
the form compiler (stated as an assumption in the evidence files):

  interval     vertices (0),(1); facet i is vertex i
  triangle     vertices (0,0),(1,0),(0,1); facet i (an edge) is opposite vertex i
  tetrahedron  vertices (0,0,0),(1,0,0),(0,1,0),(0,0,1); facet i opposite vertex i;
               edges e0=(2,3) e1=(1,3) e2=(1,2) e3=(0,3) e4=(0,2) e5=(0,1)
  a sub-entity with sorted vertices (a,b,c) is parametrised by V_a + (V_b-V_a)s + (V_c-V_a)t
"""

import itertools
import math
import random
from fractions import Fraction

import numpy as np

from .jet import CBackend, fix, jconst, mul

TDIM = {"vertex": 0, "interval": 1, "triangle": 2, "tetrahedron": 3}
REF_VERTS = {
    "vertex": [[]],
    "interval": [[0], [1]],
    "triangle": [[0, 0], [1, 0], [0, 1]],
    "tetrahedron": [[0, 0, 0], [1, 0, 0], [0, 1, 0], [0, 0, 1]],
}
EDGES = {
    "vertex": [],
    "interval": [(0, 1)],
    "triangle": [(1, 2), (0, 2), (0, 1)],
    "tetrahedron": [(2, 3), (1, 3), (1, 2), (0, 3), (0, 2), (0, 1)],
}
FACET_CELL = {"interval": "vertex", "triangle": "interval", "tetrahedron": "triangle"}


def facet_vertices(cellname, f):
    n = TDIM[cellname] + 1
    if cellname == "interval":
        return (f,)
    return tuple(v for v in range(n) if v != f)


def ridge_vertices(cellname, r):
    """Ridges: entities of dimension tdim-2 (tetrahedron: edges; triangle: vertices)."""
    if cellname == "tetrahedron":
        return EDGES["tetrahedron"][r]
    if cellname == "triangle":
        return (r,)
    raise ValueError("no ridges")


class Unsupported(Exception):
    """The oracle has no semantics for this input; the event is skipped, never 'held'."""


class Ambiguous(Exception):
    """An unrestricted quantity has different values on the two sides of a facet."""


def _dyadic(rng, lo, hi, den=16):
    return rng.randint(int(lo * den), int(hi * den)) / den


# ------------------------------------------------------------------ generic small linalg


def _T(a):
    return np.transpose(a)


def _gram_inv_pinv(B, J):
    """Pseudo-inverse of a full-column-rank matrix: (J^T J)^-1 J^T."""
    if J.shape[1] == 0:
        return np.empty((0, J.shape[0]), dtype=J.dtype)
    JT = _T(J)
    G = JT @ J
    return B.inv(G) @ JT


def _pdet(B, A):
    """Pseudo-determinant sqrt(det(A^T A)) (= |det A| for square A)."""
    if A.shape[1] == 0:
        return B.scalar(1)
    G = _T(A) @ A
    return B.fn("sqrt")(np.asarray(B.det(G)))[()]


def _norm(B, v):
    return B.fn("sqrt")(np.asarray((v * v).sum()))[()]


def _simplex_volume(B, P):
    """Volume of the simplex with vertex rows P (k+1 points in R^g) by Cayley-Menger."""
    k = P.shape[0] - 1
    if k == 0:
        return B.scalar(1)
    n = k + 2
    M = B.zeros((n, n))
    for i in range(k + 1):
        M[0, i + 1] = B.scalar(1)
        M[i + 1, 0] = B.scalar(1)
        for j in range(k + 1):
            dlt = P[i] - P[j]
            M[i + 1, j + 1] = (dlt * dlt).sum()
    det = B.det(M)
    coef = (-1) ** (k + 1) * (2**k) * math.factorial(k) ** 2
    v2 = det / B.scalar(coef)
    return B.fn("sqrt")(np.asarray(v2))[()]


def _circumradius(B, P):
    k = P.shape[0] - 1
    if k == 1:
        return _norm(B, P[1] - P[0]) / B.scalar(2)
    E = _T(P[1:] - P[0])  # g x k
    G = _T(E) @ E
    rhs = np.array([G[i, i] for i in range(k)], dtype=G.dtype) / B.scalar(2)
    y = B.inv(G) @ rhs
    c = E @ y
    return _norm(B, c)


# ------------------------------------------------------------------------------ one cell


class Side:
    """One cell with a point on it (and, for facet integrals, the local facet)."""

    def __init__(self, cellname, verts, orientation=1, facet=None, X=None, ridge=None):
        self.cellname = cellname
        self.tdim = TDIM[cellname]
        self.verts = np.array(verts, dtype=float)
        self.gdim = self.verts.shape[1]
        self.orientation = orientation
        self.facet = facet
        self.ridge = ridge
        self.X = np.array(X, dtype=float)
        self._geo = {}

    def geo(self, B):
        g = self._geo.get(B.name)
        if g is None:
            g = self._geo[B.name] = _Geometry(B, self)
        return g


class _Geometry:
    """All geometric quantities of one Side in one backend, computed lazily by name."""

    def __init__(self, B, side):
        self.B = B
        self.s = side
        self.cache = {}
        self.V = B.asarray(side.verts)
        self.RV = B.asarray(np.array(REF_VERTS[side.cellname], dtype=float).reshape(side.tdim + 1, side.tdim))

    def __call__(self, name):
        if name not in self.cache:
            fn = getattr(self, "q_" + name, None)
            if fn is None:
                raise Unsupported("geometric quantity " + name)
            self.cache[name] = fix(np.asarray(fn()))
        return self.cache[name]

    # -- cell map
    def q_Jacobian(self):
        return _T(self.V[1:] - self.V[0])

    def q_CellOrigin(self):
        return self.V[0]

    def q_JacobianInverse(self):
        return _gram_inv_pinv(self.B, self("Jacobian"))

    def q_JacobianDeterminant(self):
        J = self("Jacobian")
        s = self.s
        if s.tdim == s.gdim:
            return self.B.det(J)
        # documented convention: on manifolds the pseudo-determinant carries the cell orientation
        return self.B.scalar(s.orientation) * _pdet(self.B, J)

    def q_CellOrientation(self):
        s = self.s
        if s.tdim == s.gdim:
            d = self.B.to_complex(np.asarray(self.B.det(self("Jacobian")))).real
            return self.B.scalar(1.0 if d > 0 else -1.0)
        return self.B.scalar(s.orientation)

    def q_CellVertices(self):
        return self.V

    def q_CellEdgeVectors(self):
        E = EDGES[self.s.cellname]
        return np.array([self.V[b] - self.V[a] for a, b in E], dtype=self.V.dtype).reshape(len(E), self.s.gdim)

    def q_ReferenceCellEdgeVectors(self):
        E = EDGES[self.s.cellname]
        return np.array([self.RV[b] - self.RV[a] for a, b in E], dtype=self.V.dtype).reshape(len(E), self.s.tdim)

    def q_ReferenceCellVolume(self):
        return self.B.scalar(Fraction(1, math.factorial(self.s.tdim)))

    def q_CellVolume(self):
        return _simplex_volume(self.B, self.V)

    def q_Circumradius(self):
        return _circumradius(self.B, self.V)

    def _edge_lengths(self, pairs):
        return [_norm(self.B, self.V[b] - self.V[a]) for a, b in pairs]

    def _minmax(self, vals, which):
        f = [float(self.B.to_complex(np.asarray(v)).real) for v in vals]
        k = f.index(max(f)) if which == "max" else f.index(min(f))
        return vals[k]

    def q_MaxCellEdgeLength(self):
        return self._minmax(self._edge_lengths(EDGES[self.s.cellname]), "max")

    def q_MinCellEdgeLength(self):
        return self._minmax(self._edge_lengths(EDGES[self.s.cellname]), "min")

    def q_CellDiameter(self):
        n = self.s.tdim + 1
        return self._minmax(self._edge_lengths(list(itertools.combinations(range(n), 2))), "max")

    def q_CellNormal(self):
        s = self.s
        B = self.B
        if s.gdim != s.tdim + 1:
            raise Unsupported("cell normal needs gdim = tdim+1")
        if s.tdim == 2:
            a = self.V[1] - self.V[0]
            b = self.V[2] - self.V[0]
            n = np.array([a[1] * b[2] - a[2] * b[1], a[2] * b[0] - a[0] * b[2], a[0] * b[1] - a[1] * b[0]], dtype=a.dtype)
        elif s.tdim == 1:
            t = self.V[1] - self.V[0]
            n = np.array([-t[1], t[0]], dtype=t.dtype)
        else:
            raise Unsupported("cell normal")
        return B.scalar(s.orientation) * n / _norm(B, n)

    # -- facets
    def _fv(self):
        if self.s.facet is None:
            raise Unsupported("facet quantity without a facet")
        return facet_vertices(self.s.cellname, self.s.facet)

    def q_CellFacetOrigin(self):
        return self.RV[self._fv()[0]]

    def q_CellFacetJacobian(self):
        fv = self._fv()
        cols = [self.RV[v] - self.RV[fv[0]] for v in fv[1:]]
        out = self.B.zeros((self.s.tdim, len(cols)))
        for k, c in enumerate(cols):
            out[:, k] = c
        return out

    def q_FacetOrigin(self):
        return self.V[self._fv()[0]]

    def q_FacetJacobian(self):
        fv = self._fv()
        cols = [self.V[v] - self.V[fv[0]] for v in fv[1:]]
        out = self.B.zeros((self.s.gdim, len(cols)))
        for k, c in enumerate(cols):
            out[:, k] = c
        return out

    def q_FacetJacobianDeterminant(self):
        return _pdet(self.B, self("FacetJacobian"))

    def q_FacetJacobianInverse(self):
        return _gram_inv_pinv(self.B, self("FacetJacobian"))

    def q_CellFacetJacobianDeterminant(self):
        return _pdet(self.B, self("CellFacetJacobian"))

    def q_CellFacetJacobianInverse(self):
        return _gram_inv_pinv(self.B, self("CellFacetJacobian"))

    def q_ReferenceFacetVolume(self):
        return self.B.scalar(Fraction(1, math.factorial(max(self.s.tdim - 1, 0))))

    def q_FacetArea(self):
        if self.s.tdim == 1:
            return self.B.scalar(1)  # documented: the 'area' of a vertex is 1
        return _simplex_volume(self.B, self.V[list(self._fv())])

    def _facet_edge_pairs(self):
        fv = self._fv()
        if self.s.tdim < 3:
            raise Unsupported("facet edges need tdim 3")
        a, b, c = fv
        return [(b, c), (a, c), (a, b)]

    def q_FacetEdgeVectors(self):
        pairs = self._facet_edge_pairs()
        return np.array([self.V[b] - self.V[a] for a, b in pairs], dtype=self.V.dtype).reshape(len(pairs), self.s.gdim)

    def q_ReferenceFacetEdgeVectors(self):
        pairs = self._facet_edge_pairs()
        return np.array([self.RV[b] - self.RV[a] for a, b in pairs], dtype=self.V.dtype).reshape(len(pairs), self.s.tdim)

    def q_MaxFacetEdgeLength(self):
        return self._minmax(self._edge_lengths(self._facet_edge_pairs()), "max")

    def q_MinFacetEdgeLength(self):
        return self._minmax(self._edge_lengths(self._facet_edge_pairs()), "min")

    def _outward(self, P, fv, opp_point):
        """Unit vector in span(P - P[0]) orthogonal to the facet, pointing away from opp_point."""
        B = self.B
        base = P[fv[0]]
        w = base - opp_point
        if len(fv) > 1:
            T = np.array([P[v] - base for v in fv[1:]], dtype=P.dtype)  # (k, g) facet tangents
            G = T @ _T(T)
            coef = B.inv(G) @ (T @ w)
            w = w - _T(T) @ coef
        return w / _norm(B, w)

    def q_FacetNormal(self):
        fv = self._fv()
        s = self.s
        if s.cellname == "interval":
            opp = self.V[1 - s.facet]
        else:
            opp = self.V[s.facet]
        return self._outward(self.V, fv, opp)

    def q_ReferenceNormal(self):
        fv = self._fv()
        s = self.s
        if s.cellname == "interval":
            opp = self.RV[1 - s.facet]
        else:
            opp = self.RV[s.facet]
        return self._outward(self.RV, fv, opp)

    def q_FacetOrientation(self):
        raise Unsupported("FacetOrientation")

    # -- ridges (tetrahedron edges)
    def _rv(self):
        if self.s.ridge is None:
            raise Unsupported("ridge quantity without a ridge")
        return ridge_vertices(self.s.cellname, self.s.ridge)

    def q_CellRidgeJacobian(self):
        rv = self._rv()
        cols = [self.RV[v] - self.RV[rv[0]] for v in rv[1:]]
        out = self.B.zeros((self.s.tdim, len(cols)))
        for k, c in enumerate(cols):
            out[:, k] = c
        return out

    def q_CellRidgeOrigin(self):
        return self.RV[self._rv()[0]]

    def q_RidgeOrigin(self):
        return self.V[self._rv()[0]]

    def q_RidgeJacobian(self):
        rv = self._rv()
        cols = [self.V[v] - self.V[rv[0]] for v in rv[1:]]
        out = self.B.zeros((self.s.gdim, len(cols)))
        for k, c in enumerate(cols):
            out[:, k] = c
        return out

    def q_RidgeJacobianDeterminant(self):
        return _pdet(self.B, self("RidgeJacobian"))

    def q_RidgeJacobianInverse(self):
        return _gram_inv_pinv(self.B, self("RidgeJacobian"))

    def q_CellRidgeJacobianDeterminant(self):
        return _pdet(self.B, self("CellRidgeJacobian"))

    def q_CellRidgeJacobianInverse(self):
        return _gram_inv_pinv(self.B, self("CellRidgeJacobian"))

    def q_ReferenceRidgeVolume(self):
        return self.B.scalar(Fraction(1, math.factorial(max(self.s.tdim - 2, 0))))


# --------------------------------------------------------------------------------- fields


def monomials(tdim, deg):
    return [m for m in itertools.product(range(deg + 1), repeat=tdim) if sum(m) <= deg]


class PolyField:
    """Vector of polynomials in the reference coordinates, one per reference component.

    Component c has exactly total degree degs[c] (all coefficients non-zero dyadic rationals).
    """

    def __init__(self, rng, tdim, degs, complex_mode, scale=1.0):
        self.tdim = tdim
        self.degs = list(degs)
        self.maxdeg = max(self.degs) if self.degs else 0
        self.mons = monomials(tdim, self.maxdeg)
        n = len(self.degs)
        self.coef = np.zeros((len(self.mons), n), dtype=complex)
        for c, dg in enumerate(self.degs):
            for k, m in enumerate(self.mons):
                if sum(m) <= dg:
                    re = 0
                    while re == 0:
                        re = rng.randint(-12, 12) / 8
                    im = (rng.randint(-12, 12) / 8) if complex_mode else 0.0
                    self.coef[k, c] = complex(re, im) * scale
        self._bc = {}

    def eval(self, B, X, d):
        """X: jet (2,)*d + (tdim,)  ->  jet (2,)*d + (ncomp,)."""
        coef = self._bc.get(B.name)
        if coef is None:
            coef = self._bc[B.name] = B.asarray(self.coef)
        n = coef.shape[1]
        out = B.zeros((2,) * d + (n,))
        # powers of each coordinate
        pw = []
        for k in range(self.tdim):
            xk = fix(X[..., k])
            lst = [None, xk]
            for _ in range(2, self.maxdeg + 1):
                lst.append(mul(lst[-1], xk, d))
            pw.append(lst)
        for mi, m in enumerate(self.mons):
            term = None
            for k, p in enumerate(m):
                if p:
                    term = pw[k][p] if term is None else mul(term, pw[k][p], d)
            c = coef[mi]
            if term is None:
                out[(0,) * d] = out[(0,) * d] + c
            else:
                out = out + fix(term)[..., None] * c
        return fix(out)


def element_leaves(e):
    """Flatten an element into (kind, reference shape, degree, continuous) leaves, in the order
    of its flattened reference value.  `kind` names the declared push-forward."""
    kind = pullback_kind(e)
    subs = list(getattr(e, "sub_elements", ()) or ())
    if kind in ("mixed", "symmetric") or (kind == "identity" and subs and getattr(e, "vf_kind", None) is None):
        # (a mixed element whose sub-elements are all identity-mapped may declare the plain identity pull-back, e.g. the
        # mixed element UFL builds for derivative(F, (u, p)): its components still have the degrees of the sub-elements)
        out = []
        for s in subs:
            out.extend(element_leaves(s))
        return out
    deg = e.embedded_superdegree
    if deg is None:
        deg = 2
    cont = getattr(e.sobolev_space, "name", "") in ("H1", "H2", "HInf") and kind == "identity" and deg >= 1
    return [(kind, tuple(e.reference_value_shape), int(deg), cont)]


def pullback_kind(e):
    k = getattr(e, "vf_kind", None)
    if k is not None:
        return k
    name = type(e.pullback).__name__
    table = {
        "IdentityPullback": "identity",
        "ContravariantPiola": "contravariant",
        "CovariantPiola": "covariant",
        "L2Piola": "l2",
        "DoubleContravariantPiola": "dcontra",
        "DoubleCovariantPiola": "dcov",
        "CovariantContravariantPiola": "covcontra",
        "MixedPullback": "mixed",
        "SymmetricPullback": "symmetric",
    }
    if name not in table:
        raise Unsupported("pullback " + name)
    return table[name]


# ------------------------------------------------------------------------------ the world


class World:
    """A concrete cell (or pair of cells sharing a facet), a point, fields and constants."""

    def __init__(self, rng, cellname, gdim, itype="cell", complex_mode=False, conforming=True, aniso=False, seed_note=None):
        self.rng = rng
        self.cellname = cellname
        self.tdim = TDIM[cellname]
        self.gdim = gdim
        self.itype = itype
        self.complex_mode = complex_mode
        self.conforming = conforming
        self.two_sided = itype.startswith("interior_facet")
        self.fields = {}
        self.qfields = {}
        self.constants = {}
        self.alias = {}
        self.mesh = None  # when set: terminals of any other mesh raise StructureMismatch in S ...
        self.others = {}  # ... unless that mesh has a world of its own here: {mesh: World}
        self.subst = {}  # terminal -> ("expr", image) | ("lin", [(scalar, terminal), ...]), see seval._substituted
        self.weight = _dyadic(rng, 0.125, 1.0, 64)
        self.seed_note = seed_note
        for attempt in range(6):
            try:
                self._build(aniso)
                break
            except Unsupported as ex:
                if "could not generate" not in str(ex) or attempt == 5:
                    raise

    # -- construction ------------------------------------------------------------------
    def _random_cell(self, aniso):
        rng = self.rng
        t, g = self.tdim, self.gdim
        for _ in range(1000):
            V = np.array([[_dyadic(rng, -2, 2) for _ in range(g)] for _ in range(t + 1)], dtype=float)
            if aniso:
                V[:, 0] *= rng.choice([0.125, 4.0, 8.0])
            E = (V[1:] - V[0]).T
            gram = float(np.linalg.det(E.T @ E)) if t else 1.0
            el = [np.linalg.norm(V[a] - V[b]) for a, b in itertools.combinations(range(t + 1), 2)]
            lo, hi = (0.03, 40.0) if aniso else (0.2, 5.0)
            if t and not (lo <= math.sqrt(max(gram, 0.0)) <= hi**t and all(lo <= x <= hi for x in el)):
                continue
            if t and np.linalg.cond(E) > (400 if aniso else 30):
                continue
            return V
        raise RuntimeError("could not generate a cell")

    def _point_in(self, cellname):
        t = TDIM[cellname]
        if t == 0:
            return np.zeros(0)
        w = [self.rng.randint(1, 8) for _ in range(t + 1)]
        s = sum(w)
        # barycentric weights -> reference coordinates (weights of vertices 1..t)
        return np.array([Fraction(w[k + 1], s) for k in range(t)], dtype=float)

    def _build(self, aniso):
        rng = self.rng
        name = self.cellname
        t = self.tdim
        V = self._random_cell(aniso)
        orient = rng.choice([1, -1]) if self.gdim > t else 1
        it = self.itype
        if it in ("cell", "custom", "cutcell", "interface", "overlap"):
            self.sides = {"+": Side(name, V, orient, None, self._point_in(name))}
        elif it == "vertex":
            v = rng.randrange(t + 1)
            X = np.array(REF_VERTS[name][v], dtype=float)
            self.sides = {"+": Side(name, V, orient, None, X)}
            self.vertex = v
        elif it.startswith("exterior_facet") or it.startswith("interior_facet"):
            f = rng.randrange(t + 1)
            fv = facet_vertices(name, f)
            RV = np.array(REF_VERTS[name], dtype=float).reshape(t + 1, t)
            Xf = self._point_in(FACET_CELL[name])
            X = RV[fv[0]] + sum((RV[v] - RV[fv[0]]) * Xf[k] for k, v in enumerate(fv[1:])) if t > 1 else RV[fv[0]].copy()
            plus = Side(name, V, orient, f, X)
            self.sides = {"+": plus}
            self.Xf = Xf
            if self.two_sided:
                self.sides["-"] = self._neighbour(plus, fv)
        elif it == "ridge":
            if name != "tetrahedron":
                raise Unsupported("ridge integrals only on tetrahedra here")
            r = rng.randrange(6)
            rv = ridge_vertices(name, r)
            RV = np.array(REF_VERTS[name], dtype=float)
            s = rng.randint(1, 7) / 8
            X = RV[rv[0]] + (RV[rv[1]] - RV[rv[0]]) * s
            self.sides = {"+": Side(name, V, orient, None, X, ridge=r)}
        else:
            raise Unsupported("integral type " + it)
        p = self.sides["+"]
        self.x = p.verts[0] + (p.verts[1:] - p.verts[0]).T @ p.X if t else p.verts[0].copy()

    def _neighbour(self, plus, fv):
        """A second cell on the other side of facet fv of `plus`."""
        rng = self.rng
        name, t, g = self.cellname, self.tdim, self.gdim
        V = plus.verts
        shared = [V[v] for v in fv]
        opp = V[plus.facet] if name != "interval" else V[1 - plus.facet]
        centroid = sum(shared) / len(shared)
        for _ in range(1000):
            # reflect the apex through the facet and perturb (non-coplanar on manifolds)
            apex = centroid + (centroid - opp) * _dyadic(rng, 0.5, 1.5) + np.array(
                [_dyadic(rng, -0.5, 0.5) for _ in range(g)]
            )
            apex = np.round(apex * 16) / 16
            if self.conforming:
                f2 = plus.facet
                order = list(fv)
                W = np.array(V, copy=True)
                if name == "interval":
                    W[1 - f2] = apex
                else:
                    W[f2] = apex
            else:
                f2 = rng.randrange(t + 1)
                perm = list(shared)
                rng.shuffle(perm)
                W = np.zeros((t + 1, g))
                if name == "interval":
                    W[f2] = perm[0]
                    W[1 - f2] = apex
                else:
                    it = iter(perm)
                    for v in range(t + 1):
                        W[v] = apex if v == f2 else next(it)
            E = (W[1:] - W[0]).T
            if np.linalg.cond(E) > 30 or math.sqrt(abs(np.linalg.det(E.T @ E))) < 0.1:
                continue
            # apex must be on the other side (non-manifold) - check with the plus-side normal
            if g == t:
                n = plus.geo(_CB)("FacetNormal").real
                if float(n @ (apex - shared[0])) <= 0.05:
                    continue
            K = np.linalg.pinv(E)
            xp = V[0] + (V[1:] - V[0]).T @ plus.X
            X2 = K @ (xp - W[0])
            orient = rng.choice([1, -1]) if g > t else 1
            return Side(name, W, orient, f2, X2)
        raise Unsupported("could not generate a neighbour cell")

    # -- access ------------------------------------------------------------------------
    def side(self, s):
        return self.sides[s or "+"]

    def resolve(self, f):
        while f in self.alias:
            f = self.alias[f]
        return f

    def field(self, f, sidename):
        """Reference polynomial field of form argument f on a side."""
        f = self.resolve(f)
        key = (f, sidename)
        if key not in self.fields:
            e = f.ufl_element()
            degs = []
            for kind, rshape, deg, cont in element_leaves(e):
                degs.extend([deg] * int(np.prod(rshape, dtype=int)))
            self.fields[key] = PolyField(self.rng, self.tdim, degs, self.complex_mode)
        return self.fields[key]

    def jump_field(self, f):
        f = self.resolve(f)
        if f not in self.qfields:
            e = f.ufl_element()
            degs = []
            for kind, rshape, deg, cont in element_leaves(e):
                degs.extend([max(deg - 1, 0)] * int(np.prod(rshape, dtype=int)))
            self.qfields[f] = PolyField(self.rng, self.tdim, degs, self.complex_mode)
        return self.qfields[f]

    def constant(self, c):
        c = self.resolve(c)
        if c not in self.constants:
            shape = c.ufl_shape
            arr = np.zeros(shape, dtype=complex)
            for idx in np.ndindex(shape):
                re = 0
                while re == 0:
                    re = self.rng.randint(-16, 16) / 8
                im = (self.rng.randint(-16, 16) / 8) if self.complex_mode else 0.0
                arr[idx] = complex(re, im)
            self.constants[c] = arr
        return self.constants[c]

    def set_field(self, f, sidename, polyfield):
        self.fields[(self.resolve(f), sidename)] = polyfield

    def describe(self):
        d = {
            "cell": self.cellname,
            "gdim": self.gdim,
            "itype": self.itype,
            "complex": self.complex_mode,
            "weight": self.weight,
        }
        for k, s in self.sides.items():
            d["side" + k] = {
                "verts": s.verts.tolist(),
                "X": s.X.tolist(),
                "facet": s.facet,
                "orientation": s.orientation,
            }
        return d


_CB = CBackend()


class CurvedWorld(World):
    """One cell of a NON-AFFINE coordinate map  x(X) = x0 + A X + 1/2 Q X X  (a P2 coordinate element), a point in it, and
    fields that are polynomials in the REFERENCE coordinates (so they are not polynomials in x).

    Cell integrals with tdim == gdim only.  Geometry known to the interpreter: SpatialCoordinate, CellCoordinate, Jacobian,
    JacobianInverse, JacobianDeterminant (all depend on the point); everything else is Unsupported here.
    """

    curved = True

    def __init__(self, rng, cellname, gdim, complex_mode=False, seed_note=None):
        super().__init__(rng, cellname, gdim, "cell", complex_mode, seed_note=seed_note)
        t = self.tdim
        if t != gdim or t == 0:
            raise Unsupported("curved world needs tdim == gdim >= 1")
        s = self.sides["+"]
        self.x0 = s.verts[0].copy()
        self.A = (s.verts[1:] - s.verts[0]).T.copy()  # (g, t)
        RV = np.array(REF_VERTS[cellname], dtype=float).reshape(t + 1, t)
        probes = [RV[k] for k in range(t + 1)] + [(RV[a] + RV[b]) / 2 for a, b in itertools.combinations(range(t + 1), 2)] + [s.X]
        detA = float(np.linalg.det(self.A))
        amp = float(np.max(np.abs(self.A)))
        for attempt in range(200):
            Q = np.zeros((gdim, t, t))
            for g_ in range(gdim):
                for a in range(t):
                    for b in range(a, t):
                        v = rng.randint(-4, 4) / 8 * min(1.0, amp) * (0.5 if attempt > 50 else 1.0)
                        Q[g_, a, b] = Q[g_, b, a] = v
            if not np.any(Q):
                continue
            ok = True
            for X in probes:
                dj = float(np.linalg.det(self.A + Q @ X))
                if dj * detA <= 0 or abs(dj) < 0.3 * abs(detA):
                    ok = False
                    break
            if ok and np.linalg.cond(self.A + Q @ s.X) < 40:
                break
        else:
            raise Unsupported("could not generate a curved cell")
        self.Q = Q
        self.x = self.x0 + self.A @ s.X + 0.5 * np.einsum("gtu,t,u->g", Q, s.X, s.X)
