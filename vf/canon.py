"""Canon: a deliberately naive, full-fidelity canonical serialiser of UFL objects.

Independent of __eq__, __hash__, repr(), str() of expressions and of signature.py: it walks
the *tree* (no DAG sharing), writes class names and every datum of every terminal at full
precision and returns nested tuples.  Two objects have the same compiled meaning iff their
canons (mode 'rel') are equal.

modes
  'abs'   counts of coefficients / constants / labels / indices / mesh ids are kept
  'rel'   Counted terminals (per class) and meshes are renumbered by the relative order of
          their counts, indices by first occurrence in the pre-order walk
  'anon'  like 'rel' but indices and labels are erased (used by C29: "distinguishable
          without comparing index or label numbers")
"""

import numbers

import numpy as np


def canon_value(v):
    """Canonical form of plain python / numpy data (metadata values, subdomain ids)."""
    if isinstance(v, bool) or v is None:
        return ("py", repr(v))
    if isinstance(v, numbers.Integral) and not isinstance(v, np.generic):
        return ("int", int(v))
    if isinstance(v, float):
        return ("float", float(v).hex())
    if isinstance(v, complex):
        return ("complex", v.real.hex(), v.imag.hex())
    if isinstance(v, str):
        return ("str", v)
    if isinstance(v, bytes):
        return ("bytes", v.hex())
    if isinstance(v, np.ndarray):
        a = np.ascontiguousarray(v)
        if a.dtype == object:
            return ("ndarray-object", a.shape, tuple(canon_value(x) for x in a.ravel().tolist()))
        return ("ndarray", str(a.dtype), a.shape, a.tobytes().hex())
    if isinstance(v, np.generic):
        return ("npscalar", str(v.dtype), v.tobytes().hex())
    if isinstance(v, dict):
        return ("dict", tuple(sorted(((canon_value(k), canon_value(x)) for k, x in v.items()), key=repr)))
    if isinstance(v, (list, tuple)):
        return (type(v).__name__, tuple(canon_value(x) for x in v))
    if isinstance(v, (set, frozenset)):
        return ("set", tuple(sorted((canon_value(x) for x in v), key=repr)))
    return ("obj", type(v).__name__, repr(v))


class Canon:
    def __init__(self, mode="rel"):
        self.mode = mode
        self.idx = {}
        self.defer_zero = False
        self.pending = []
        self.counted = {}  # (classname) -> {count: rank}
        self.meshes = {}

    # ---- collection pass for relative numbering
    def _collect(self, o, seen):
        from ufl.core.expr import Expr
        from ufl.form import BaseForm, Form
        from ufl.integral import Integral

        if id(o) in seen:
            return
        seen.add(id(o))
        tn = type(o).__name__
        if getattr(o, "_ufl_is_terminal_", False):
            tn = getattr(getattr(o, "_ufl_class_", None), "__name__", tn)  # user subclasses count as their UFL class
        if isinstance(o, Form):
            for itg in o.integrals():
                self._collect(itg, seen)
            return
        if isinstance(o, Integral):
            self._collect_domain(o.ufl_domain())
            self._collect(o.integrand(), seen)
            return
        if tn in ("Coefficient", "Constant", "Cofunction", "Label"):
            self.counted.setdefault(tn, {})[o.count()] = None
        if hasattr(o, "ufl_function_space") and tn in ("Coefficient", "Argument", "Cofunction", "Coargument"):
            self._collect_space(o.ufl_function_space())
        if tn == "Constant":
            self._collect_domain(o._ufl_domain if hasattr(o, "_ufl_domain") else o.ufl_domain())
        if tn == "Matrix":
            for s in o.ufl_function_spaces():
                self._collect_space(s)
        if hasattr(o, "_domain") and tn not in ("Coefficient", "Argument"):
            self._collect_domain(o._domain)
        if isinstance(o, BaseForm) and not isinstance(o, Expr):
            for sub in _baseform_children(o):
                self._collect(sub, seen)
        if isinstance(o, Expr):
            for op in o.ufl_operands:
                self._collect(op, seen)
            if tn in ("ExternalOperator", "Interpolate"):
                self._collect_space(o.ufl_function_space())
                for s in o.argument_slots():
                    self._collect(s, seen)

    def _collect_space(self, s):
        tn = type(s).__name__
        if tn == "MixedFunctionSpace":
            for x in s.ufl_sub_spaces():
                self._collect_space(x)
            return
        d = getattr(s, "_ufl_domain", None)
        if d is None and hasattr(s, "ufl_domain"):
            try:
                d = s.ufl_domain()
            except Exception:
                d = None
        self._collect_domain(d)

    def _collect_domain(self, d):
        if d is None:
            return
        tn = type(d).__name__
        if tn == "MeshSequence":
            for m in d.meshes:
                self._collect_domain(m)
            return
        if hasattr(d, "ufl_id"):
            self.meshes[d.ufl_id()] = None

    def _finalise(self):
        if self.mode == "abs":
            for tab in self.counted.values():
                for c in tab:
                    tab[c] = c
            for k in self.meshes:
                self.meshes[k] = k
        else:
            for tab in self.counted.values():
                for r, c in enumerate(sorted(tab)):
                    tab[c] = r
            for r, k in enumerate(sorted(self.meshes)):
                self.meshes[k] = r

    # ---- serialisation
    def domain(self, d):
        if d is None:
            return None
        tn = type(d).__name__
        if tn == "MeshSequence":
            return ("MeshSequence", tuple(self.domain(m) for m in d.meshes))
        num = self.meshes.get(d.ufl_id(), d.ufl_id() if self.mode == "abs" else "?")
        ce = d.ufl_coordinate_element() if hasattr(d, "ufl_coordinate_element") else None
        extra = ()
        if hasattr(d, "_ufl_cargo") and d._ufl_cargo is not None:
            extra = ("cargo", repr(d._ufl_cargo))
        return (tn, num, repr(ce), extra)

    def space(self, s):
        if s is None:
            return None
        tn = type(s).__name__
        if tn == "MixedFunctionSpace":
            return (tn, tuple(self.space(x) for x in s.ufl_sub_spaces()))
        label = getattr(s, "_label", "")
        try:
            dom = s.ufl_domain()
        except Exception:
            dom = getattr(s, "_ufl_domain", None)
        try:
            el = repr(s.ufl_element())
        except Exception:
            el = None
        return (tn, self.domain(dom), el, label)

    def index(self, i):
        if self.mode == "abs":
            return ("i", i.count())
        if self.mode == "anon":
            return ("i",)
        c = i.count()
        if c not in self.idx:
            self.idx[c] = len(self.idx)
        return ("i", self.idx[c])

    def fi(self, counts):
        if self.mode == "abs":
            return tuple(counts)
        if self.mode == "anon":
            return len(tuple(counts))
        out = []
        for c in counts:
            if c not in self.idx:
                self.idx[c] = len(self.idx)
            out.append(self.idx[c])
        return tuple(out)

    def count(self, tn, c):
        return self.counted.get(tn, {}).get(c, c)

    def expr(self, o):
        tn = type(o).__name__
        if o._ufl_is_terminal_:
            # user subclasses of Coefficient / Constant / ... mean what their UFL class means
            return self.terminal(o, getattr(getattr(o, "_ufl_class_", None), "__name__", tn))
        ops = tuple(self.expr(x) for x in o.ufl_operands)
        extra = ()
        if tn in ("ExternalOperator", "Interpolate"):
            extra = (
                ("space", self.space(o.ufl_function_space())),
                ("derivatives", tuple(o.derivatives) if o.derivatives is not None else None),
                ("slots", tuple(self.any(s) for s in o.argument_slots())),
            )
        return (tn, ops, extra)

    def terminal(self, o, tn):
        if tn == "MultiIndex":
            out = []
            for i in o:
                if type(i).__name__ == "FixedIndex":
                    out.append(("fixed", int(i)))
                else:
                    out.append(self.index(i))
            return (tn, tuple(out))
        if tn in ("IntValue",):
            return (tn, int(o._value))
        if tn in ("FloatValue", "RealValue"):
            return (tn, float(o._value).hex())
        if tn == "ComplexValue":
            v = complex(o._value)
            return (tn, v.real.hex(), v.imag.hex())
        if tn == "Zero":
            if self.mode == "rel":
                # a Zero lists its free indices sorted by count, which is no occurrence order: its indices get
                # their relative numbers from their occurrences elsewhere (first pass) and are listed as a set
                pairs = list(zip(o.ufl_free_indices, o.ufl_index_dimensions))
                if self.defer_zero:
                    self.pending.extend(p for p in pairs if p[0] not in self.idx)
                    return (tn, tuple(o.ufl_shape), "deferred")
                for c, d in sorted(pairs, key=lambda t: (t[1], t[0])):
                    if c not in self.idx:  # no first pass was run (direct use of the class)
                        self.idx[c] = len(self.idx)
                return (tn, tuple(o.ufl_shape), tuple(sorted((self.idx[c], d) for c, d in pairs)))
            return (tn, tuple(o.ufl_shape), self.fi(o.ufl_free_indices), tuple(o.ufl_index_dimensions))
        if tn in ("Identity", "PermutationSymbol"):
            return (tn, tuple(o.ufl_shape))
        if tn == "Label":
            if self.mode == "anon":
                return (tn,)
            return (tn, self.count(tn, o.count()))
        if tn in ("Coefficient", "Cofunction"):
            return (tn, self.count(tn, o.count()), self.space(o.ufl_function_space()))
        if tn in ("Argument", "Coargument"):
            return (tn, o.number(), canon_value(o.part()), self.space(o.ufl_function_space()))
        if tn == "Constant":
            return (tn, self.count(tn, o.count()), tuple(o.ufl_shape), self.domain(o._ufl_domain))
        if hasattr(o, "_domain"):
            return (tn, self.domain(o._domain))
        return (tn, "repr", repr(o))

    def integral(self, itg):
        return (
            "Integral",
            itg.integral_type(),
            self.domain(itg.ufl_domain()),
            canon_value(itg.subdomain_id()),
            canon_value(itg.metadata()),
            canon_value(itg.subdomain_data()) if not hasattr(itg.subdomain_data(), "ufl_id") else ("sd", repr(itg.subdomain_data())),
            self.expr(itg.integrand()),
        )

    def any(self, o):
        from ufl.core.expr import Expr
        from ufl.form import BaseForm, Form
        from ufl.integral import Integral

        if isinstance(o, Form):
            return ("Form", tuple(self.integral(i) for i in o.integrals()))
        if isinstance(o, Integral):
            return self.integral(o)
        if isinstance(o, Expr):
            return self.expr(o)
        if isinstance(o, BaseForm):
            tn = type(o).__name__
            if tn in ("Cofunction", "Coargument"):
                return self.terminal(o, tn)
            if tn == "Matrix":
                return (tn, self.count(tn, o.count()) if self.mode == "abs" else "m", tuple(self.space(s) for s in o.ufl_function_spaces()))
            if tn == "FormSum":
                return (tn, tuple((self.any(c), self.any(w) if hasattr(w, "_ufl_is_terminal_") else canon_value(w)) for c, w in zip(o.components(), o.weights())))
            if tn == "ZeroBaseForm":
                return (tn, tuple(self.any(a) for a in o._arguments))
            return (tn, tuple(self.any(c) for c in _baseform_children(o)))
        return canon_value(o)


def _baseform_children(o):
    tn = type(o).__name__
    if tn == "FormSum":
        return list(o.components())
    if tn == "Action":
        return [o.left(), o.right()]
    if tn == "Adjoint":
        return [o.form()]
    if tn == "ZeroBaseForm":
        return list(o._arguments)
    return list(getattr(o, "ufl_operands", ()))


def _number_indices_first(c, objs):
    """'rel' mode, first pass: number every index by its first occurrence outside the index lists of Zeros."""
    c.defer_zero = True
    for o in objs:
        c.any(o)
    for cnt, dim in sorted(set(c.pending), key=lambda t: (t[1], t[0])):
        if cnt not in c.idx:
            c.idx[cnt] = len(c.idx)
    c.defer_zero = False


def canon(o, mode="rel"):
    c = Canon(mode)
    c._collect(o, set())
    c._finalise()
    if mode == "rel":
        _number_indices_first(c, [o])
    return c.any(o)


def canon_many(objs, mode="rel"):
    """Canon of several objects under one common renumbering."""
    c = Canon(mode)
    seen = set()
    for o in objs:
        c._collect(o, seen)
    c._finalise()
    if mode == "rel":
        _number_indices_first(c, objs)
    return tuple(c.any(o) for o in objs)


def tree_size(o):
    n = 1
    for x in getattr(o, "ufl_operands", ()):
        n += tree_size(x)
    return n
