"""In-process histories for C12: forms that SHARE objects (function spaces, meshes, coefficients).

The multi-process histories of vf/c12_procs.py build every recipe from objects of its own.  State that one form's
signature computation leaves behind on an object which another form also uses is out of their reach, so this probe
builds a small family of forms over shared objects twice, in the same creation order, and asks for the signature of
one member

* alone                                   (history "alone"),
* after the real code has observed another member of the family (history "after:<operation>").

Both signatures must be equal: the form was built in the same way both times.  Families: one mesh, several meshes
with ordinary spaces, a mixed space on a MeshSequence, a MixedFunctionSpace; each family also contains sums of its
members, which share the members' Integral objects.
"""

import ufl
from ufl.algorithms import compute_form_data
from ufl.algorithms.check_arities import ArityMismatch
from ufl.algorithms.signature import compute_form_signature as _cfs
from ufl.cell import CellSequence
from ufl.finiteelement import AbstractFiniteElement
from ufl.pullback import MixedPullback, identity_pullback
from ufl.sobolevspace import H1


class El(AbstractFiniteElement):
    """Minimal directly specified element (same idea as the repository's test/utils.py)."""

    def __init__(self, cell, degree, shape=(), subs=()):
        self._cell = ufl.Cell(cell) if isinstance(cell, str) else cell
        self._degree, self._shape = degree, tuple(shape)
        self._subs = list(subs)
        self._repr = f"El({self._cell!r}, {degree}, {self._shape}, {self._subs!r})"
        self._pullback = MixedPullback(self) if subs else identity_pullback

    def __repr__(self):
        return self._repr

    def __str__(self):
        return f"<P{self._degree} on {self._cell}>"

    def __hash__(self):
        return hash(self._repr)

    def __eq__(self, other):
        return type(self) is type(other) and self._repr == other._repr

    sobolev_space = property(lambda self: H1)
    pullback = property(lambda self: self._pullback)
    embedded_superdegree = property(lambda self: self._degree)
    embedded_subdegree = property(lambda self: self._degree)
    cell = property(lambda self: self._cell)
    reference_value_shape = property(lambda self: self._shape)
    sub_elements = property(lambda self: self._subs)


def compute_form_signature(form):
    """The uncached computation behind Form.signature()."""
    return _cfs(form, form._compute_renumbering())


def _mesh(cell, gdim):
    return ufl.Mesh(El(cell, 1, (gdim,)))


def family_one_mesh(p):
    cell, g = p["cell"], p["gdim"]
    m = _mesh(cell, g)
    V, W = ufl.FunctionSpace(m, El(cell, p["d0"])), ufl.FunctionSpace(m, El(cell, p["d1"]))
    f, h = ufl.Coefficient(V), ufl.Coefficient(W)
    c = ufl.Constant(m)
    v, w = ufl.TestFunction(V), ufl.TestFunction(W)
    x = ufl.SpatialCoordinate(m)
    return [f * v * ufl.dx, h * w * ufl.dx, c * f * h * v * ufl.dx(1), f * h * ufl.dx + c * ufl.ds, x[0] * h * v * ufl.dx,
            ufl.inner(ufl.grad(f), ufl.grad(v)) * ufl.dx + h * v * ufl.ds(2)]


def family_meshes(p):
    cell, g, n = p["cell"], p["gdim"], p["nmesh"]
    ms = [_mesh(cell, g) for _ in range(n)]
    Vs = [ufl.FunctionSpace(m, El(cell, p["d0"] if k % 2 == 0 else p["d1"])) for k, m in enumerate(ms)]
    fs = [ufl.Coefficient(V) for V in Vs]
    cs = [ufl.Constant(m) for m in ms]
    forms = []
    for k in range(n):
        forms.append(fs[k] * ufl.TestFunction(Vs[k]) * ufl.dx(ms[k]))
    for k in range(n):
        l_ = (k + 1) % n
        forms.append(fs[k] * fs[l_] * cs[l_] * ufl.dx(ms[l_]))
        forms.append(cs[k] * fs[l_] * ufl.TestFunction(Vs[l_]) * ufl.dx(ms[k]) + ufl.CellVolume(ms[l_]) * fs[k] * ufl.TestFunction(Vs[l_]) * ufl.dx(ms[k]))
    return forms


def family_meshseq(p):
    cell, g, n = p["cell"], p["gdim"], p["nmesh"]
    ms = [_mesh(cell, g) for _ in range(n)]
    es = [El(cell, p["d0"] if k % 2 == 0 else p["d1"]) for k in range(n)]
    mixed = El(CellSequence(tuple(e.cell for e in es)), max(e._degree for e in es), (n,), es)
    W = ufl.FunctionSpace(ufl.MeshSequence(ms), mixed)
    Vs = [ufl.FunctionSpace(m, e) for m, e in zip(ms, es)]
    f, h = ufl.Coefficient(W), ufl.Coefficient(W)
    fsp, hsp = ufl.split(f), ufl.split(h)
    forms = []
    for k in range(n):
        forms.append(fsp[k] * ufl.TestFunction(Vs[k]) * ufl.dx(ms[k]))
    for k in range(n):
        forms.append(fsp[k] * hsp[k] * ufl.TestFunction(Vs[k]) * ufl.dx(ms[k]))
    if p["args"]:
        w = ufl.TestFunction(W)
        wsp = ufl.split(w)
        for k in range(n):
            forms.append(fsp[k] * wsp[k] * ufl.dx(ms[k]))
    return forms


def family_mixed_function_space(p):
    cell, g, n = p["cell"], p["gdim"], p["nmesh"]
    ms = [_mesh(cell, g) for _ in range(n)]
    Vs = [ufl.FunctionSpace(m, El(cell, p["d0"] if k % 2 == 0 else p["d1"])) for k, m in enumerate(ms)]
    M = ufl.MixedFunctionSpace(*Vs)
    vs = ufl.TestFunctions(M)
    fs = [ufl.Coefficient(V) for V in Vs]
    forms = []
    for k in range(n):
        forms.append(fs[k] * vs[k] * ufl.dx(ms[k]))
        forms.append(fs[k] * fs[(k + 1) % n] * vs[k] * ufl.dx(ms[k]))
    return forms


FAMILIES = {
    "one-mesh": family_one_mesh,
    "meshes": family_meshes,
    "mesh-sequence": family_meshseq,
    "mixed-function-space": family_mixed_function_space,
}


def _op_signature(a):
    a.signature()


def _op_cfs(a):
    compute_form_signature(a)


def _op_cfd(a):
    compute_form_data(a)


def _op_hash_eq(a):
    hash(a)
    bool(a.equals(a))


def _op_str_repr(a):
    str(a)
    repr(a)


OPS = {
    "signature": _op_signature,
    "compute_form_signature": _op_cfs,
    "compute_form_data": _op_cfd,
    "hash+equals": _op_hash_eq,
    "str+repr": _op_str_repr,
}


def draw(rng):
    cell, gdim = rng.choice([("triangle", 2), ("triangle", 2), ("interval", 1), ("tetrahedron", 3)])
    fam = rng.choice(["one-mesh", "meshes", "meshes", "mesh-sequence", "mesh-sequence", "mesh-sequence", "mixed-function-space"])
    d0 = rng.choice([1, 2, 3])
    return {"family": fam, "cell": cell, "gdim": gdim, "nmesh": rng.choice([2, 2, 3]), "d0": d0, "d1": rng.choice([d for d in (1, 2, 3) if d != d0]),
            "args": rng.random() < 0.5, "shift": rng.choice([0, 0, 1, 3, 7, 10, 95]), "ops": rng.sample(sorted(OPS), rng.choice([1, 1, 2])),
            "pick": rng.random(), "pick2": rng.random()}


def _burn(p):
    for _ in range(p["shift"]):
        ufl.Coefficient(ufl.FunctionSpace(_mesh("triangle", 2), El("triangle", 1)))
        ufl.Constant(_mesh("triangle", 2))


def with_sums(make):
    """The family plus sums of its members: Form.__add__ puts the very same Integral objects into the sum, so a form
    and its pieces share objects (state left on an Integral by one signature computation is seen by the other)."""

    def made(p):
        forms = list(make(p))
        n = len(forms)
        if n >= 2:
            forms.append(forms[0] + forms[1])
            forms.append(forms[n - 1] + forms[0])
        if n >= 3:
            forms.append(forms[2] + forms[1] + forms[0])
            forms.append(sum(forms[1:3], forms[n - 1]))
        return forms

    return made


def run(p):
    """Returns (status, detail).  status: 'equal' | 'differs' | 'rejected'."""
    make = with_sums(FAMILIES[p["family"]])
    try:
        forms = make(p)
        nb = len(forms)
        b = int(p["pick"] * nb) % nb
        a = (b + 1 + int(p["pick2"] * (nb - 1))) % nb
        s_alone = forms[b].signature()
        s_alone_cfs = compute_form_signature(forms[b])
    except Exception as ex:
        return "rejected", f"alone: {type(ex).__name__}: {str(ex)[:100]}"
    _burn(p)
    forms = make(p)
    done = []
    for name in p["ops"]:
        try:
            OPS[name](forms[a])
            done.append(name)
        except (Exception, ArityMismatch):
            # an operation the real code refuses for this family (e.g. compute_form_data on several meshes):
            # whatever it did before refusing is part of the history all the same
            done.append(name + "(raised)")
    try:
        s_after = forms[b].signature()
        s_after_cfs = compute_form_signature(forms[b])
    except Exception as ex:
        return "differs", {"what": f"signature raises after the history: {type(ex).__name__}: {str(ex)[:100]}", "a": a, "b": b, "done": done}
    if s_alone == s_after and s_alone_cfs == s_after_cfs and s_alone == s_alone_cfs:
        return "equal", {"a": a, "b": b, "done": done, "nforms": nb}
    return "differs", {"what": "signature differs", "a": a, "b": b, "done": done, "alone": s_alone[:16], "after": s_after[:16],
                       "alone_recomputed": s_alone_cfs[:16], "after_recomputed": s_after_cfs[:16], "form_b": str(forms[b])[:300], "form_a": str(forms[a])[:300]}
