"""Child interpreter of the C13 cross-process pickle history.

  python -m vf.c13_child dump PATH SEED N   build N objects with the real ufl, use them the way a program
                                            does (hash them / put them in a dict), pickle them to PATH
  python -m vf.c13_child load PATH          read the pickles in *this* interpreter (other string-hash seed),
                                            rebuild each object from its repr and compare; JSON on stdout
"""

import hashlib
import json
import pickle
import random
import sys
import warnings

import vf  # noqa: F401  (bootstraps the ufl import path)

warnings.simplefilter("ignore")


def ckey(o):
    from vf.props.C13 import ckey as k

    return k(o)


def dump(path, seed, n):
    from vf.gen import Gen, Universe
    from vf.props.C13 import CONFIGS

    out = []
    for i in range(n):
        rng = random.Random(f"C13-xproc/{seed}/{i}")
        cell, gdim, itype, cplx = CONFIGS[i % len(CONFIGS)]
        U = Universe(rng, cell, gdim, itype, cplx)
        G = Gen(U, rng, cplx=cplx)
        try:
            if i % 3 == 2:
                integrand, _ = G.integrand(rng.choice([0, 1, 2]), 2)
                o = integrand * U.measure(rng.choice([None, 1]), rng.choice([None, {"quadrature_degree": 2}]), None)
            elif i % 3 == 1:
                o = G.expr(rng.choice([(), (gdim,), (2, 2)]), rng.choice([1, 2, 3]))
            else:
                # plain terminals
                o = rng.choice(
                    [
                        lambda: U.coef("P1", 0),
                        lambda: U.const((), 0),
                        lambda: U.const((2,), 0),
                        lambda: U.arg("P2", 0),
                        lambda: U.x,
                        lambda: 2.5 * U.coef("P1", 0),
                        lambda: U.coef("P1v", 0)[0],
                    ]
                )()
        except Exception:
            continue
        hashed = i % 4 != 3
        if hashed:
            {o: 1}  # noqa: B018  the object is used as a dict key: its hash gets cached
        out.append({"repr": repr(o), "hashed": hashed, "pickle": pickle.dumps(o), "ckey": ckey(o)})
    with open(path, "wb") as fh:
        pickle.dump(out, fh)


def load(path):
    from vf.props.C13 import do_eq, eval_ns

    ns = eval_ns()
    with open(path, "rb") as fh:
        recs = pickle.load(fh)
    res = []
    for r in recs:
        d = {"repr": r["repr"][:600], "hashed": r["hashed"], "digest": hashlib.sha1(r["repr"].encode()).hexdigest()[:16]}
        try:
            fresh = eval(r["repr"], ns)
        except Exception as ex:
            # eval(repr) problems are judged in the main check, not here
            continue
        try:
            if ckey(fresh) != r["ckey"]:
                continue
        except Exception:
            continue
        d["cls"] = type(fresh).__name__
        try:
            loaded = pickle.loads(r["pickle"])
            d["same_repr"] = repr(loaded) == r["repr"]
            d["same_data"] = ckey(loaded) == r["ckey"]
            d["eq_lf"] = do_eq(loaded, fresh)
            d["eq_fl"] = do_eq(fresh, loaded)
            d["hash_equal"] = hash(loaded) == hash(fresh)
            d["in_dict"] = loaded in {fresh: 1}
        except Exception as ex:
            d["error"] = f"{type(ex).__name__}: {ex}"
        res.append(d)
    json.dump(res, sys.stdout)


if __name__ == "__main__":
    if sys.argv[1] == "dump":
        dump(sys.argv[2], int(sys.argv[3]), int(sys.argv[4]))
    else:
        load(sys.argv[2])
