"""C24 helper: make scipy importable for the process under observation.

UFL's Bessel `evaluate` imports scipy.special; the repository's virtualenv has no scipy, so without this the
four Bessel operators could only ever be observed to raise.  The wheel is installed offline from the local
wheelhouse into the git-ignored helper directory (.deps/_c24_scipy) the first time it is needed.  When that is
impossible HAVE_SCIPY is False and the Bessel operators are reported as rejected (no coverage floor on them).
"""

import fcntl
import importlib
import os
import subprocess
import sys

from . import DEPS_DIR, WHEELS

TARGET = os.path.join(DEPS_DIR, "_c24_scipy")


def _try_import():
    try:
        importlib.import_module("scipy.special")
        return True
    except Exception:
        return False


def ensure_scipy():
    if _try_import():
        return True
    if os.path.isdir(os.path.join(TARGET, "scipy")):
        if TARGET not in sys.path:
            sys.path.append(TARGET)
        importlib.invalidate_caches()
        return _try_import()
    try:
        os.makedirs(DEPS_DIR, exist_ok=True)
        with open(os.path.join(DEPS_DIR, ".c24_lock"), "w") as fh:
            fcntl.flock(fh, fcntl.LOCK_EX)
            if not os.path.isdir(os.path.join(TARGET, "scipy")):
                subprocess.run(
                    [sys.executable, "-m", "pip", "install", "-q", "--no-index", "--no-deps", "--find-links", WHEELS, "--target", TARGET, "scipy"],
                    check=True, stdout=subprocess.DEVNULL, stderr=subprocess.DEVNULL, timeout=600,
                )
    except Exception:
        return False
    if TARGET not in sys.path:
        sys.path.append(TARGET)
    importlib.invalidate_caches()
    return _try_import()


HAVE_SCIPY = ensure_scipy()
