"""Nested dual numbers ("jets") over numpy arrays, generic over a numeric backend.

A jet of depth d is an array whose first d axes all have length 2: index 0 = primal part,
index 1 = coefficient of that level's epsilon (eps_k**2 = 0, distinct levels commute).
Trailing axes are ordinary tensor axes and broadcast like numpy arrays.

Backends:
  C  complex128 numpy arrays (fast path)
  MP numpy object arrays of mpmath.mpc at 50 digits (confirmation of suspected mismatches)
  Q  numpy object arrays of fractions.Fraction (exact polynomial arithmetic, C18)

All epsilons are *real* parameters (a spatial displacement, a Gateaux tau, a variable
perturbation), therefore conj/real/imag/abs act coefficient-wise and stay valid jets.
"""

import cmath
import math
from fractions import Fraction

import numpy as np

try:
    import mpmath
except Exception:  # pragma: no cover
    mpmath = None


class IllConditioned(Exception):
    pass


class OArr(np.ndarray):
    """Object-dtype arrays that stay arrays: 0-d results of arithmetic, reductions and indexing
    are returned as 0-d arrays instead of bare python objects."""

    __array_priority__ = 100

    def __array_wrap__(self, arr, context=None, return_scalar=False):
        if not isinstance(arr, OArr):
            arr = np.asarray(arr, dtype=object).view(OArr)
        return arr

    def __getitem__(self, idx):
        r = super().__getitem__(idx)
        if not isinstance(r, np.ndarray):
            o = np.empty((), dtype=object)
            o[()] = r
            return o.view(OArr)
        return r


def plain(x):
    """Plain (non-OArr) object ndarray whose elements are python scalars."""
    a = np.asarray(x, dtype=object).view(np.ndarray)
    if a.ndim == 0:
        v = a[()]
        while isinstance(v, np.ndarray):
            v = v.reshape(()).view(np.ndarray)[()]
        o = np.empty((), dtype=object)
        o[()] = v
        return o
    if a.size and isinstance(a.flat[0], np.ndarray):
        o = np.empty(a.shape, dtype=object)
        for idx in np.ndindex(a.shape):
            v = a[idx]
            while isinstance(v, np.ndarray):
                v = v.reshape(()).view(np.ndarray)[()]
            o[idx] = v
        return o
    return a


def fix(x):
    """Re-wrap object arrays that lost the OArr subclass (or degraded to a python scalar)."""
    if isinstance(x, OArr):
        return x
    if isinstance(x, np.ndarray):
        if x.dtype == object:
            return x.view(OArr)
        return x
    if isinstance(x, (int, float, complex, np.generic)):
        return x
    o = np.empty((), dtype=object)
    o[()] = x
    return o.view(OArr)


def bcast(*arrs):
    return np.broadcast_arrays(*arrs, subok=True)


def where(m, a, b):
    return fix(np.where(m, a, b))


def einsum(spec, *ops):
    return fix(np.einsum(spec, *ops))


def acopy(x):
    return fix(np.array(x, copy=True))


def broadcast_to(x, shape):
    return np.broadcast_to(x, shape, subok=True)


def trace(a, axis1, axis2):
    if a.dtype != object:
        return np.trace(a, axis1=axis1, axis2=axis2)
    n = a.shape[axis1]
    out = None
    hi, lo = max(axis1, axis2), min(axis1, axis2)
    for i in range(n):
        t = np.take(np.take(a, i, axis=hi), i, axis=lo)
        out = t if out is None else out + t
    return fix(out)


def stack(arrs, axis=0):
    return fix(np.stack(arrs, axis=axis))


class Backend:
    name = "?"

    def __init__(self):
        self.flags = set()  # conditioning flags raised during evaluations
        self.maxabs = 0.0

    def flag(self, what):
        self.flags.add(what)

    def reset(self):
        self.flags = set()
        self.maxabs = 0.0


def _cut_normalise(z):
    """Snap values that are numerically on the negative real axis onto its upper side.

    Both the input and the output of a pass are evaluated with the same convention, so
    a signed zero produced by conj() or by reordered arithmetic cannot flip a branch.
    """
    z = np.asarray(z, dtype=complex)
    re, im = z.real, z.imag
    tiny = np.abs(im) <= 1e-13 * np.maximum(np.abs(re), 1e-300)
    if np.any(tiny):
        z = np.where(tiny, re + 0j, z)
    return z


class CBackend(Backend):
    name = "complex128"
    tol_small = 1e-6

    def asarray(self, a):
        return np.array(a, dtype=complex)

    def zeros(self, shape):
        return np.zeros(shape, dtype=complex)

    def scalar(self, x):
        return complex(x)

    # -- linear algebra on plain 2D arrays
    def det(self, a):
        if a.shape == (0, 0):
            return 1.0 + 0j
        return np.linalg.det(a)

    def inv(self, a):
        return np.linalg.inv(a)

    def real_part(self, a):
        return a.real + 0j

    def imag_part(self, a):
        return a.imag + 0j

    def conj(self, a):
        return np.conj(a)

    def to_float_abs(self, a):
        return np.abs(a)

    def to_complex(self, a):
        return np.asarray(a, dtype=complex)

    def _near_cut(self, z, what):
        z = np.asarray(z)
        if z.size == 0:
            return
        re, im = z.real, z.imag
        mod = np.abs(z)
        if np.any(mod < self.tol_small):
            self.flag(what + ":small-argument")
        near = (re < 0) & (np.abs(im) > 1e-13 * mod) & (np.abs(im) < self.tol_small * np.maximum(mod, 1e-300))
        if np.any(near):
            self.flag(what + ":near-branch-cut")

    def fn(self, name, *params):
        f = getattr(self, "f_" + name)
        if params:
            return lambda x: f(x, *params)
        return f

    def f_exp(self, x):
        return np.exp(x)

    def f_ln(self, x):
        self._near_cut(x, "ln")
        return np.log(_cut_normalise(x))

    def f_sqrt(self, x):
        self._near_cut(x, "sqrt")
        return np.sqrt(_cut_normalise(x))

    def f_sin(self, x):
        return np.sin(x)

    def f_cos(self, x):
        return np.cos(x)

    def f_tan(self, x):
        return np.tan(x)

    def f_sinh(self, x):
        return np.sinh(x)

    def f_cosh(self, x):
        return np.cosh(x)

    def f_tanh(self, x):
        return np.tanh(x)

    def _unit_cut(self, x, what):
        x = np.asarray(x)
        if x.size and (np.any(np.abs(x - 1) < self.tol_small) or np.any(np.abs(x + 1) < self.tol_small)):
            self.flag(what + ":near+-1")
        if x.size and np.any((np.abs(x.real) > 1) & (np.abs(x.imag) < self.tol_small)):
            self.flag(what + ":on-branch-cut")

    def f_asin(self, x):
        self._unit_cut(x, "asin")
        return np.arcsin(x)

    def f_acos(self, x):
        self._unit_cut(x, "acos")
        return np.arccos(x)

    def f_atan(self, x):
        x = np.asarray(x)
        if x.size and np.any((np.abs(x.imag) > 1 - self.tol_small) & (np.abs(x.real) < self.tol_small)):
            self.flag("atan:near-branch-point")
        return np.arctan(x)

    def f_erf(self, x):
        x = np.asarray(x, dtype=complex)
        out = np.empty(x.shape, dtype=complex)
        for idx in np.ndindex(x.shape):
            z = x[idx]
            if z.imag == 0:
                out[idx] = math.erf(z.real)
            else:
                out[idx] = complex(mpmath.erf(mpmath.mpc(z.real, z.imag)))
        return out

    def f_powc(self, x, p):
        """x**p for a constant (python complex) exponent p."""
        p = complex(p)
        if p.imag == 0 and float(p.real).is_integer():
            n = int(p.real)
            if n < 0 and np.asarray(x).size and np.any(np.abs(x) < self.tol_small):
                self.flag("pow:small-base-negative-exponent")
            with np.errstate(all="ignore"):
                return np.asarray(x, dtype=complex) ** n
        self._near_cut(x, "pow")
        with np.errstate(all="ignore"):
            return _cut_normalise(x) ** p

    def f_bessel(self, x, kind, nu):
        x = np.asarray(x, dtype=complex)
        fun = {"J": mpmath.besselj, "Y": mpmath.bessely, "I": mpmath.besseli, "K": mpmath.besselk}[kind]
        out = np.empty(x.shape, dtype=complex)
        if kind in ("Y", "K"):
            self._near_cut(x, "bessel" + kind)
        for idx in np.ndindex(x.shape):
            z = x[idx]
            if not (np.isfinite(z.real) and np.isfinite(z.imag)) or abs(z) > 1e6:
                raise IllConditioned("bessel function of a non-finite / huge argument")
            try:
                out[idx] = complex(fun(nu, mpmath.mpc(z.real, z.imag)))
            except (ValueError, OverflowError, ZeroDivisionError) as ex:
                raise IllConditioned("bessel function: " + type(ex).__name__)
        return out

    def atan2(self, y, x):
        if np.any(np.abs(np.imag(y)) > 1e-12) or np.any(np.abs(np.imag(x)) > 1e-12):
            self.flag("atan2:complex-argument")
        yr, xr = np.real(y), np.real(x)
        if np.any((np.abs(yr) < self.tol_small) & (xr < self.tol_small)):
            self.flag("atan2:near-cut")
        return np.arctan2(yr, xr) + 0j

    def sign(self, x):
        if np.any(np.abs(np.imag(x)) > 1e-12):
            self.flag("sign:complex-argument")
        xr = np.real(x)
        if np.any(np.abs(xr) < self.tol_small):
            self.flag("sign:near-zero")
        return np.sign(xr) + 0j

    def compare(self, op, a, b):
        """Ordering / equality of primal parts; returns a bool array."""
        a = np.asarray(a)
        b = np.asarray(b)
        if op in ("lt", "le", "gt", "ge"):
            if np.any(np.abs(a.imag) > 1e-12) or np.any(np.abs(b.imag) > 1e-12):
                self.flag("compare:complex-operand")
        if np.any(np.abs(a - b) < 1e-9 * np.maximum(1.0, np.maximum(np.abs(a), np.abs(b)))):
            if op in ("eq", "ne"):
                # equality of literally identical values is robust; near-equality is not
                if np.any((a != b)):
                    self.flag("compare:nearly-equal")
            else:
                self.flag("compare:nearly-equal")
        ar, br = a.real, b.real
        return {
            "lt": ar < br,
            "le": ar <= br,
            "gt": ar > br,
            "ge": ar >= br,
            "eq": a == b,
            "ne": a != b,
        }[op]

    def check_finite(self, arr, what):
        if not np.all(np.isfinite(arr)):
            self.flag("nonfinite:" + what)

    def track(self, arr):
        if arr.size:
            with np.errstate(all="ignore"):
                m = float(np.max(np.abs(arr)))
            if m == m and m > self.maxabs:
                self.maxabs = m

    def small_divisor(self, arr):
        if arr.size and np.any(np.abs(arr) < self.tol_small):
            self.flag("division:small-divisor")


class MPBackend(Backend):
    """50-digit complex arithmetic through mpmath in numpy object arrays."""

    name = "mpmath50"
    tol_small = 1e-6

    def __init__(self, dps=50):
        super().__init__()
        self.mp = mpmath.mp.clone()
        self.mp.dps = dps
        _orig_convert = self.mp.convert

        def _convert(x, strings=True):
            # 0-d numpy object arrays (OArr) unwrap to the mp number they hold
            while isinstance(x, np.ndarray) and x.ndim == 0:
                x = x.view(np.ndarray)[()]
            return _orig_convert(x, strings)

        self.mp.convert = _convert
        self._mpc = self.mp.mpc
        self._v = {}

    def scalar(self, x):
        if isinstance(x, np.ndarray):
            x = x.reshape(()).view(np.ndarray)[()]
        if isinstance(x, (self.mp.mpf, self.mp.mpc)):
            return x
        if isinstance(x, Fraction):
            return self.mp.mpf(x.numerator) / self.mp.mpf(x.denominator)
        x = complex(x)
        return self._mpc(x.real, x.imag)

    def asarray(self, a):
        a = np.asarray(a)
        out = np.empty(a.shape, dtype=object)
        for idx in np.ndindex(a.shape):
            out[idx] = self.scalar(a[idx])
        return out.view(OArr)

    def zeros(self, shape):
        out = np.empty(shape, dtype=object)
        out.fill(self._mpc(0))
        return out.view(OArr)

    def _vec(self, f):
        if f not in self._v:
            self._v[f] = np.frompyfunc(f, 1, 1)
        return self._v[f]

    def _apply(self, f, x):
        x = plain(x)
        out = np.empty(x.shape, dtype=object)
        for idx in np.ndindex(x.shape):
            out[idx] = f(x[idx])
        return out.view(OArr)

    def det(self, a):
        if a.shape == (0, 0):
            return self._mpc(1)
        return self.mp.det(self.mp.matrix(plain(a).tolist()))

    def inv(self, a):
        m = self.mp.inverse(self.mp.matrix(plain(a).tolist()))
        out = np.empty(a.shape, dtype=object)
        for i in range(a.shape[0]):
            for j in range(a.shape[1]):
                out[i, j] = m[i, j]
        return out.view(OArr)

    def real_part(self, a):
        return self._apply(lambda z: self._mpc(self.mp.re(z)), a)

    def imag_part(self, a):
        return self._apply(lambda z: self._mpc(self.mp.im(z)), a)

    def conj(self, a):
        return self._apply(self.mp.conj, a)

    def to_float_abs(self, a):
        a = plain(a)
        out = np.empty(a.shape, dtype=float)
        for idx in np.ndindex(a.shape):
            out[idx] = float(abs(a[idx]))
        return out

    def to_complex(self, a):
        a = plain(a)
        out = np.empty(a.shape, dtype=complex)
        for idx in np.ndindex(a.shape):
            out[idx] = complex(a[idx])
        return out

    def _norm(self, z):
        # same convention as the fast path: values numerically on the negative real axis
        # are evaluated from above
        mp = self.mp
        z = self._mpc(z)
        if abs(mp.im(z)) <= mp.mpf(10) ** (-(mp.dps - 8)) * max(abs(mp.re(z)), mp.mpf(10) ** (-300)):
            return self._mpc(mp.re(z), 0)
        return z

    def _near_cut(self, x, what):
        x = plain(x)
        for idx in np.ndindex(np.shape(x)):
            z = complex(x[idx])
            if abs(z) < self.tol_small:
                self.flag(what + ":small-argument")
            elif z.real < 0 and 1e-13 * abs(z) < abs(z.imag) < self.tol_small * abs(z):
                self.flag(what + ":near-branch-cut")

    def fn(self, name, *params):
        f = getattr(self, "f_" + name)
        if params:
            return lambda x: f(x, *params)
        return f

    def f_exp(self, x):
        return self._apply(self.mp.exp, x)

    def f_ln(self, x):
        self._near_cut(x, "ln")
        return self._apply(lambda z: self.mp.log(self._norm(z)), x)

    def f_sqrt(self, x):
        self._near_cut(x, "sqrt")
        return self._apply(lambda z: self.mp.sqrt(self._norm(z)), x)

    def f_sin(self, x):
        return self._apply(self.mp.sin, x)

    def f_cos(self, x):
        return self._apply(self.mp.cos, x)

    def f_tan(self, x):
        return self._apply(self.mp.tan, x)

    def f_sinh(self, x):
        return self._apply(self.mp.sinh, x)

    def f_cosh(self, x):
        return self._apply(self.mp.cosh, x)

    def f_tanh(self, x):
        return self._apply(self.mp.tanh, x)

    def f_asin(self, x):
        return self._apply(self.mp.asin, x)

    def f_acos(self, x):
        return self._apply(self.mp.acos, x)

    def f_atan(self, x):
        return self._apply(self.mp.atan, x)

    def f_erf(self, x):
        return self._apply(self.mp.erf, x)

    def f_powc(self, x, p):
        p = complex(p)
        if p.imag == 0 and float(p.real).is_integer():
            n = int(p.real)
            return self._apply(lambda z: self._mpc(z) ** n, x)
        self._near_cut(x, "pow")
        pp = self._mpc(p.real, p.imag)
        return self._apply(lambda z: self.mp.power(self._norm(z), pp), x)

    def f_bessel(self, x, kind, nu):
        fun = {"J": self.mp.besselj, "Y": self.mp.bessely, "I": self.mp.besseli, "K": self.mp.besselk}[kind]
        return self._apply(lambda z: fun(nu, z), x)

    def atan2(self, y, x):
        y = np.asarray(y, dtype=object)
        x = np.asarray(x, dtype=object)
        y, x = bcast(y, x)
        out = np.empty(y.shape, dtype=object)
        for idx in np.ndindex(y.shape):
            out[idx] = self._mpc(self.mp.atan2(self.mp.re(y[idx]), self.mp.re(x[idx])))
        return out

    def sign(self, x):
        return self._apply(lambda z: self._mpc(self.mp.sign(self.mp.re(z))), x)

    def compare(self, op, a, b):
        a, b = bcast(np.asarray(a, dtype=object), np.asarray(b, dtype=object))
        out = np.empty(a.shape, dtype=bool)
        re = self.mp.re
        for idx in np.ndindex(a.shape):
            x, y = a[idx], b[idx]
            if abs(complex(x) - complex(y)) < 1e-9 * max(1.0, abs(complex(x)), abs(complex(y))):
                if op in ("eq", "ne"):
                    if x != y:
                        self.flag("compare:nearly-equal")
                else:
                    self.flag("compare:nearly-equal")
            out[idx] = {
                "lt": re(x) < re(y),
                "le": re(x) <= re(y),
                "gt": re(x) > re(y),
                "ge": re(x) >= re(y),
                "eq": x == y,
                "ne": x != y,
            }[op]
        return out

    def check_finite(self, arr, what):
        arr = plain(arr)
        for idx in np.ndindex(arr.shape):
            if not self.mp.isfinite(arr[idx]):
                self.flag("nonfinite:" + what)
                return

    def track(self, arr):
        pass

    def small_divisor(self, arr):
        arr = plain(arr)
        for idx in np.ndindex(arr.shape):
            if abs(complex(arr[idx])) < self.tol_small:
                self.flag("division:small-divisor")
                return


class QBackend(Backend):
    """Exact rational arithmetic (polynomial expressions only)."""

    name = "fraction"

    def scalar(self, x):
        if isinstance(x, np.ndarray):
            x = x.reshape(()).view(np.ndarray)[()]
        if isinstance(x, Fraction):
            return x
        if isinstance(x, complex):
            if x.imag != 0:
                raise IllConditioned("complex value in rational backend")
            x = x.real
        return Fraction(x)

    def asarray(self, a):
        a = np.asarray(a)
        out = np.empty(a.shape, dtype=object)
        for idx in np.ndindex(a.shape):
            out[idx] = self.scalar(a[idx])
        return out.view(OArr)

    def zeros(self, shape):
        out = np.empty(shape, dtype=object)
        out.fill(Fraction(0))
        return out.view(OArr)

    def det(self, a):
        n = a.shape[0]
        if n == 0:
            return Fraction(1)
        a = plain(a)
        m = [[Fraction(a[i, j]) for j in range(n)] for i in range(n)]
        det = Fraction(1)
        for c in range(n):
            p = next((r for r in range(c, n) if m[r][c] != 0), None)
            if p is None:
                return Fraction(0)
            if p != c:
                m[c], m[p] = m[p], m[c]
                det = -det
            det *= m[c][c]
            for r in range(c + 1, n):
                f = m[r][c] / m[c][c]
                for k in range(c, n):
                    m[r][k] -= f * m[c][k]
        return det

    def inv(self, a):
        n = a.shape[0]
        a = plain(a)
        m = [[Fraction(a[i, j]) for j in range(n)] + [Fraction(int(i == j)) for j in range(n)] for i in range(n)]
        for c in range(n):
            p = next((r for r in range(c, n) if m[r][c] != 0), None)
            if p is None:
                raise IllConditioned("singular matrix")
            m[c], m[p] = m[p], m[c]
            piv = m[c][c]
            m[c] = [v / piv for v in m[c]]
            for r in range(n):
                if r != c and m[r][c] != 0:
                    f = m[r][c]
                    m[r] = [v - f * w for v, w in zip(m[r], m[c])]
        out = np.empty((n, n), dtype=object)
        for i in range(n):
            for j in range(n):
                out[i, j] = m[i][n + j]
        return out.view(OArr)

    def real_part(self, a):
        return a

    def imag_part(self, a):
        return self.zeros(np.shape(a))

    def conj(self, a):
        return a

    def to_float_abs(self, a):
        a = plain(a)
        out = np.empty(a.shape, dtype=float)
        for idx in np.ndindex(a.shape):
            out[idx] = abs(float(a[idx]))
        return out

    def to_complex(self, a):
        a = plain(a)
        out = np.empty(a.shape, dtype=complex)
        for idx in np.ndindex(a.shape):
            out[idx] = complex(float(a[idx]))
        return out

    def fn(self, name, *params):
        if name == "powc":
            p = complex(params[0])
            if p.imag == 0 and float(p.real).is_integer():
                n = int(p.real)
                return lambda x: fix(np.asarray(x, dtype=object)) ** n
        raise IllConditioned("non-polynomial function %s in rational backend" % name)

    def atan2(self, y, x):
        raise IllConditioned("atan2 in rational backend")

    def sign(self, x):
        x = plain(x)
        out = np.empty(x.shape, dtype=object)
        for idx in np.ndindex(x.shape):
            out[idx] = Fraction((x[idx] > 0) - (x[idx] < 0))
        return out.view(OArr)

    def compare(self, op, a, b):
        a, b = bcast(np.asarray(a, dtype=object), np.asarray(b, dtype=object))
        out = np.empty(a.shape, dtype=bool)
        for idx in np.ndindex(a.shape):
            x, y = a[idx], b[idx]
            out[idx] = {"lt": x < y, "le": x <= y, "gt": x > y, "ge": x >= y, "eq": x == y, "ne": x != y}[op]
        return out

    def check_finite(self, arr, what):
        pass

    def track(self, arr):
        pass

    def small_divisor(self, arr):
        arr = plain(arr)
        for idx in np.ndindex(arr.shape):
            if arr[idx] == 0:
                raise IllConditioned("division by zero")


# ---------------------------------------------------------------------------------------
# jet algebra (backend independent; B supplies elementwise primal functions)


def jconst(B, a, d):
    """Constant jet from a plain array."""
    a = B.asarray(a)
    out = B.zeros((2,) * d + a.shape)
    out[(0,) * d] = a
    return out


def primal(x, d):
    return x[(0,) * d]


def jaddc(B, x, c, d):
    """x + c for a plain scalar constant c (added to the primal part only)."""
    out = acopy(x)
    out[(0,) * d] = out[(0,) * d] + B.scalar(c)
    return out


def mul(x, y, d):
    if d == 0:
        return x * y
    a, b = x[0], x[1]
    c, e = y[0], y[1]
    p = mul(a, c, d - 1)
    q = mul(a, e, d - 1) + mul(b, c, d - 1)
    p, q = bcast(p, q)
    return stack([p, q])


def lift(B, f, fp):
    """Lift elementwise f with derivative jet-function fp(x, d) to jets."""

    def g(x, d):
        if d == 0:
            return f(x)
        x0 = x[0]
        return stack([g(x0, d - 1), mul(fp(x0, d - 1), x[1], d - 1)])

    return g


def jrecip(B, x, d):
    def f(a):
        B.small_divisor(a)
        with np.errstate(all="ignore"):
            return 1 / a

    def fp(a, dd):
        r = jrecip(B, a, dd)
        return -mul(r, r, dd)

    return lift(B, f, fp)(x, d)


def jdiv(B, x, y, d):
    return mul(x, jrecip(B, y, d), d)


def is_const_jet(x, d):
    """True if all epsilon coefficients vanish."""
    if d == 0:
        return True
    idx = [(0,) * d]
    arr = x
    flat = arr.reshape((2**d,) + arr.shape[d:])
    rest = flat[1:]
    if rest.dtype == object:
        return all(v == 0 for v in plain(rest).ravel())
    return not np.any(rest)


def jpowc(B, x, p, d):
    """x**p with constant python exponent p."""
    p = complex(p)
    if p == 0:
        return jconst(B, np.ones(x.shape[d:]), d)
    if p.imag == 0 and float(p.real).is_integer() and 0 < p.real <= 64:
        n = int(p.real)
        # exponentiation by squaring with jet products (exact for polynomials)
        result = None
        base = x
        while n:
            if n & 1:
                result = base if result is None else mul(result, base, d)
            n >>= 1
            if n:
                base = mul(base, base, d)
        return result
    if p.imag == 0 and float(p.real).is_integer() and -64 <= p.real < 0:
        return jrecip(B, jpowc(B, x, -p.real, d), d)
    f = B.fn("powc", p)

    def fp(a, dd):
        return B.scalar(p) * jpowc(B, a, p - 1, dd)

    return lift(B, f, fp)(x, d)


def jexp(B, x, d):
    return lift(B, B.fn("exp"), lambda a, dd: jexp(B, a, dd))(x, d)


def jln(B, x, d):
    return lift(B, B.fn("ln"), lambda a, dd: jrecip(B, a, dd))(x, d)


def jsqrt(B, x, d):
    return lift(B, B.fn("sqrt"), lambda a, dd: B.scalar(0.5) * jrecip(B, jsqrt(B, a, dd), dd))(x, d)


def jsin(B, x, d):
    return lift(B, B.fn("sin"), lambda a, dd: jcos(B, a, dd))(x, d)


def jcos(B, x, d):
    return lift(B, B.fn("cos"), lambda a, dd: -jsin(B, a, dd))(x, d)


def jtan(B, x, d):
    def fp(a, dd):
        t = jtan(B, a, dd)
        return jaddc(B, mul(t, t, dd), 1.0, dd)

    return lift(B, B.fn("tan"), fp)(x, d)


def jsinh(B, x, d):
    return lift(B, B.fn("sinh"), lambda a, dd: jcosh(B, a, dd))(x, d)


def jcosh(B, x, d):
    return lift(B, B.fn("cosh"), lambda a, dd: jsinh(B, a, dd))(x, d)


def jtanh(B, x, d):
    def fp(a, dd):
        t = jtanh(B, a, dd)
        return jaddc(B, -mul(t, t, dd), 1.0, dd)

    return lift(B, B.fn("tanh"), fp)(x, d)


def _one_minus_sq(B, a, dd):
    return jaddc(B, -mul(a, a, dd), 1.0, dd)


def jasin(B, x, d):
    return lift(B, B.fn("asin"), lambda a, dd: jrecip(B, jsqrt(B, _one_minus_sq(B, a, dd), dd), dd))(x, d)


def jacos(B, x, d):
    return lift(B, B.fn("acos"), lambda a, dd: -jrecip(B, jsqrt(B, _one_minus_sq(B, a, dd), dd), dd))(x, d)


def jatan(B, x, d):
    return lift(B, B.fn("atan"), lambda a, dd: jrecip(B, jaddc(B, mul(a, a, dd), 1.0, dd), dd))(x, d)


def jerf(B, x, d):
    c = 2 / math.sqrt(math.pi)
    if isinstance(B, MPBackend):
        c = 2 / B.mp.sqrt(B.mp.pi)

    def fp(a, dd):
        return c * jexp(B, -mul(a, a, dd), dd)

    return lift(B, B.fn("erf"), fp)(x, d)


def jbessel(B, kind, nu, x, d):
    """Bessel functions of integer order nu >= 0 with the classical recurrences."""

    def fp(a, dd):
        if kind in ("J", "Y"):
            if nu == 0:
                return -jbessel(B, kind, 1, a, dd)
            return B.scalar(0.5) * (jbessel(B, kind, nu - 1, a, dd) - jbessel(B, kind, nu + 1, a, dd))
        if kind == "I":
            if nu == 0:
                return jbessel(B, "I", 1, a, dd)
            return B.scalar(0.5) * (jbessel(B, "I", nu - 1, a, dd) + jbessel(B, "I", nu + 1, a, dd))
        if nu == 0:
            return -jbessel(B, "K", 1, a, dd)
        return B.scalar(-0.5) * (jbessel(B, "K", nu - 1, a, dd) + jbessel(B, "K", nu + 1, a, dd))

    return lift(B, B.fn("bessel", kind, nu), fp)(x, d)


def jatan2(B, y, x, d):
    if d == 0:
        return B.atan2(y, x)
    y0, y1, x0, x1 = y[0], y[1], x[0], x[1]
    den = mul(x0, x0, d - 1) + mul(y0, y0, d - 1)
    num = mul(x0, y1, d - 1) - mul(y0, x1, d - 1)
    p = jatan2(B, y0, x0, d - 1)
    q = mul(num, jrecip(B, den, d - 1), d - 1)
    p, q = bcast(p, q)
    return stack([p, q])


def jpow(B, x, y, d):
    """General x**y with jet exponent: exp(y ln x)."""
    return jexp(B, mul(y, jln(B, x, d), d), d)


def jconjlike(B, which, x, d):
    """conj / real / imag act coefficient-wise (all epsilons are real parameters)."""
    if which == "conj":
        return B.conj(x)
    if which == "real":
        return B.real_part(x)
    return B.imag_part(x)


def jpiecewise_const(B, f, x, d):
    """Piecewise-constant function of the primal part (sign)."""
    out = B.zeros(x.shape)
    out[(0,) * d] = f(primal(x, d))
    return out


def jabs(B, x, d):
    """|z| = sqrt(z conj z); for real z this is sign(z) z."""
    x0 = primal(x, d)
    c = B.to_complex(x0)
    if c.size and np.all(np.abs(c.imag) <= 1e-14 * np.maximum(1.0, np.abs(c.real))):
        s = B.sign(x0)
        return x * s
    return jsqrt(B, mul(x, B.conj(x), d), d)


def jselect(mask, a, b, d):
    """Elementwise choice between jets a and b by a boolean mask on the tensor axes."""
    a, b = bcast(a, b)
    m = np.broadcast_to(mask, a.shape[d:])
    return where(m, a, b)


# -- matrices ------------------------------------------------------------------------


def jmatmul(a, b, d):
    """Jet product of stacks (..., n, k) x (..., k, m)."""
    aa = a[..., :, :, None]
    bb = b[..., None, :, :]
    return mul(aa, bb, d).sum(axis=-2)


def _apply2d(fun, a, out_tail):
    """Apply fun to each 2D matrix in the trailing two axes of a plain array."""
    lead = a.shape[:-2]
    if not lead:
        return fun(a)
    out = np.empty(lead + out_tail, dtype=a.dtype)
    for idx in np.ndindex(lead):
        out[idx] = fun(a[idx])
    return out


def jinv(B, a, d):
    if d == 0:
        return _apply2d(B.inv, a, a.shape[-2:])
    i0 = jinv(B, a[0], d - 1)
    i1 = -jmatmul(jmatmul(i0, a[1], d - 1), i0, d - 1)
    return stack([i0, i1])


def jdet(B, a, d):
    if d == 0:
        return _apply2d(B.det, a, ())
    a0 = a[0]
    d0 = jdet(B, a0, d - 1)
    # derivative by cofactor expansion (valid also for singular primal part):
    n = a.shape[-1]
    if n == 1:
        return stack([d0, a[1][..., 0, 0]])
    total = None
    for col in range(n):
        m = acopy(a0)
        m[..., :, col] = a[1][..., :, col]
        t = jdet(B, m, d - 1)
        total = t if total is None else total + t
    return stack([d0, total])
