"""Seeded, typed random generator of UFL expressions and forms through the *public* API.

A Universe owns the mesh, function spaces, coefficients, arguments, constants and a small
pool of Index objects that are deliberately re-used in sibling and nested scopes.
A Gen draws expressions of a requested value shape by typed recursive descent.  Every
production is tried inside try/except: if UFL rejects a combination the generator falls
back to a simpler production and counts the rejection.

Profiles (keyword flags of Gen):
  poly        only polynomial operations (sum, product, integer power, indexing, tensor algebra,
              derivatives) - used by the exact-degree oracle
  deriv       maximal nesting depth of spatial derivative operators
  cplx        complex-mode operators (conj/real/imag, complex literals)
  cond        conditionals, comparisons, min/max, sign, abs
  math        elementary and Bessel functions
  geom        geometric quantities
  compound    tensor-algebra operators (dot, inner, outer, det, inv, ...)
  index       explicit index notation with the shared index pool
  args        tuple of Arguments that may appear linearly (used through linear_in())
  restrict    True for interior-facet integrands: every side-dependent leaf ends up restricted
"""

import math

import ufl
from ufl import (
    CellDiameter,
    CellVolume,
    Circumradius,
    Coefficient,
    Constant,
    FacetArea,
    FacetNormal,
    FunctionSpace,
    Identity,
    Index,
    Jacobian,
    JacobianDeterminant,
    JacobianInverse,
    MaxCellEdgeLength,
    MinCellEdgeLength,
    SpatialCoordinate,
    TestFunction,
    TrialFunction,
    as_matrix,
    as_tensor,
    as_vector,
)

from . import elements as E

TD = E.TD


class Universe:
    def __init__(self, rng, cell, gdim, itype="cell", complex_mode=False, only=None, coord_degree=1):
        self.rng = rng
        self.cell = cell
        self.tdim = TD[cell]
        self.gdim = gdim
        self.itype = itype
        self.complex_mode = complex_mode
        self.mesh = E.mesh_for(cell, gdim, coord_degree)  # coord_degree > 1: non-affine cells (vf.world.CurvedWorld or structural checks)
        self.curved = coord_degree > 1
        cat = E.catalogue(cell, gdim)
        if only is not None:
            cat = {k: v for k, v in cat.items() if k in only}
        self.cat = cat
        self.spaces = {k: FunctionSpace(self.mesh, e) for k, e in cat.items()}
        self._coefs = {}
        self._consts = {}
        self._args = {}
        self.idx = [Index() for _ in range(4)]
        self.x = SpatialCoordinate(self.mesh)
        self.is_facet = "facet" in itype
        self.interior = itype.startswith("interior_facet")

    def coef(self, name, k=0):
        key = (name, k)
        if key not in self._coefs:
            self._coefs[key] = Coefficient(self.spaces[name])
        return self._coefs[key]

    def const(self, shape=(), k=0):
        key = (tuple(shape), k)
        if key not in self._consts:
            self._consts[key] = Constant(self.mesh, tuple(shape))
        return self._consts[key]

    def arg(self, name, number):
        key = (name, number)
        if key not in self._args:
            self._args[key] = ufl.Argument(self.spaces[name], number)
        return self._args[key]

    def spaces_with_shape(self, shape):
        out = []
        for k, s in self.spaces.items():
            if tuple(s.value_shape) == tuple(shape):
                out.append(k)
        return out

    def all_shapes(self):
        return sorted({tuple(s.value_shape) for s in self.spaces.values()})

    def measure(self, subdomain_id=None, metadata=None, degree=None):
        m = {
            "cell": ufl.dx,
            "exterior_facet": ufl.ds,
            "interior_facet": ufl.dS,
            # the measures of extruded meshes: the same kinds of facets under other names
            "interior_facet_horiz": ufl.dS_h,
            "interior_facet_vert": ufl.dS_v,
            "exterior_facet_top": ufl.ds_t,
            "exterior_facet_bottom": ufl.ds_b,
            "exterior_facet_vert": ufl.ds_v,
            "vertex": ufl.dP,
            "ridge": getattr(ufl, "dr", None),
        }[self.itype]
        kw = {"domain": self.mesh}
        if subdomain_id is not None:
            kw["subdomain_id"] = subdomain_id
        if metadata is not None:
            kw["metadata"] = metadata
        if degree is not None:
            kw["degree"] = degree
        return m(**kw)


class GenReject(Exception):
    pass


class Gen:
    def __init__(self, U, rng, poly=False, deriv=1, cplx=False, cond=True, math=True, geom=True,
                 compound=True, index=True, restrict=None, literal_zeros=True, maxdim=4, stats=None,
                 smooth_only=False, real_only_nonsmooth=True, hostile_index=True, piola=True):
        self.U = U
        self.rng = rng
        self.poly = poly
        self.deriv = deriv
        self.cplx = cplx and not poly
        self.cond = cond and not poly
        self.math = math and not poly
        self.geom = geom
        self.compound = compound
        self.index = index
        self.restrict = U.interior if restrict is None else restrict
        self.literal_zeros = literal_zeros
        self.stats = stats if stats is not None else {}
        self.smooth_only = smooth_only
        self.hostile_index = hostile_index
        self.piola = piola
        self.rejects = 0
        # extra leaves (e.g. variables) offered to the descent: list of expressions
        self.extra = []
        self.extra_prob = 0.4
        # probability of leaving a leaf unrestricted although a restriction is required
        # (interior facets: exercises default restrictions and missing-restriction errors)
        self.unrestricted_prob = 0.0

    def extra_leaf(self, shape, rmode):
        """One of the extra leaves with the requested shape (or a component of one), else None."""
        if not self.extra or self.rng.random() > self.extra_prob:
            return None
        shape = tuple(shape)
        cands = [x for x in self.extra if tuple(x.ufl_shape) == shape]
        if shape == ():
            cands = cands + [x for x in self.extra if x.ufl_shape]
        if not cands:
            return None
        x = self.rng.choice(cands)
        self.note("leaf:extra")
        if tuple(x.ufl_shape) != shape:
            x = x[tuple(self.rng.randrange(d) for d in x.ufl_shape)]
        return self.R(x, rmode) if rmode == "need" else x

    # ------------------------------------------------------------------ helpers
    def note(self, name):
        self.stats[name] = self.stats.get(name, 0) + 1

    def side(self):
        return self.rng.choice("+-")

    def R(self, e, rmode):
        """Restrict e if the current mode requires a restriction here."""
        if rmode == "need":
            if self.unrestricted_prob and self.rng.random() < self.unrestricted_prob:
                self.note("restrict:left-unrestricted")
                return e
            return e(self.side())
        return e

    def positive(self, depth, rmode, dd):
        """A scalar that is >= 2 for real data (safe divisor / log argument / power base)."""
        a = self.expr((), depth - 1, rmode, dd)
        r = self.rng.random()
        if self.cplx:
            return 3 + ufl.real(a * ufl.conj(a))
        if r < 0.7 or self.poly:
            return 3 + a * a
        return 3 + abs(a)

    # ------------------------------------------------------------------ leaves
    def literal(self):
        r = self.rng.random()
        if r < 0.15 and self.literal_zeros:
            return self.rng.choice([0, 1, -1, 0.0, 1.0])
        if r < 0.45:
            return self.rng.choice([2, 3, -2, 5, 100, 101, -117])
        if r < 0.9 or not self.cplx:
            return self.rng.choice([0.5, 1.5, -0.25, 2.75, 0.125, 3.0])
        return self.rng.choice([1j, 0.5 + 0.5j, 2 - 1j, complex(1.5, 0)])

    def scalar_leaf(self, rmode, dd):
        U = self.U
        rng = self.rng
        x = self.extra_leaf((), rmode)
        if x is not None:
            return x
        for _ in range(20):
            r = rng.random()
            if r < 0.40:
                names = U.spaces_with_shape(())
                if not self.piola:
                    names = [n for n in names if U.cat[n].vf_kind == "identity"]
                if names:
                    self.note("leaf:coefficient")
                    return self.R(U.coef(rng.choice(names), rng.randrange(2)), rmode)
            elif r < 0.62:
                # component of a tensor-valued coefficient
                names = [k for k, s in U.spaces.items() if s.value_shape != ()]
                if not self.piola:
                    names = [n for n in names if U.spaces[n].ufl_element().pullback.is_identity]
                if names:
                    n = rng.choice(names)
                    f = U.coef(n, rng.randrange(2))
                    comp = tuple(rng.randrange(d) for d in f.ufl_shape)
                    self.note("leaf:component")
                    return self.R(f, rmode)[comp] if rmode != "need" else f(self.side())[comp]
            elif r < 0.72:
                self.note("leaf:constant")
                return U.const((), rng.randrange(2))
            elif r < 0.84:
                self.note("leaf:literal")
                v = self.literal()
                return ufl.as_ufl(v)
            elif r < 0.92:
                self.note("leaf:x")
                k = rng.randrange(U.gdim)
                return self.R(U.x, rmode)[k] if rmode != "need" else U.x(self.side())[k]
            elif self.geom and not self.poly:
                q = self.geometric_scalar(rmode)
                if q is not None:
                    return q
        return ufl.as_ufl(1.5)

    def geometric_scalar(self, rmode):
        U = self.U
        rng = self.rng
        opts = [CellVolume, Circumradius, CellDiameter, MinCellEdgeLength, MaxCellEdgeLength]
        if U.tdim == U.gdim:
            opts.append(JacobianDeterminant)
        if U.is_facet and U.tdim > 1:
            opts.append(FacetArea)
        if getattr(self, "geo_scalar_classes", None):
            opts = list(self.geo_scalar_classes)
        elif getattr(U, "curved", False):
            opts = [JacobianDeterminant]  # non-affine cells: only what the curved world models
        cls = rng.choice(opts)
        self.note("leaf:" + cls.__name__)
        q = cls(U.mesh)
        return self.R(q, rmode)

    def tensor_leaf(self, shape, rmode, dd):
        U = self.U
        rng = self.rng
        x = self.extra_leaf(shape, rmode)
        if x is not None:
            return x
        names = U.spaces_with_shape(shape)
        if not self.piola:
            names = [n for n in names if U.spaces[n].ufl_element().pullback.is_identity]
        r = rng.random()
        if names and r < 0.6:
            self.note("leaf:tensor-coefficient")
            f = U.coef(rng.choice(names), rng.randrange(2))
            return self.R(f, rmode)
        if shape == (U.gdim,) and r < 0.75:
            self.note("leaf:x")
            return self.R(U.x, rmode)
        if shape == (U.gdim,) and U.is_facet and r < 0.9 and self.geom and not self.poly:
            self.note("leaf:FacetNormal")
            n = FacetNormal(U.mesh)
            return self.R(n, rmode)
        if len(shape) == 2 and shape[0] == shape[1] and r < 0.8:
            self.note("leaf:Identity")
            return Identity(shape[0])
        if self.geom and not self.poly and shape == (U.gdim, U.tdim) and r < 0.9:
            self.note("leaf:Jacobian")
            return self.R(Jacobian(U.mesh), rmode)
        if self.geom and not self.poly and shape == (U.tdim, U.gdim) and r < 0.9:
            self.note("leaf:JacobianInverse")
            return self.R(JacobianInverse(U.mesh), rmode)
        if r < 0.95 and math.prod(shape) <= 9:
            self.note("leaf:constant-tensor")
            return U.const(shape, rng.randrange(2))
        return None

    # ------------------------------------------------------------------ expressions
    def expr(self, shape=(), depth=3, rmode=None, dd=None):
        """Expression of the given value shape without free indices."""
        if rmode is None:
            rmode = "need" if self.restrict else "free"
        if dd is None:
            dd = self.deriv
        shape = tuple(shape)
        # hand a whole sub-tree to one side of the facet
        if rmode == "need" and depth >= 1 and self.rng.random() < 0.35:
            e = self.expr(shape, depth, "inside", dd)
            self.note("restrict:subtree")
            return e(self.side())
        for _ in range(6):
            try:
                if shape == ():
                    e = self.scalar(depth, rmode, dd)
                elif len(shape) == 1:
                    e = self.vector(shape[0], depth, rmode, dd)
                else:
                    e = self.tensor(shape, depth, rmode, dd)
                if e is not None and tuple(e.ufl_shape) == shape and not e.ufl_free_indices:
                    return e
            except GenReject:
                pass
            except Exception as ex:  # UFL refused this combination
                self.rejects += 1
                self.note("rejected:" + type(ex).__name__)
        return self.fallback(shape, rmode)

    def fallback(self, shape, rmode):
        if shape == ():
            return self.scalar_leaf(rmode, 0)
        comps = self._nested(shape, lambda: self.scalar_leaf(rmode, 0))
        return as_tensor(comps)

    def _nested(self, shape, f):
        if len(shape) == 1:
            return [f() for _ in range(shape[0])]
        return [self._nested(shape[1:], f) for _ in range(shape[0])]

    def scalar(self, depth, rmode, dd):
        rng = self.rng
        U = self.U
        if depth <= 0:
            return self.scalar_leaf(rmode, dd)
        sub = lambda sh=(), d=depth - 1: self.expr(sh, d, rmode, dd)
        prods = ["sum", "sum", "product", "product", "neg", "leaf", "div", "ipow"]
        if self.index:
            prods += ["contract", "contract", "component", "indexsum"]
        if self.compound:
            prods += ["inner", "dot", "tr", "det"]
        if dd > 0:
            prods += ["dx", "div", "gradcomp"]
        if self.math:
            prods += ["math", "math", "fpow", "epow", "bessel", "atan2"]
        if self.cond:
            prods += ["conditional", "minmax", "abs", "sign"]
        if self.cplx:
            prods += ["conj", "real", "imag"]
        p = rng.choice(prods)
        self.note("op:" + p)
        if p == "leaf":
            return self.scalar_leaf(rmode, dd)
        if p == "sum":
            return sub() + sub() if rng.random() < 0.7 else sub() - sub()
        if p == "product":
            return sub() * sub()
        if p == "neg":
            return -sub()
        if p == "div":
            return sub() / self.positive(depth, rmode, dd)
        if p == "ipow":
            return sub() ** rng.choice([2, 2, 3, 1, 0] if not self.poly else [2, 3, 1])
        if p == "fpow":
            return self.positive(depth, rmode, dd) ** rng.choice([0.5, 1.5, -1, -2, -0.5, 2.5, 2, 3])
        if p == "epow":
            # a power whose EXPONENT is an expression: constant base (literal / Constant) or varying positive base
            ex = 0.5 * ufl.tanh(sub()) if rng.random() < 0.6 else 0.25 * sub()
            r = rng.random()
            if r < 0.4:
                base = ufl.as_ufl(rng.choice([2, 3, 0.5, 1.5, 2.5]))
            elif r < 0.6 and not self.cplx:
                c = U.const((), rng.randrange(2))
                base = 3 + c * c
            else:
                base = self.positive(depth, rmode, dd)
            return base**ex
        if p == "math":
            name = rng.choice(["sin", "cos", "exp", "ln", "sqrt", "tan", "sinh", "cosh", "tanh", "asin", "acos", "atan", "erf"])
            a = sub()
            if name in ("ln", "sqrt"):
                return getattr(ufl, name)(self.positive(depth, rmode, dd))
            if name in ("exp", "sinh", "cosh"):
                return getattr(ufl, name)(ufl.tanh(a) if rng.random() < 0.5 else 0.125 * a)
            if name in ("asin", "acos"):
                return getattr(ufl, name)(0.75 * ufl.tanh(a) if not self.cplx else 0.5 * ufl.real(ufl.tanh(ufl.real(a))))
            if name == "tan":
                return ufl.tan(0.5 * ufl.tanh(a) if not self.cplx else 0.5 * ufl.tanh(ufl.real(a)))
            return getattr(ufl, name)(a)
        if p == "bessel":
            fn = rng.choice([ufl.bessel_J, ufl.bessel_Y, ufl.bessel_I, ufl.bessel_K])
            if self.cplx:
                raise GenReject()
            return fn(rng.choice([0, 1, 2]), self.positive(depth, rmode, dd))
        if p == "atan2":
            if self.cplx:
                raise GenReject()
            return ufl.atan2(sub(), self.positive(depth, rmode, dd))
        if p == "abs":
            a = sub()
            return abs(ufl.real(a)) if self.cplx else abs(a)
        if p == "sign":
            a = sub()
            return ufl.sign(ufl.real(a) if self.cplx else a)
        if p == "conditional":
            c = self.condition(depth - 1, rmode, dd)
            return ufl.conditional(c, sub(), sub())
        if p == "minmax":
            f = rng.choice([ufl.max_value, ufl.min_value])
            a, b = sub(), sub()
            if self.cplx:
                a, b = ufl.real(a), ufl.real(b)
            return f(a, b)
        if p == "conj":
            return ufl.conj(sub())
        if p == "real":
            return ufl.real(sub())
        if p == "imag":
            return ufl.imag(sub())
        if p == "inner":
            sh = self.some_shape()
            return ufl.inner(sub(sh), sub(sh))
        if p == "dot":
            n = rng.choice([2, 3, U.gdim])
            return ufl.dot(sub((n,)), sub((n,)))
        if p == "tr":
            n = rng.choice([2, 3, U.gdim])
            return ufl.tr(sub((n, n)))
        if p == "det":
            n = rng.choice([1, 2, 2, 3, 3, U.gdim])
            return ufl.det(sub((n, n)))
        if p == "component":
            sh = self.some_shape()
            a = sub(sh)
            return a[tuple(rng.randrange(d) for d in sh)]
        if p == "contract":
            return self.contraction(depth, rmode, dd)
        if p == "indexsum":
            n = rng.choice([2, 3])
            i = rng.choice(U.idx)
            a = sub((n,))
            b = sub((n,))
            return a[i] * b[i] if rng.random() < 0.6 else (a[i] + b[i]) * a[i]
        if p == "dx":
            a = self.expr((), depth - 1, self.inner_mode(rmode), dd - 1)
            return self.R_after(a.dx(rng.randrange(U.gdim)), rmode)
        if p == "div":
            a = self.expr((U.gdim,), depth - 1, self.inner_mode(rmode), dd - 1)
            return self.R_after(ufl.div(a) if rng.random() < 0.7 else ufl.nabla_div(a), rmode)
        if p == "gradcomp":
            a = self.expr((), depth - 1, self.inner_mode(rmode), dd - 1)
            return self.R_after(ufl.grad(a), rmode)[rng.randrange(U.gdim)]
        raise GenReject()

    def inner_mode(self, rmode):
        """Operands of a derivative are generated unrestricted and restricted afterwards."""
        return "inside" if rmode == "need" else rmode

    def R_after(self, e, rmode):
        return self.R(e, rmode)

    def some_shape(self):
        rng = self.rng
        g = self.U.gdim
        return rng.choice([(2,), (3,), (g,), (2, 2), (g, g), (2, 3), (3, 3), (2, 2, 2)])

    def condition(self, depth, rmode, dd):
        rng = self.rng
        a = self.expr((), depth, rmode, dd)
        b = self.expr((), depth, rmode, dd)
        if self.cplx:
            a, b = ufl.real(a), ufl.real(b)
        k = rng.choice(["lt", "gt", "le", "ge", "eq", "ne", "and", "or", "not"])
        self.note("cond:" + k)
        if k in ("lt", "gt", "le", "ge", "eq", "ne"):
            return getattr(ufl, k)(a, b)
        c1 = ufl.lt(a, b)
        c2 = ufl.gt(self.expr((), max(depth - 1, 0), rmode, dd) if not self.cplx else ufl.real(self.expr((), max(depth - 1, 0), rmode, dd)), 0.25)
        if k == "and":
            return ufl.And(c1, c2)
        if k == "or":
            return ufl.Or(c1, c2)
        return ufl.Not(c1)

    def contraction(self, depth, rmode, dd):
        """Index-notation contractions with indices from the shared pool (re-used on purpose)."""
        rng = self.rng
        U = self.U
        i, j, k = rng.sample(U.idx, 3)
        n = rng.choice([2, 3])
        m = rng.choice([2, 3])
        sub = lambda sh: self.expr(sh, depth - 1, rmode, dd)
        kind = rng.choice(["AijBij", "Aijuivj", "AikBkj_tr", "nested", "astensor_idx", "Aii", "shadow"])
        self.note("contract:" + kind)
        if kind == "AijBij":
            return sub((n, m))[i, j] * sub((n, m))[i, j]
        if kind == "Aijuivj":
            return sub((n, m))[i, j] * sub((n,))[i] * sub((m,))[j]
        if kind == "AikBkj_tr":
            C = as_tensor(sub((n, m))[i, k] * sub((m, n))[k, j], (i, j))
            return C[i, i]
        if kind == "Aii":
            return sub((n, n))[i, i]
        if kind == "nested":
            # the same index object bound in an inner and an outer scope
            inner = sub((n,))[i] * sub((n,))[i]
            return (inner * sub((n,)))[i] * sub((n,))[i]
        if kind == "astensor_idx":
            T = as_tensor(sub((n, m))[i, j], (j, i))
            return T[j, i] * sub((m, n))[j, i]
        if kind == "shadow":
            # component tensor over i, indexed again with i (and with j) from outside
            T = as_tensor(sub((n, n))[i, j] * sub((n,))[j], (i,))
            return T[j] * sub((n,))[j] + T[i] * sub((n,))[i]
        raise GenReject()

    def vector(self, n, depth, rmode, dd):
        rng = self.rng
        U = self.U
        if depth <= 0:
            t = self.tensor_leaf((n,), rmode, dd)
            return t if t is not None else self.fallback((n,), rmode)
        sub = lambda sh=(n,), d=depth - 1: self.expr(sh, d, rmode, dd)
        prods = ["leaf", "sum", "scale", "list", "neg", "divs"]
        if self.index:
            prods += ["astensor", "slice", "matvec_idx"]
        if self.compound:
            prods += ["matvec", "cross", "perp", "elem"]
        if dd > 0 and n == U.gdim:
            prods += ["grad", "curl", "divm"]
        if self.cond:
            prods += ["conditional"]
        if self.cplx:
            prods += ["conj"]
        p = rng.choice(prods)
        self.note("vop:" + p)
        if p == "leaf":
            t = self.tensor_leaf((n,), rmode, dd)
            if t is None:
                raise GenReject()
            return t
        if p == "sum":
            return sub() + sub() if rng.random() < 0.7 else sub() - sub()
        if p == "scale":
            return sub(()) * sub() if rng.random() < 0.5 else sub() * sub(())
        if p == "neg":
            return -sub()
        if p == "divs":
            return sub() / self.positive(depth, rmode, dd)
        if p == "list":
            return as_vector([sub(()) for _ in range(n)])
        if p == "conj":
            return ufl.conj(sub())
        if p == "conditional":
            return ufl.conditional(self.condition(depth - 1, rmode, dd), sub(), sub())
        if p == "astensor":
            i = rng.choice(U.idx)
            a = sub()
            b = sub()
            return as_tensor(a[i] * sub(()) + b[i], (i,)) if rng.random() < 0.5 else as_vector(a[i] * b[i] * a[i], i)
        if p == "slice":
            m = rng.choice([2, 3])
            A = sub((m, n))
            return A[rng.randrange(m), :] if rng.random() < 0.5 else sub((n, m))[:, rng.randrange(m)]
        if p == "matvec_idx":
            i, j = rng.sample(U.idx, 2)
            m = rng.choice([2, 3])
            return as_tensor(sub((n, m))[i, j] * sub((m,))[j], (i,))
        if p == "matvec":
            m = rng.choice([2, 3])
            return ufl.dot(sub((n, m)), sub((m,))) if rng.random() < 0.6 else sub((n, m)) * sub((m,))
        if p == "cross":
            if n != 3:
                raise GenReject()
            return ufl.cross(sub(), sub())
        if p == "perp":
            if n != 2:
                raise GenReject()
            return ufl.perp(sub())
        if p == "elem":
            return ufl.elem_mult(sub(), sub())
        if p == "grad":
            a = self.expr((), depth - 1, self.inner_mode(rmode), dd - 1)
            return self.R_after(ufl.grad(a) if rng.random() < 0.7 else ufl.nabla_grad(a), rmode)
        if p == "curl":
            if U.gdim == 3:
                a = self.expr((3,), depth - 1, self.inner_mode(rmode), dd - 1)
            elif U.gdim == 2:
                a = self.expr((), depth - 1, self.inner_mode(rmode), dd - 1)
            else:
                raise GenReject()
            return self.R_after(ufl.curl(a), rmode)
        if p == "divm":
            a = self.expr((n, n), depth - 1, self.inner_mode(rmode), dd - 1)
            return self.R_after(ufl.div(a), rmode)
        raise GenReject()

    def tensor(self, shape, depth, rmode, dd):
        rng = self.rng
        U = self.U
        if depth <= 0 or len(shape) > 2:
            t = self.tensor_leaf(shape, rmode, dd)
            if t is not None:
                return t
            if len(shape) > 2 and depth > 0 and self.compound:
                a = self.expr(shape[:1], depth - 1, rmode, dd)
                b = self.expr(shape[1:], depth - 1, rmode, dd)
                self.note("top:outer-high-rank")
                return ufl.outer(a, b)
            return self.fallback(shape, rmode)
        m, n = shape
        sub = lambda sh=shape, d=depth - 1: self.expr(sh, d, rmode, dd)
        prods = ["leaf", "sum", "scale", "list", "neg"]
        if self.index:
            prods += ["astensor", "astensor_T", "rows_ct"]
        if self.compound:
            prods += ["outer", "transpose", "matmul"]
            if m == n:
                prods += ["sym", "skew", "dev", "inv", "cofac"]
        if dd > 0 and n == U.gdim:
            prods += ["grad"]
        if self.cplx:
            prods += ["conj"]
        p = rng.choice(prods)
        self.note("top:" + p)
        if p == "leaf":
            t = self.tensor_leaf(shape, rmode, dd)
            if t is None:
                raise GenReject()
            return t
        if p == "sum":
            return sub() + sub()
        if p == "scale":
            return sub(()) * sub()
        if p == "neg":
            return -sub()
        if p == "conj":
            return ufl.conj(sub())
        if p == "list":
            return as_matrix([[sub(()) for _ in range(n)] for _ in range(m)]) if m * n <= 6 else as_tensor([sub((n,)) for _ in range(m)])
        if p == "astensor":
            i, j = rng.sample(U.idx, 2)
            return as_tensor(sub((m,))[i] * sub((n,))[j] + sub()[i, j], (i, j))
        if p == "astensor_T":
            i, j = rng.sample(U.idx, 2)
            return as_tensor(sub((n, m))[j, i], (i, j))
        if p == "rows_ct":
            # rows that are component tensors / indexed views of one tensor, natural or permuted
            i, j = rng.sample(U.idx, 2)
            B = sub((m, n, n)) if rng.random() < 0.5 and m * n * n <= 18 else None
            if B is not None and n == n:
                if rng.random() < 0.5:
                    return as_tensor([as_tensor(B[r, i, j], (j, i))[rng.randrange(n), :] for r in range(m)])
                return as_tensor([B[r, rng.randrange(n), :] for r in range(m)])
            A = sub()
            perm = list(range(m))
            rng.shuffle(perm)
            return as_tensor([A[r, :] for r in (range(m) if rng.random() < 0.5 else perm)])
        if p == "outer":
            return ufl.outer(sub((m,)), sub((n,)))
        if p == "transpose":
            return sub((n, m)).T if rng.random() < 0.5 else ufl.transpose(sub((n, m)))
        if p == "matmul":
            k = rng.choice([2, 3])
            return ufl.dot(sub((m, k)), sub((k, n))) if rng.random() < 0.5 else sub((m, k)) * sub((k, n))
        if p == "sym":
            return ufl.sym(sub())
        if p == "skew":
            return ufl.skew(sub())
        if p == "dev":
            return ufl.dev(sub())
        if p in ("inv", "cofac"):
            if self.poly and p == "inv":
                raise GenReject()
            if m > 3:
                raise GenReject()
            A = sub()
            if p == "cofac":
                return ufl.cofac(A)
            # keep the matrix well conditioned: big multiple of the identity plus a bounded part
            return ufl.inv(6 * Identity(m) + as_tensor([[ufl.tanh(A[r, c]) if self.math else 0.1 * A[r, c] for c in range(m)] for r in range(m)]))
        if p == "grad":
            a = self.expr((m,), depth - 1, self.inner_mode(rmode), dd - 1)
            return self.R_after(ufl.grad(a), rmode)
        raise GenReject()

    # ------------------------------------------------------------------ linear operators on arguments
    def linear_in(self, v, depth, rmode=None, dd=None):
        """A scalar expression that is linear in the argument v (and contains it)."""
        if rmode is None:
            rmode = "need" if self.restrict else "free"
        if dd is None:
            dd = self.deriv
        rng = self.rng
        U = self.U
        sh = tuple(v.ufl_shape)
        vv = v
        if rmode == "need":
            vv = v(self.side())
        k = rng.choice(["comp", "inner", "gradinner", "divdot", "dx"] if dd > 0 else ["comp", "inner"])
        self.note("lin:" + k)
        try:
            if k == "comp":
                comp = tuple(rng.randrange(d) for d in sh)
                return vv[comp] if sh else vv
            if k == "inner":
                w = self.expr(sh, depth, rmode, dd)
                return ufl.inner(w, vv) if rng.random() < 0.5 else ufl.inner(vv, w)
            if k == "gradinner":
                g = ufl.grad(v)
                g = g(self.side()) if rmode == "need" else g
                w = self.expr(tuple(g.ufl_shape), depth, rmode, dd)
                return ufl.inner(w, g)
            if k == "divdot":
                if len(sh) >= 1 and sh[-1] == U.gdim:
                    dv = ufl.div(v)
                    dv = dv(self.side()) if rmode == "need" else dv
                    w = self.expr(tuple(dv.ufl_shape), depth, rmode, dd)
                    return ufl.inner(w, dv)
                g = ufl.grad(v)
                g = g(self.side()) if rmode == "need" else g
                return ufl.inner(self.expr(tuple(g.ufl_shape), depth, rmode, dd), g)
            if k == "dx":
                comp = tuple(rng.randrange(d) for d in sh)
                a = (v[comp] if sh else v).dx(rng.randrange(U.gdim))
                return a(self.side()) if rmode == "need" else a
        except Exception:
            self.rejects += 1
        comp = tuple(rng.randrange(d) for d in sh)
        return vv[comp] if sh else vv

    def integrand(self, arity, depth=2, space_names=None):
        """Random multilinear integrand of the given arity: sum of products
        coefficient-expression * linear(test) [* linear(trial)]."""
        rng = self.rng
        U = self.U
        names = space_names or rng.sample(sorted(U.spaces), k=min(2, len(U.spaces)))
        if not self.piola:
            names = [n for n in names if U.spaces[n].ufl_element().pullback.is_identity] or ["P1"]
        args = [U.arg(names[k % len(names)], k) for k in range(arity)]
        total = None
        for _ in range(rng.choice([1, 1, 2, 3])):
            term = self.expr((), depth)
            for a in args:
                term = term * self.linear_in(a, max(depth - 1, 0))
            total = term if total is None else total + term
        return total, args
