"""Three-valued numeric comparison of 'value before' and 'value after' (DESIGN.md section 3).

fast path complex128; a suspected mismatch is re-evaluated in the same world with 50-digit
arithmetic before anything is called a disagreement.
"""

import numpy as np

from .jet import IllConditioned, MPBackend
from .seval import CB, S, StructureMismatch
from .world import Ambiguous, Unsupported, World

TOL_FAST = 1e-9
TOL_MP_AGREE = 1e-25
TOL_MP_DISAGREE = 1e-12

_MP = None


def mp_backend():
    global _MP
    if _MP is None:
        _MP = MPBackend(50)
    return _MP


class Verdict:
    """agree / disagree / inconclusive / skipped for one sample, with what was seen."""

    def __init__(self, kind, err=None, why=None, shapes=None):
        self.kind = kind
        self.err = err
        self.why = why
        self.shapes = shapes

    def __repr__(self):
        return f"Verdict({self.kind}, err={self.err}, why={self.why})"


def _err(a, b, scale):
    if a.shape != b.shape:
        return None
    if a.size == 0:
        return 0.0
    with np.errstate(all="ignore"):
        diff = np.max(np.abs(a - b))
        m = max(1.0, float(np.max(np.abs(a))), float(np.max(np.abs(b))), scale)
    if not np.isfinite(diff):
        return float("inf")
    return float(diff) / m


def compare_once(fin, fout, world, align=None):
    """fin(world, B) / fout(world, B) -> seval.Result.  Returns a Verdict for this world."""
    try:
        a = fin(world, CB)
        fa = set(a.flags)
        ma = a.maxabs
    except Unsupported as ex:
        return Verdict("skipped", why="unsupported: " + str(ex))
    except Ambiguous as ex:
        return Verdict("input-ambiguous", why=str(ex))
    except StructureMismatch as ex:
        return Verdict("input-structure", why=str(ex))
    except IllConditioned as ex:
        return Verdict("inconclusive", why="ill-conditioned: " + str(ex))
    except (ZeroDivisionError, OverflowError, FloatingPointError, np.linalg.LinAlgError, RecursionError) as ex:
        return Verdict("inconclusive", why="numeric: " + type(ex).__name__)
    try:
        b = fout(world, CB)
    except Unsupported as ex:
        return Verdict("skipped", why="unsupported(out): " + str(ex))
    except Ambiguous as ex:
        return Verdict("output-ambiguous", why=str(ex))
    except StructureMismatch as ex:
        return Verdict("disagree", why="output-structure: " + str(ex))
    except IllConditioned as ex:
        return Verdict("inconclusive", why="ill-conditioned(out): " + str(ex))
    except (ZeroDivisionError, OverflowError, FloatingPointError, np.linalg.LinAlgError) as ex:
        return Verdict("inconclusive", why="numeric(out): " + type(ex).__name__)
    except (IndexError, KeyError, ValueError, TypeError, AttributeError) as ex:
        # the input was evaluated without complaint, the output is so malformed (inconsistent index extents,
        # shapes, missing operands) that the interpreter cannot even walk it
        return Verdict("disagree", why="output-structure: not evaluable: " + type(ex).__name__ + ": " + str(ex)[:120])
    flags = fa | set(b.flags)
    if a.rank != b.rank or tuple(a.fi) != tuple(b.fi) or a.arr.shape != b.arr.shape:
        return Verdict("disagree", why="structure", shapes=(a.arr.shape, a.fi, b.arr.shape, b.fi))
    arr_a = np.asarray(a.arr)
    arr_b = np.asarray(b.arr)
    if not (np.all(np.isfinite(arr_a)) and np.all(np.isfinite(arr_b))):
        return Verdict("inconclusive", why="nonfinite")
    err = _err(arr_a, arr_b, max(ma, b.maxabs) * 1e-3)
    if err is not None and err <= TOL_FAST:
        return Verdict("agree", err)
    # confirm at 50 digits in the same world
    B = mp_backend()
    try:
        a2 = fin(world, B)
        f2 = set(a2.flags)
        b2 = fout(world, B)
        f2 |= set(b2.flags)
    except Unsupported as ex:
        return Verdict("skipped", why="unsupported(mp): " + str(ex))
    except Exception as ex:  # mpmath domain errors etc.
        return Verdict("inconclusive", err, why="mp-evaluation: " + type(ex).__name__ + ": " + str(ex)[:80])
    try:
        ca = B.to_complex(a2.arr)
        cb = B.to_complex(b2.arr)
        diff = a2.arr - b2.arr
        dmax = max([abs(complex(x)) for x in np.ravel(diff)] + [0.0])
        # the tiny ones need mp magnitudes
        dmax_mp = max([abs(x) for x in np.ravel(diff)], default=0)
        scale = max(1.0, float(np.max(np.abs(ca), initial=0.0)), float(np.max(np.abs(cb), initial=0.0)))
        err2 = float(dmax_mp / scale)
    except Exception as ex:
        return Verdict("inconclusive", err, why="mp-compare: " + str(ex)[:80])
    if err2 <= TOL_MP_AGREE:
        return Verdict("agree", err2, why="resolved-by-high-precision")
    if err2 > TOL_MP_DISAGREE and not flags and not f2:
        return Verdict("disagree", err2, why="confirmed-at-50-digits")
    return Verdict("inconclusive", err2, why="flags: " + ",".join(sorted(flags | f2)) if (flags or f2) else "between-tolerances")


def decide(verdicts, need_agree=2):
    """Case verdict from sample verdicts."""
    kinds = [v.kind for v in verdicts]
    if "disagree" in kinds:
        return "violated"
    if kinds.count("agree") >= need_agree:
        return "held"
    if kinds and all(k == "skipped" for k in kinds):
        return "skipped"
    return "inconclusive"


def worlds_for(rng, cell, gdim, itype="cell", cplx=False, n=3, **kw):
    return [World(rng, cell, gdim, itype, cplx, **kw) for _ in range(n)]


def preserved(e_in, e_out, worlds, side=None, scale=None):
    """Compare S(e_in) with S(e_out) (optionally times scale(world,B)) on each world."""

    def fin(w, B):
        r = S(e_in, w, B, side=side)
        if scale is not None:
            s = scale(w, B)
            r.arr = r.arr * s
        return r

    def fout(w, B):
        return S(e_out, w, B, side=side)

    return [compare_once(fin, fout, w) for w in worlds]
