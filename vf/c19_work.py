"""Workload for C19: expression DAGs with heavy sharing built through the public UFL API.

* `Work(rng, cap)` draws base pieces with vf.gen and combines them so that the same python
  object is used many times (a*a, s=a+b; s*s ...), so that equal-but-distinct objects appear
  ((a+b)*(a+b), deep / partial rebuilt copies, cloned terminals) and so that some of the pieces
  have been compared with `==` before they are traversed (UFL's `==` re-points operands).
* `zoo()` builds one instance of as many concrete Expr classes as is practical (for live
  dispatch checks of classes the random generator never produces).

Nothing in here judges anything; the oracle lives in vf/props/C19.py.
"""

import ufl
from ufl.classes import (
    Argument,
    Coefficient,
    Constant,
    GeometricQuantity,
    Label,
    MultiIndex,
    ScalarValue,
    all_ufl_classes,
)

from . import elements as E
from .gen import Gen, Universe

CELLS = [("interval", 1), ("interval", 2), ("triangle", 2), ("triangle", 2), ("triangle", 3), ("tetrahedron", 3)]


def tsize(o, memo):
    """Tree size of o, computed on the DAG of python objects (memo by id)."""
    k = id(o)
    m = memo.get(k)
    if m is not None and m[0] is o:
        return m[1]
    n = 1
    for x in o.ufl_operands:
        n += tsize(x, memo)
    memo[k] = (o, n)
    return n


def is_cyclic(o, done):
    """True when the operand graph below o has a cycle (done: ids already known to be acyclic).

    UFL's Abs.__new__ returns its argument for abs(abs(x)) and python then re-runs __init__ on it, which
    makes the inner Abs its own operand: such an object is not an expression DAG and no traversal of it
    terminates.  The generator can draw abs(abs(x)); those pieces are thrown away (and counted).
    """
    active = set()

    def rec(x, depth):
        k = id(x)
        if k in done:
            return False
        if k in active or depth > 2000:
            return True
        active.add(k)
        for y in x.ufl_operands:
            if rec(y, depth + 1):
                return True
        active.discard(k)
        done.add(k)
        return False

    return rec(o, 0)


def clone_terminal(t):
    """A new python object that is structurally the same terminal (or t itself)."""
    try:
        if isinstance(t, Coefficient):
            return Coefficient(t.ufl_function_space(), count=t.count())
        if isinstance(t, Constant):
            return Constant(t._ufl_domain, t.ufl_shape, count=t.count())
        if isinstance(t, Argument):
            return Argument(t.ufl_function_space(), t.number(), t.part())
        if isinstance(t, ScalarValue):
            return type(t)(t._value)
        if isinstance(t, MultiIndex):
            return MultiIndex(tuple(t._indices))
        if isinstance(t, GeometricQuantity):
            return type(t)(t._domain)
        if isinstance(t, Label):
            return Label(count=t.count())
    except Exception:
        return t
    return t


def rebuild(o, levels, clone_terms, memo):
    """Rebuilt copy of o through _ufl_expr_reconstruct_ (top `levels` levels; None = all).

    memo=None gives a tree shaped copy (no sharing at all inside the copy), a dict keeps the
    sharing pattern of the original.
    """
    if o._ufl_is_terminal_:
        return clone_terminal(o) if clone_terms else o
    if levels is not None and levels <= 0:
        return o
    if memo is not None:
        m = memo.get(id(o))
        if m is not None and m[0] is o:
            return m[1]
    nl = None if levels is None else levels - 1
    ops = [rebuild(x, nl, clone_terms, memo) for x in o.ufl_operands]
    r = o._ufl_expr_reconstruct_(*ops)
    if memo is not None:
        memo[id(o)] = (o, r)
    return r


class Work:
    def __init__(self, rng, cap):
        self.rng = rng
        self.cap = cap
        self.sz = {}
        self.ops_used = []
        self.eq_results = []
        self.rejected = 0
        cell, gdim = rng.choice(CELLS)
        itype = rng.choice(["cell", "cell", "cell", "exterior_facet", "interior_facet"])
        cplx = rng.random() < 0.2
        self.desc = (cell, gdim, itype, cplx)
        self.U = U = Universe(rng, cell, gdim, itype, cplx)
        self.G = G = Gen(U, rng, cplx=cplx, deriv=rng.choice([0, 1, 2]))
        self.n = n = gdim if gdim > 1 else 2
        self.acyclic = set()
        self.keepalive = []
        self.cyclic_pieces = 0
        self.S = [self.fresh((), rng.choice([1, 2, 2, 3])) for _ in range(rng.randint(2, 4))]
        self.V = [self.fresh((n,), rng.choice([1, 2])) for _ in range(2)]
        self.A = [self.fresh((n, n), rng.choice([1, 2]))]
        for _ in range(rng.randint(4, 12)):
            self.step()
        self.roots = self.make_roots()

    # ------------------------------------------------------------------
    def fresh(self, shape, depth):
        """A piece from vf.gen that is a DAG (see is_cyclic)."""
        for _ in range(20):
            e = self.G.expr(shape, depth)
            self.keepalive.append(e)  # ids in self.acyclic must stay valid
            if not is_cyclic(e, self.acyclic):
                return e
            self.cyclic_pieces += 1
        raise RuntimeError("vf.gen keeps producing cyclic expressions")

    def size(self, o):
        return tsize(o, self.sz)

    def pick(self, pool):
        rng = self.rng
        if rng.random() < 0.6:
            return pool[-1 - min(int(rng.expovariate(0.9)), len(pool) - 1)]
        return rng.choice(pool)

    def keep(self, pool, e, shape):
        if e is None or not isinstance(e, ufl.core.expr.Expr):
            return False
        if tuple(e.ufl_shape) != shape or e.ufl_free_indices:
            return False
        self.keepalive.append(e)
        if is_cyclic(e, self.acyclic):
            self.cyclic_pieces += 1
            return False
        if self.size(e) > self.cap:
            self.rejected += 1
            return False
        pool.append(e)
        return True

    def step(self):
        rng = self.rng
        S, V, A, n = self.S, self.V, self.A, self.n
        U = self.U
        a, b = self.pick(S), self.pick(S)
        v, w = self.pick(V), self.pick(V)
        M = self.pick(A)
        i, j = rng.sample(U.idx, 2)
        op = rng.choice(
            [
                "sq", "dbl", "mix", "twice", "shared", "cond", "fun", "pow", "div", "inner", "dotvw", "idx", "idx2",
                "vecscale", "vecsum", "list", "var", "copy", "copy", "copytop", "copydag", "eq", "eq", "chain", "matvec",
                "outer", "minmax", "listsplit",
            ]
        )
        try:
            ok = self._apply(op, a, b, v, w, M, i, j)
        except Exception:
            ok = False
            self.rejected += 1
        if ok:
            self.ops_used.append(op)

    def _apply(self, op, a, b, v, w, M, i, j):
        rng = self.rng
        S, V, A, n = self.S, self.V, self.A, self.n
        cplx = self.desc[3]
        re = ufl.real if cplx else (lambda x: x)
        if op == "sq":
            return self.keep(S, a * a, ())
        if op == "dbl":
            return self.keep(S, a + a, ())
        if op == "mix":
            return self.keep(S, a * b + a, ())
        if op == "twice":
            # two separately constructed, structurally equal operands
            return self.keep(S, (a + b) * (a + b) if rng.random() < 0.5 else ufl.sin(a * b) + ufl.sin(a * b) * a, ())
        if op == "shared":
            s = a + b
            return self.keep(S, s * s + s, ())
        if op == "cond":
            return self.keep(S, ufl.conditional(ufl.lt(re(a), re(b)), a, b), ())
        if op == "fun":
            f = rng.choice([ufl.sin, ufl.cos, ufl.tanh, ufl.exp])
            return self.keep(S, f(a) * a, ())
        if op == "pow":
            return self.keep(S, a**2 + a, ())
        if op == "div":
            return self.keep(S, a / (3 + re(b * ufl.conj(b)) if cplx else 3 + b * b), ())
        if op == "inner":
            return self.keep(S, ufl.inner(v, v) if rng.random() < 0.5 else ufl.inner(v, w) * ufl.inner(v, w), ())
        if op == "dotvw":
            return self.keep(S, ufl.dot(v, w) + v[0] * w[n - 1], ())
        if op == "idx":
            return self.keep(S, v[i] * v[i] + v[j] * w[j], ())
        if op == "idx2":
            return self.keep(S, M[i, j] * v[i] * v[j] + M[i, i], ())
        if op == "vecscale":
            return self.keep(V, a * v, (n,))
        if op == "vecsum":
            return self.keep(V, v + w if rng.random() < 0.5 else v + v, (n,))
        if op == "list":
            return self.keep(V, ufl.as_vector([a, b] + [a] * (n - 2)), (n,))
        if op == "matvec":
            return self.keep(V, ufl.dot(M, v) if rng.random() < 0.5 else ufl.as_tensor(M[i, j] * v[j], (i,)), (n,))
        if op == "outer":
            return self.keep(A, ufl.outer(v, w) + M if rng.random() < 0.5 else ufl.dot(M, M), (n, n))
        if op == "listsplit":
            # all components of a vector, taken alternately from one object and from an equal-but-distinct copy
            # (ListTensor's constructor folds [v[0], v[1], ...] back into v only when the v's are one object)
            vv = rebuild(v, 1, True, None)
            if vv is v:
                vv = ufl.as_vector([v[k] for k in range(n)])  # terminal that cannot be cloned: still a list of components
            c = ufl.as_vector([(v if k % 2 == 0 else vv)[k] for k in range(n)])
            return self.keep(V, c, (n,)) and self.keep(S, ufl.inner(c, w), ())
        if op == "minmax":
            # (abs of an Abs object would turn that shared object into its own operand, see is_cyclic)
            return self.keep(S, ufl.max_value(re(a), re(a * b)) + (a if isinstance(a, ufl.classes.Abs) else abs(a)), ())
        if op == "var":
            x = ufl.variable(a)
            if rng.random() < 0.5:
                return self.keep(S, x * x + x, ())
            # an equal-but-distinct Variable object carrying the same label
            y = ufl.classes.Variable(rebuild(a, 1, False, None), x.ufl_operands[1])
            return self.keep(S, x * b + y, ())
        if op == "copy":
            if self.size(a) > self.cap // 2:
                return False
            c = rebuild(a, None, rng.random() < 0.6, None)
            return self.keep(S, a + c if rng.random() < 0.5 else a * c, ())
        if op == "copydag":
            c = rebuild(a, None, rng.random() < 0.3, {})
            return self.keep(S, a * c + b, ())
        if op == "copytop":
            c = rebuild(a, rng.choice([1, 2, 3]), False, None)
            return self.keep(S, ufl.conditional(ufl.gt(re(c), re(a)), c, a) if rng.random() < 0.3 else c + a, ())
        if op == "eq":
            if self.size(a) > self.cap // 2:
                return False
            c = rebuild(a, None, rng.random() < 0.5, None if rng.random() < 0.5 else {})
            self.eq_results.append(bool(a == c))
            self.eq_results.append(bool(a == b))
            self.eq_results.append(bool(v == w))
            return self.keep(S, c * b + a, ())
        if op == "chain":
            x = a
            for _ in range(rng.randint(2, 6)):
                y = x * x + x if rng.random() < 0.5 else (x + b) * x
                if self.size(y) > self.cap:
                    break
                x = y
            return self.keep(S, x, ())
        return False

    def make_roots(self):
        rng = self.rng
        S, V = self.S, self.V
        cands = []
        for _ in range(6):
            k = rng.randint(2, 4)
            parts = [self.pick(S) for _ in range(k)]
            try:
                e = parts[0]
                for p in parts[1:]:
                    e = e + p if rng.random() < 0.6 else e * p
                if rng.random() < 0.5:
                    v = self.pick(V)
                    e = e + ufl.inner(v, v)
            except Exception:
                continue
            if self.size(e) <= self.cap and not e.ufl_free_indices and e.ufl_shape == ():
                cands.append(e)
        cands.sort(key=self.size, reverse=True)
        if not cands:
            cands = sorted(S, key=self.size, reverse=True)
        roots = cands[:2]
        if len(roots) < 2:
            roots.append(self.pick(S))
        # a vector valued root now and then (unique traversals do not care about the shape)
        if rng.random() < 0.25:
            roots[1] = self.pick(V)
        return roots


# ---------------------------------------------------------------------- zoo
def zoo():
    """One instance of as many concrete Expr classes as practical: list of (expr)."""
    from ufl import classes as C

    out = []
    fails = []

    def add(f):
        try:
            e = f()
            if isinstance(e, (list, tuple)):
                out.extend(e)
            else:
                out.append(e)
        except Exception as ex:  # construction refused: not part of the zoo
            fails.append(f"{type(ex).__name__}: {ex}"[:120])

    cat2 = E.catalogue("triangle", 2)
    mesh = E.mesh_for("triangle", 2)
    cat3 = E.catalogue("tetrahedron", 3)
    mesh3 = E.mesh_for("tetrahedron", 3)
    P1 = ufl.FunctionSpace(mesh, cat2["P1"])
    P1v = ufl.FunctionSpace(mesh, cat2["P1v"])
    P1t = ufl.FunctionSpace(mesh, cat2["P1t"])
    P1v3 = ufl.FunctionSpace(mesh3, cat3["P1v"])
    f, g = ufl.Coefficient(P1), ufl.Coefficient(P1)
    v, w = ufl.Coefficient(P1v), ufl.Coefficient(P1v)
    T = ufl.Coefficient(P1t)
    v3 = ufl.Coefficient(P1v3)
    u = ufl.TrialFunction(P1)
    c = ufl.Constant(mesh)
    i, j = ufl.Index(), ufl.Index()
    out += [f, v, T, u, c]
    for cls in all_ufl_classes:
        if issubclass(cls, GeometricQuantity) and not cls._ufl_is_abstract_:
            add(lambda cls=cls: cls(mesh3 if "FacetEdgeVectors" in cls.__name__ else mesh))
    add(lambda: [C.IntValue(3), C.FloatValue(0.5), C.ComplexValue(1j), C.Zero((2,)), C.Identity(2), C.PermutationSymbol(2), C.Label()])
    add(lambda: [f + g, f * g, f / g, f**2, abs(f), v[i], v[i] * v[i], ufl.as_tensor(2 * v[i], (i,)), ufl.as_vector([f, g])])
    add(lambda: (v[i]).ufl_operands[1])
    add(lambda: [ufl.eq(f, g), ufl.ne(f, g), ufl.lt(f, g), ufl.gt(f, g), ufl.le(f, g), ufl.ge(f, g)])
    add(lambda: [ufl.And(ufl.lt(f, g), ufl.gt(f, g)), ufl.Or(ufl.lt(f, g), ufl.gt(f, g)), ufl.Not(ufl.lt(f, g))])
    add(lambda: [ufl.conditional(ufl.lt(f, g), f, g), ufl.max_value(f, g), ufl.min_value(f, g)])
    for fn in ("sqrt", "exp", "ln", "cos", "sin", "tan", "cosh", "sinh", "tanh", "acos", "asin", "atan", "erf"):
        add(lambda fn=fn: getattr(ufl, fn)(f))
    add(lambda: ufl.atan2(f, g))
    for fn in ("bessel_J", "bessel_Y", "bessel_I", "bessel_K"):
        add(lambda fn=fn: getattr(ufl, fn)(1, f))
    add(lambda: [T.T, ufl.outer(v, w), ufl.inner(v, w), ufl.dot(v, w), ufl.perp(v), ufl.cross(v3, v3 + v3)])
    add(lambda: [ufl.det(T), ufl.inv(T), ufl.cofac(T), ufl.tr(T), ufl.dev(T), ufl.skew(T), ufl.sym(T)])
    add(lambda: [ufl.grad(f), ufl.div(v), ufl.nabla_grad(v), ufl.nabla_div(v), ufl.curl(v3)])
    add(lambda: [C.ReferenceGrad(f), C.ReferenceValue(f), C.ReferenceDiv(v), C.ReferenceCurl(v3)])
    add(lambda: [f("+"), f("-"), C.CellAvg(f), C.FacetAvg(f)])
    add(lambda: [C.Conj(f), C.Real(f), C.Imag(f)])

    def _var():
        x = ufl.variable(f * g)
        return [x, ufl.diff(x * x, x)]

    add(_var)
    add(lambda: ufl.derivative(f * g, f, u))
    add(lambda: C.ExprList(f, g))
    add(lambda: C.ExprMapping(f, g))
    add(lambda: C.CoordinateDerivative(f * g, C.ExprList(ufl.SpatialCoordinate(mesh)), C.ExprList(ufl.TestFunction(P1v)), C.ExprMapping()))
    add(lambda: C.ExternalOperator(f, g, function_space=P1))
    add(lambda: ufl.interpolate(f * g, P1))
    return [e for e in out if isinstance(e, ufl.core.expr.Expr)], fails
