"""Runs the repository's own test-suite under the pass monitors of vf.suitemon and merges what they observed."""

import glob
import json
import os
import shutil
import subprocess
import sys
import tempfile

from . import REPO_DIR, VERIF_DIR


def run_suite(ctx, targets, prop, nproc=6, budget=240, timeout=1500, select=None):
    """Run pytest on the repository tests with monitors on `targets`; feed counters / violations into ctx.

    Counters get the prefix 'suite:'.  Returns the merged counters."""
    tdir = os.path.join(REPO_DIR, "test")
    if not os.path.isdir(tdir):
        tdir = "/repo/test"  # scratch copies made of ufl/ only are tested with the repository's tests
    work = tempfile.mkdtemp(prefix="vf_suite_")
    try:
        env = dict(os.environ)
        env["PYTHONPATH"] = VERIF_DIR + os.pathsep + REPO_DIR
        env["UFL_VERIF"] = "1"
        env["VF_SUITEMON_LOG"] = os.path.join(work, "log")
        env["VF_SUITEMON_TARGETS"] = ",".join(targets)
        env["VF_SUITEMON_BUDGET"] = str(budget)
        env["VERIF_REPO"] = REPO_DIR
        env["PYTHONDONTWRITEBYTECODE"] = "1"
        cmd = [sys.executable, "-B", "-m", "pytest", "-q", "-p", "no:cacheprovider", "-p", "vf.suitemon", "-n", str(nproc), tdir]
        if select:
            cmd += ["-k", select]
        try:
            p = subprocess.run(cmd, cwd=work, env=env, stdout=subprocess.PIPE, stderr=subprocess.STDOUT, timeout=timeout, text=True)
            tail = p.stdout.strip().splitlines()[-1] if p.stdout.strip() else ""
            ctx.count("suite:pytest_exit_%d" % p.returncode)
            ctx.notes.append("suite pytest: " + tail[-160:])
        except subprocess.TimeoutExpired:
            ctx.count("suite:pytest_timeout")
            return {}
        merged = {}
        nlogs = 0
        for fn in glob.glob(os.path.join(work, "log.*")):
            with open(fn) as fh:
                d = json.load(fh)
            nlogs += 1
            for k, v in d["counters"].items():
                merged[k] = merged.get(k, 0) + v
            for g, names in d["cover"].items():
                for n in names:
                    ctx.covered("suite:" + g, n)
            for v in d["violations"]:
                if v["key"].startswith(prop + "/"):
                    ctx.violation(v["key"], v["desc"], v["detail"])
                else:
                    ctx.count("suite:violations_of_other_properties")
                    ctx.covered("suite:other_property_keys", v["key"])
            for h in d.get("distinct", []):
                ctx.distinct.add(h)
            for s in d.get("samples", []):
                ctx.sample(s)
        ctx.count("suite:process_logs", nlogs)
        for k, v in merged.items():
            ctx.count("suite:" + k, v)
        return merged
    finally:
        shutil.rmtree(work, ignore_errors=True)
