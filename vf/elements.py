"""Element catalogue of the harness (own AbstractFiniteElement subclasses).

`vf_kind` names the element's declared push-forward for the oracle; the `pullback`
property hands the corresponding real ufl.pullback object to UFL.  reprs evaluate in
the namespace returned by `eval_namespace()`.
"""

import numpy as np

import ufl
from ufl.cell import Cell
from ufl.finiteelement import AbstractFiniteElement
from ufl.pullback import (
    MixedPullback,
    SymmetricPullback,
    contravariant_piola,
    covariant_contravariant_piola,
    covariant_piola,
    double_contravariant_piola,
    double_covariant_piola,
    identity_pullback,
    l2_piola,
)
from ufl.sobolevspace import H1, H2, L2, HCurl, HDiv, HDivDiv, HEin

PULLBACKS = {
    "identity": identity_pullback,
    "contravariant": contravariant_piola,
    "covariant": covariant_piola,
    "l2": l2_piola,
    "dcontra": double_contravariant_piola,
    "dcov": double_covariant_piola,
    "covcontra": covariant_contravariant_piola,
}
SPACES = {"H1": H1, "H2": H2, "L2": L2, "HCurl": HCurl, "HDiv": HDiv, "HDivDiv": HDivDiv, "HEin": HEin}


class VElement(AbstractFiniteElement):
    """A directly specified element."""

    def __init__(self, family, cellname, degree, rshape, kind, space, subs=(), symmetry=None, subdegree=None):
        self._family = family
        self._cellname = cellname
        self._cell = Cell(cellname)
        self._degree = degree
        self._rshape = tuple(rshape)
        self.vf_kind = kind
        self._spacename = space
        self._subs = list(subs)
        self._symmetry = symmetry
        self._subdegree = degree if subdegree is None else subdegree
        if kind == "mixed":
            if all(s.vf_kind == "identity" or (s.vf_kind == "mixed" and s.pullback.is_identity) for s in self._subs):
                # like the repository's own test helper: all-identity mixed elements use identity
                self._pullback = MixedPullback(self)
            else:
                self._pullback = MixedPullback(self)
        elif kind == "symmetric":
            self._pullback = SymmetricPullback(self, symmetry)
        else:
            self._pullback = PULLBACKS[kind]
        if kind == "mixed":
            self._repr = f"VMixed({self._subs!r})"
        elif kind == "symmetric":
            self._repr = f"VSymmetric({symmetry!r}, {self._subs!r})"
        else:
            self._repr = (
                f"VElement({family!r}, {cellname!r}, {degree!r}, {self._rshape!r}, {kind!r}, {space!r}, "
                f"subdegree={self._subdegree!r})"
            )

    def __repr__(self):
        return self._repr

    def __str__(self):
        return f"<{self._family}{self._degree} {self.vf_kind} on {self._cellname}>"

    def __hash__(self):
        return hash(self._repr)

    def __eq__(self, other):
        return type(self) is type(other) and self._repr == other._repr

    @property
    def sobolev_space(self):
        return SPACES[self._spacename]

    @property
    def pullback(self):
        return self._pullback

    @property
    def embedded_superdegree(self):
        return self._degree

    @property
    def embedded_subdegree(self):
        return self._subdegree

    @property
    def cell(self):
        return self._cell

    @property
    def reference_value_shape(self):
        return self._rshape

    @property
    def sub_elements(self):
        return self._subs


def VMixed(subs):
    subs = [VMixed(s) if isinstance(s, list) else s for s in subs]
    degree = max(s.embedded_superdegree for s in subs)
    rsize = sum(s.reference_value_size for s in subs)
    space = "H1" if all(s._spacename in ("H1", "H2") for s in subs) else "L2"
    return VElement("Mixed", subs[0]._cellname, degree, (rsize,), "mixed", space, subs=subs)


def VSymmetric(symmetry, subs):
    degree = max(s.embedded_superdegree for s in subs)
    rsize = sum(s.reference_value_size for s in subs)
    space = "H1" if all(s._spacename in ("H1", "H2") for s in subs) else "L2"
    return VElement("Symmetric", subs[0]._cellname, degree, (rsize,), "symmetric", space, subs=subs, symmetry=symmetry)


def eval_namespace():
    ns = dict(vars(ufl))
    ns.update(vars(ufl.classes))
    ns.update(VElement=VElement, VMixed=VMixed, VSymmetric=VSymmetric)
    return ns


# ------------------------------------------------------------------ convenient builders

TD = {"interval": 1, "triangle": 2, "tetrahedron": 3}


def P(cell, deg, shape=()):
    return VElement("Lagrange", cell, deg, shape, "identity", "H1")


def DG(cell, deg, shape=()):
    return VElement("DG", cell, deg, shape, "identity", "L2")


def RT(cell, deg):
    return VElement("RT", cell, deg, (TD[cell],), "contravariant", "HDiv", subdegree=deg - 1)


def N1(cell, deg):
    return VElement("N1curl", cell, deg, (TD[cell],), "covariant", "HCurl", subdegree=deg - 1)


def L2P(cell, deg):
    return VElement("DGpiola", cell, deg, (), "l2", "L2")


def Regge(cell, deg):
    t = TD[cell]
    return VElement("Regge", cell, deg, (t, t), "dcov", "HEin")


def HHJ(cell, deg):
    t = TD[cell]
    return VElement("HHJ", cell, deg, (t, t), "dcontra", "HDivDiv")


def GLS(cell, deg):
    t = TD[cell]
    return VElement("GLS", cell, deg, (t, t), "covcontra", "L2")


def RTrows(cell, deg, n):
    """Tensor-valued, row-wise contravariant Piola."""
    return VElement("RTrows", cell, deg, (n, TD[cell]), "contravariant", "HDiv", subdegree=deg - 1)


def N1rows(cell, deg, n):
    return VElement("N1rows", cell, deg, (n, TD[cell]), "covariant", "HCurl", subdegree=deg - 1)


def SymT(cell, degs, n):
    """Symmetric n x n tensor; the k-th independent component has degree degs[k % len(degs)]."""
    symmetry = {}
    subs = []
    k = 0
    for i in range(n):
        for j in range(i, n):
            symmetry[(i, j)] = k
            symmetry[(j, i)] = k
            subs.append(P(cell, degs[k % len(degs)]))
            k += 1
    return VSymmetric(symmetry, subs)


def mesh_for(cell, gdim, coord_degree=1):
    return ufl.Mesh(VElement("Lagrange", cell, coord_degree, (gdim,), "identity", "H1"))


def catalogue(cell, gdim):
    """Named elements available on a cell with geometric dimension gdim."""
    t = TD[cell]
    cat = {
        "P1": P(cell, 1),
        "P2": P(cell, 2),
        "P3": P(cell, 3),
        "DG0": DG(cell, 0),
        "DG1": DG(cell, 1),
        "DG2": DG(cell, 2),
        "P1v": P(cell, 1, (gdim,)),
        "P2v": P(cell, 2, (gdim,)),
        "DG1v": DG(cell, 1, (gdim,)),
        "P1t": P(cell, 1, (gdim, gdim)),
        "P2t": P(cell, 2, (gdim, gdim)),
        "L2P1": L2P(cell, 1),
    }
    cat["RT2"] = RT(cell, 2)
    cat["RT1"] = RT(cell, 1)
    cat["N1_2"] = N1(cell, 2)
    cat["N1_1"] = N1(cell, 1)
    cat["Regge1"] = Regge(cell, 1)
    cat["HHJ1"] = HHJ(cell, 1)
    cat["GLS1"] = GLS(cell, 1)
    cat["RTrows"] = RTrows(cell, 1, 2)
    cat["N1rows"] = N1rows(cell, 2, 2)
    cat["MixP2P1"] = VMixed([P(cell, 2, (gdim,)), P(cell, 1)])
    cat["MixRTDG"] = VMixed([RT(cell, 2), DG(cell, 1)])
    cat["MixNest"] = VMixed([VMixed([P(cell, 3), N1(cell, 1)]), DG(cell, 0, (2,))])
    if gdim >= 2:
        cat["Sym"] = SymT(cell, [3, 1, 2], gdim)
        cat["MixSymP1"] = VMixed([SymT(cell, [3], gdim), P(cell, 1)])
    return cat
