"""C24 oracle: denotation of operator RECIPES in 60-digit mpmath arithmetic on labelled tensors.

Nothing here touches a UFL constructor or a UFL evaluate method.  A recipe node (`N`) names a public
operator and its operand recipes; `Den(env, x).ev(node)` returns the mathematical value at the point x
as a labelled tensor LT(arr, rank, fi): numpy object array of mpmath numbers with the value-shape
axes first and one axis per free index (sorted by index name) behind them.

Derivatives (grad, div, curl, nabla_grad, nabla_div, rot, .dx) are taken by the limit definition:
nested central differences with step 1e-12 at 60 digits on the denotation itself (truncation error
~1e-24), so no differentiation rule is shared with UFL or with the polynomial callables handed to UFL.

Conditioning is reported, never guessed: `flags` collects ties of comparisons (unless both sides are
exactly representable dyadic numbers), arguments on branch cuts, kinks below a derivative; `maxabs`
is the largest intermediate magnitude (cancellation scale).
"""

import itertools

import mpmath
import numpy as np

MP = mpmath.mp.clone()
MP.dps = 60
H = MP.mpf(10) ** -12
TIE = 1e-9


class Undefined(Exception):
    """The mathematical value does not exist at this point (division by zero, pole, no semantics)."""


class Reject(Exception):
    """The operation is not defined for operands of this type (UFL is expected to refuse it)."""


class N:
    """Recipe node: op name, operand recipes, attribute payload and the static type the generator computed."""

    __slots__ = ("op", "kids", "a", "shape", "fi", "kind", "real", "size")

    def __init__(self, op, kids=(), a=None, shape=(), fi=None, kind="val", real=False):
        self.op = op
        self.kids = tuple(kids)
        self.a = a
        self.shape = tuple(shape)
        self.fi = dict(fi or {})
        self.kind = kind
        self.real = real
        self.size = 1 + sum(k.size for k in self.kids)

    def __repr__(self):
        return show(self)


def show(n, limit=2000):
    def go(n):
        a = ""
        if n.a is not None and n.op not in ("coef",):
            a = "<" + repr(n.a) + ">"
        if n.op == "coef":
            return n.a
        if n.op == "lit":
            return repr(n.a)
        if not n.kids:
            return n.op + a
        return n.op + a + "(" + ", ".join(go(k) for k in n.kids) + ")"

    return go(n)[:limit]


def subrecipes(n):
    """All sub-recipes, smallest first (post-order, stable)."""
    out = []

    def walk(m):
        for k in m.kids:
            walk(k)
        out.append(m)

    walk(n)
    out.sort(key=lambda m: m.size)
    return out


def ops_of(n):
    s = set()
    for m in subrecipes(n):
        if m.op in ("fn", "cmp"):
            s.add(f"{m.op}:{m.a.split(':')[0]}")
        elif m.op == "bessel":
            s.add(f"bessel:{m.a[0]}")
        else:
            s.add(m.op)
    return s


# ------------------------------------------------------------------ labelled tensors


class LT:
    __slots__ = ("arr", "rank", "fi", "bits")

    def __init__(self, arr, rank, fi, bits=None):
        a = np.empty((), dtype=object)
        if isinstance(arr, np.ndarray):
            a = arr if arr.dtype == object else arr.astype(object)
        else:
            a[()] = arr
        self.arr = a
        self.rank = rank
        self.fi = tuple(fi)
        self.bits = bits  # None: inexact; int: exactly representable dyadic values needing about that many bits
        assert self.arr.ndim == rank + len(self.fi), (self.arr.shape, rank, fi)
        assert tuple(sorted(self.fi)) == self.fi

    @property
    def shape(self):
        return self.arr.shape[: self.rank]

    @property
    def dims(self):
        return dict(zip(self.fi, self.arr.shape[self.rank:]))


class Cond:
    __slots__ = ("mask", "fi")

    def __init__(self, mask, fi):
        self.mask = np.asarray(mask, dtype=bool)
        self.fi = tuple(fi)


def oarr(shape, fill=None):
    a = np.empty(shape, dtype=object)
    if fill is not None:
        for idx in np.ndindex(*shape):
            a[idx] = fill
    return a


def omap(f, *arrs):
    arrs = np.broadcast_arrays(*arrs)
    out = np.empty(arrs[0].shape, dtype=object)
    for idx in np.ndindex(*out.shape):
        out[idx] = f(*[a[idx] for a in arrs])
    return out


def _bits(*ts, add=0, mul=False):
    if any(t.bits is None for t in ts):
        return None
    b = (sum(t.bits for t in ts) if mul else max(t.bits for t in ts)) + add
    return b if b <= 50 else None


def _align(ts):
    fi = tuple(sorted(set().union(*[set(t.fi) for t in ts])))
    dims = {}
    for t in ts:
        for i, d in t.dims.items():
            if dims.setdefault(i, d) != d:
                raise Reject("index dimension mismatch")
    outs = []
    for t in ts:
        have = {i: t.rank + p for p, i in enumerate(t.fi)}
        order = [have[i] for i in fi if i in have]
        a = np.transpose(t.arr, list(range(t.rank)) + order)
        shp = list(a.shape[: t.rank])
        it = iter(a.shape[t.rank:])
        for i in fi:
            shp.append(next(it) if i in have else 1)
        outs.append(a.reshape(shp))
    return outs, fi, dims


def _expand_rank(a, rank_have, pre, post):
    shp = a.shape
    return a.reshape((1,) * pre + shp[:rank_have] + (1,) * post + shp[rank_have:])


def _osum(arr, axes):
    for ax in sorted(axes, reverse=True):
        arr = np.add.reduce(arr, axis=ax)
    return arr


def _full(a, b):
    a, b = np.broadcast_arrays(a, b)
    return a, b


def add(a, b):
    if a.shape != b.shape:
        raise Reject("sum of different shapes")
    if set(a.fi) != set(b.fi):
        raise Reject("sum with different free indices")
    (x, y), fi, _ = _align([a, b])
    return LT(omap(lambda p, q: p + q, x, y), a.rank, fi, _bits(a, b, add=1))


def neg(a):
    return LT(omap(lambda p: -p, a.arr), a.rank, a.fi, a.bits)


def sub(a, b):
    return add(a, neg(b))


def mul(a, b):
    (x, y), fi, _ = _align([a, b])
    r1, r2 = a.rank, b.rank
    bits = _bits(a, b, mul=True)
    if r1 == 0 or r2 == 0:
        rank = max(r1, r2)
        x = _expand_rank(x, r1, rank - r1, 0)
        y = _expand_rank(y, r2, rank - r2, 0)
        prod = omap(lambda p, q: p * q, x, y)
        rep = sorted(set(a.fi) & set(b.fi))
        keep = [i for i in fi if i not in rep]
        prod = _osum(prod, [rank + fi.index(i) for i in rep])
        return LT(prod, rank, keep, _bits(a, b, mul=True, add=2 if rep else 0))
    if r1 == 2 and r2 in (1, 2):
        if set(a.fi) & set(b.fi):
            raise Reject("repeated indices in non-scalar product")
        if a.shape[1] != b.shape[0]:
            raise Reject("dimension mismatch in matrix product")
        x = _expand_rank(x, 2, 0, r2 - 1)
        y = _expand_rank(y, r2, 1, 0)
        return LT(_osum(omap(lambda p, q: p * q, x, y), [1]), r1 + r2 - 2, fi, None if bits is None else _bits(a, b, mul=True, add=2))
    raise Reject("invalid ranks in product")


def div(a, b):
    if b.rank or b.fi:
        raise Reject("division by a non-scalar")
    d = b.arr[()]
    if d == 0:
        raise Undefined("division by zero")
    return LT(omap(lambda p: p / d, a.arr), a.rank, a.fi, None)


def getitem(a, comp):
    """comp: tuple of ('int', k) | ('slice',) | ('ell',) | ('idx', name)."""
    shape = a.shape
    n_explicit = sum(1 for c in comp if c[0] != "ell")
    if sum(1 for c in comp if c[0] == "ell") > 1:
        raise Reject("two ellipses")
    full = []
    for c in comp:
        if c[0] == "ell":
            full.extend([("slice",)] * (len(shape) - n_explicit))
        else:
            full.append(c)
    if len(full) != len(shape):
        raise Reject("wrong number of indices")
    if all(c[0] == "slice" for c in full):
        return a
    arr = a.arr
    sel = []
    for k, c in enumerate(full):
        if c[0] == "int":
            if not (0 <= c[1] < shape[k]):
                raise Reject("index out of bounds")
            sel.append(c[1])
        else:
            sel.append(slice(None))
    arr = arr[tuple(sel) + (slice(None),) * len(a.fi)]
    if not isinstance(arr, np.ndarray):
        arr = LT(arr, 0, ()).arr
    labels = [("s", k) if c[0] == "slice" else ("i", c[1]) for k, c in enumerate(full) if c[0] != "int"]
    labels += [("i", c) for c in a.fi]
    counts = {}
    for lab in labels:
        if lab[0] == "i":
            counts[lab[1]] = counts.get(lab[1], 0) + 1
    if any(v > 2 for v in counts.values()):
        raise Reject("index repeated more than twice")
    summed = False
    for name, v in sorted(counts.items()):
        if v == 2:
            p = [q for q, lab in enumerate(labels) if lab == ("i", name)]
            if arr.shape[p[0]] != arr.shape[p[1]]:
                raise Reject("repeated index over different dimensions")
            # diagonal over the two axes, summed
            n = arr.shape[p[0]]
            acc = None
            for k in range(n):
                ix = [slice(None)] * arr.ndim
                ix[p[0]] = k
                ix[p[1]] = k
                piece = arr[tuple(ix)]
                acc = piece if acc is None else acc + piece
            arr = acc if isinstance(acc, np.ndarray) else LT(acc, 0, ()).arr
            labels = [lab for q, lab in enumerate(labels) if q not in p]
            summed = True
    s_pos = [q for q, lab in enumerate(labels) if lab[0] == "s"]
    i_pos = sorted([q for q, lab in enumerate(labels) if lab[0] == "i"], key=lambda q: labels[q][1])
    arr = np.transpose(arr, s_pos + i_pos)
    return LT(arr, len(s_pos), tuple(labels[q][1] for q in i_pos), _bits(a, add=2 if summed else 0))


def as_tensor_idx(a, names):
    if not names:
        return a
    if a.rank:
        raise Reject("as_tensor of a non-scalar expression with indices")
    if len(set(names)) != len(names) or any(i not in a.fi for i in names):
        raise Reject("as_tensor indices must be distinct free indices")
    rest = [i for i in a.fi if i not in names]
    order = [a.fi.index(i) for i in names] + [a.fi.index(i) for i in rest]
    return LT(np.transpose(a.arr, order), len(names), tuple(rest), a.bits)


def stack(rows):
    if not rows:
        raise Reject("empty list tensor")
    if any(r.shape != rows[0].shape for r in rows):
        raise Reject("rows of different shape")
    if any(set(r.fi) != set(rows[0].fi) for r in rows):
        raise Reject("rows with different free indices")
    arrs, fi, _ = _align(rows)
    arrs = np.broadcast_arrays(*arrs)
    out = np.empty((len(rows),) + arrs[0].shape, dtype=object)
    for k, r in enumerate(arrs):
        out[k] = r[()] if r.ndim == 0 else r
    return LT(out, rows[0].rank + 1, fi, _bits(*rows))


def _nofi(*ts):
    seen = set()
    for t in ts:
        if seen & set(t.fi):
            raise Reject("overlapping free indices in a compound operator")
        seen |= set(t.fi)


def conj(a):
    return LT(omap(MP.conj, a.arr), a.rank, a.fi, a.bits)


def realpart(a):
    return LT(omap(lambda p: MP.mpf(MP.re(p)), a.arr), a.rank, a.fi, a.bits)


def imagpart(a):
    return LT(omap(lambda p: MP.mpf(MP.im(p)), a.arr), a.rank, a.fi, a.bits)


def dot(a, b):
    if a.rank == 0 and b.rank == 0:
        return mul(a, b)
    if a.rank == 0 or b.rank == 0:
        raise Reject("dot with a scalar")
    _nofi(a, b)
    if a.shape[-1] != b.shape[0]:
        raise Reject("dot dimension mismatch")
    (x, y), fi, _ = _align([a, b])
    x = _expand_rank(x, a.rank, 0, b.rank - 1)
    y = _expand_rank(y, b.rank, a.rank - 1, 0)
    return LT(_osum(omap(lambda p, q: p * q, x, y), [a.rank - 1]), a.rank + b.rank - 2, fi, _bits(a, b, mul=True, add=2))


def inner(a, b):
    if a.shape != b.shape:
        raise Reject("inner of different shapes")
    _nofi(a, b)
    (x, y), fi, _ = _align([a, b])
    prod = omap(lambda p, q: p * MP.conj(q), x, y)
    return LT(_osum(prod, list(range(a.rank))), 0, fi, _bits(a, b, mul=True, add=4))


def outer(a, b):
    _nofi(a, b)
    (x, y), fi, _ = _align([a, b])
    if a.rank == 0 and b.rank == 0:
        return LT(omap(lambda p, q: MP.conj(p) * q, x, y), 0, fi, _bits(a, b, mul=True))
    x = _expand_rank(x, a.rank, 0, b.rank)
    y = _expand_rank(y, b.rank, a.rank, 0)
    return LT(omap(lambda p, q: MP.conj(p) * q, x, y), a.rank + b.rank, fi, _bits(a, b, mul=True))


def cross(a, b):
    if a.shape != (3,) or b.shape != (3,):
        raise Reject("cross needs 3-vectors")
    _nofi(a, b)
    (x, y), fi, _ = _align([a, b])
    x, y = np.broadcast_arrays(x, y)
    out = np.empty(x.shape, dtype=object)
    out[0] = x[1] * y[2] - x[2] * y[1]
    out[1] = x[2] * y[0] - x[0] * y[2]
    out[2] = x[0] * y[1] - x[1] * y[0]
    return LT(out, 1, fi, _bits(a, b, mul=True, add=1))


def perp(a):
    if a.shape != (2,):
        raise Reject("perp needs a 2-vector")
    out = np.empty(a.arr.shape, dtype=object)
    out[0] = -a.arr[1]
    out[1] = a.arr[0] + 0
    return LT(out, 1, a.fi, a.bits)


def transpose(a):
    if a.rank != 2:
        raise Reject("transpose needs rank 2")
    return LT(np.swapaxes(a.arr, 0, 1), 2, a.fi, a.bits)


def _square(a):
    if a.rank != 2 or a.shape[0] != a.shape[1]:
        raise Reject("square matrix expected")


def tr(a):
    _square(a)
    acc = None
    for k in range(a.shape[0]):
        acc = a.arr[k, k] if acc is None else acc + a.arr[k, k]
    return LT(acc, 0, a.fi, _bits(a, add=2))


def _det(m):
    n = m.shape[0]
    if n == 1:
        return m[0, 0]
    if n == 2:
        return m[0, 0] * m[1, 1] - m[0, 1] * m[1, 0]
    tot = 0
    for j in range(n):
        minor = np.delete(np.delete(m, 0, axis=0), j, axis=1)
        tot = tot + (-1) ** j * m[0, j] * _det(minor)
    return tot


def det(a):
    if a.rank == 0:
        return a
    _square(a)
    if a.fi:
        raise Reject("free indices in determinant")
    n = a.shape[0]
    return LT(_det(a.arr), 0, (), None if a.bits is None else (a.bits * n + 3 if a.bits * n + 3 <= 50 else None))


def _cofactor_matrix(m):
    n = m.shape[0]
    c = np.empty((n, n), dtype=object)
    for i in range(n):
        for j in range(n):
            if n == 1:
                c[i, j] = MP.mpf(1)
            else:
                minor = np.delete(np.delete(m, i, axis=0), j, axis=1)
                c[i, j] = (-1) ** (i + j) * _det(minor)
    return c


def cofac(a):
    _square(a)
    if a.fi:
        raise Reject("free indices in cofactor")
    return LT(_cofactor_matrix(a.arr), 2, (), None)


def inv(a):
    if a.rank == 0:
        return div(LT(MP.mpf(1), 0, ()), a)
    _square(a)
    if a.fi:
        raise Reject("free indices in inverse")
    d = _det(a.arr)
    if d == 0:
        raise Undefined("singular matrix")
    c = _cofactor_matrix(a.arr)
    return LT(omap(lambda p: p / d, np.swapaxes(c, 0, 1)), 2, (), None)


def dev(a):
    _square(a)
    n = a.shape[0]
    t = tr(a).arr
    out = a.arr.copy()
    for k in range(n):
        out[k, k] = out[k, k] - t / n
    return LT(out, 2, a.fi, None)


def skew(a):
    _square(a)
    return LT(omap(lambda p, q: (p - q) / 2, a.arr, np.swapaxes(a.arr, 0, 1)), 2, a.fi, _bits(a, add=2))


def sym(a):
    _square(a)
    return LT(omap(lambda p, q: (p + q) / 2, a.arr, np.swapaxes(a.arr, 0, 1)), 2, a.fi, _bits(a, add=2))


def diag(a):
    zero = MP.mpf(0)
    if a.rank == 1:
        n = a.shape[0]
        out = oarr((n, n) + a.arr.shape[1:], zero)
        for i in range(n):
            out[i, i] = a.arr[i]
        return LT(out, 2, a.fi, a.bits)
    _square(a)
    n = a.shape[0]
    out = oarr(a.arr.shape, zero)
    for i in range(n):
        out[i, i] = a.arr[i, i]
    return LT(out, 2, a.fi, a.bits)


def diag_vector(a):
    _square(a)
    n = a.shape[0]
    out = np.empty((n,) + a.arr.shape[2:], dtype=object)
    for i in range(n):
        out[i] = a.arr[i, i]
    return LT(out, 1, a.fi, a.bits)


def is_int_valued(z):
    return MP.im(z) == 0 and MP.re(z) == MP.floor(MP.re(z))


# ------------------------------------------------------------------ the evaluator


class Den:
    """Denotation at one point.  env: terminal name -> Field (see c24_gen); x: tuple of exact numbers."""

    def __init__(self, env, x, pert=None, _shared=None, dlevel=0, cplx=True):
        self.env = env
        self.cplx = cplx  # complex data present: the float side may carry signed zeros in imaginary parts
        self.x = tuple(MP.mpf(v) if not isinstance(v, (MP.mpf,)) else v for v in x)
        self.pert = pert  # None or a random.Random: relative 1e-13 perturbation of all terminal data
        self.dlevel = dlevel
        if _shared is None:
            _shared = {"flags": set(), "maxabs": 0.0, "pertf": {}, "ctyped": False}
            if pert is not None:
                self.x = tuple(v * (1 + MP.mpf(pert.uniform(-1, 1)) * MP.mpf(10) ** -13) for v in self.x)
        self.sh = _shared
        self.memo = {}

    @property
    def flags(self):
        return self.sh["flags"]

    @property
    def maxabs(self):
        return self.sh["maxabs"]

    def flag(self, name):
        self.sh["flags"].add(name)

    def shifted(self, k, delta):
        x = list(self.x)
        x[k] = x[k] + delta
        d = Den(self.env, x, self.pert, self.sh, self.dlevel + 1, self.cplx)
        return d

    def ev(self, n):
        key = id(n)
        if key in self.memo:
            return self.memo[key]
        r = getattr(self, "op_" + n.op)(n)
        if isinstance(r, LT):
            if self.dlevel:
                r.bits = None
            m = 0.0
            for v in r.arr.flat:
                if not self.sh["ctyped"] and MP.im(v) != 0:
                    self.sh["ctyped"] = True  # from here on the float side may be complex typed (signed zeros)
                av = float(abs(v))
                if av > m:
                    m = av
            if m != m or m == float("inf"):
                raise Undefined("non-finite value")
            if m > self.sh["maxabs"]:
                self.sh["maxabs"] = m
        self.memo[key] = r
        return r

    # ---- leaves
    def op_lit(self, n):
        v = n.a
        z = MP.mpc(v.real, v.imag) if isinstance(v, complex) else MP.mpf(v)
        return LT(z, 0, (), 8)

    def op_coef(self, n):
        f = self.env[n.a]
        arr = f.mp_value(self.x, MP)
        if self.pert is not None:
            fac = self.sh["pertf"].get(n.a)
            if fac is None:
                fac = omap(lambda _: 1 + MP.mpf(self.pert.uniform(-1, 1)) * MP.mpf(10) ** -13, arr)
                self.sh["pertf"][n.a] = fac
            arr = omap(lambda p, q: p * q, arr, fac)
        return LT(arr, len(f.shape), (), f.bits if self.pert is None else None)

    def op_x(self, n):
        out = np.empty((len(self.x),), dtype=object)
        for k, v in enumerate(self.x):
            out[k] = v
        return LT(out, 1, (), 8 if self.pert is None else None)

    def op_identity(self, n):
        k = n.a
        out = oarr((k, k), MP.mpf(0))
        for i in range(k):
            out[i, i] = MP.mpf(1)
        return LT(out, 2, (), 1)

    def op_zero(self, n):
        return LT(oarr(n.a, MP.mpf(0)), len(n.a), (), 1)

    def op_eps(self, n):
        # PermutationSymbol.evaluate hands out UFL constants; math functions then take their complex code path
        self.sh["ctyped"] = True
        k = n.a
        out = oarr((k,) * k, MP.mpf(0))
        for p in itertools.permutations(range(k)):
            inv_ = sum(1 for i in range(k) for j in range(i + 1, k) if p[i] > p[j])
            out[p] = MP.mpf(-1 if inv_ % 2 else 1)
        return LT(out, k, (), 1)

    def op_geo(self, n):
        raise Undefined("geometric quantity without a cell")

    # ---- algebra
    def op_add(self, n):
        return add(self.ev(n.kids[0]), self.ev(n.kids[1]))

    def op_sub(self, n):
        return sub(self.ev(n.kids[0]), self.ev(n.kids[1]))

    def op_neg(self, n):
        return neg(self.ev(n.kids[0]))

    def op_mul(self, n):
        return mul(self.ev(n.kids[0]), self.ev(n.kids[1]))

    def op_div(self, n):
        return div(self.ev(n.kids[0]), self.ev(n.kids[1]))

    def op_pow(self, n):
        a, b = self.ev(n.kids[0]), self.ev(n.kids[1])
        if b.rank or b.fi:
            raise Reject("non-scalar exponent")
        if a.rank:
            if a.fi == () and b.arr[()] == 2:
                return inner(a, a)
            raise Reject("power of a tensor")
        if a.fi:
            raise Reject("power with free indices")
        z, p = a.arr[()], b.arr[()]
        if z == 0 and abs(p) <= TIE and not (b.bits is not None and p == 0):
            # 0**p jumps from 1 to 0 at p == 0: an exponent that is zero only up to rounding (a derivative that vanishes
            # identically, computed on either side) decides nothing
            self.flag("tie:zero-to-the-power-zero")
        if is_int_valued(p):
            k = int(MP.re(p))
            if z == 0 and k < 0:
                raise Undefined("zero to a negative power")
            if z == 0 and k == 0:
                return LT(MP.mpf(1), 0, (), 1)
            r = z ** k
            bits = None
            if a.bits is not None and 0 <= k <= 4 and b.bits is not None:
                bits = a.bits * max(k, 1)
                bits = bits if bits <= 50 else None
            return LT(r, 0, (), bits)
        if z == 0:
            if MP.re(p) > 0:
                return LT(MP.mpf(0), 0, (), None)
            raise Undefined("zero to a non-positive non-integer power")
        self._cut(z, "pow-base")
        return LT(MP.exp(p * MP.log(z)), 0, (), None)

    def _cut(self, z, what):
        """Principal branch with the cut along the negative real axis."""
        if MP.re(z) < 0 and abs(MP.im(z)) <= TIE * abs(z):
            # on the cut the float side decides by the sign of a zero imaginary part, by the type of the number
            # (math vs cmath, numpy scalars return nan) - none of which is the expression's mathematical content
            self.flag("branch-cut:" + what)
        if abs(z) < 1e-12:
            self.flag("branch-point:" + what)

    def op_abs(self, n):
        a = self.ev(n.kids[0])
        if self.dlevel:
            for v in a.arr.flat:
                if abs(v) < 1e-6:
                    self.flag("kink-below-derivative:abs")
        real_exact = a.bits is not None and all(MP.im(v) == 0 for v in a.arr.flat)
        return LT(omap(lambda p: MP.mpf(abs(p)), a.arr), a.rank, a.fi, a.bits if real_exact else None)

    def op_conj(self, n):
        return conj(self.ev(n.kids[0]))

    def op_real(self, n):
        return realpart(self.ev(n.kids[0]))

    def op_imag(self, n):
        return imagpart(self.ev(n.kids[0]))

    def op_variable(self, n):
        return self.ev(n.kids[0])

    def op_restrict(self, n):
        return self.ev(n.kids[0])

    def op_avg(self, n):
        return self.ev(n.kids[0])

    def op_jump(self, n):
        a = self.ev(n.kids[0])
        return LT(omap(lambda p: p - p, a.arr), a.rank, a.fi, a.bits)

    # ---- indexing / tensors
    def op_getitem(self, n):
        return getitem(self.ev(n.kids[0]), n.a)

    def op_as_tensor_idx(self, n):
        return as_tensor_idx(self.ev(n.kids[0]), n.a[0])

    def op_stack(self, n):
        return stack([self.ev(k) for k in n.kids])

    def op_dot(self, n):
        return dot(self.ev(n.kids[0]), self.ev(n.kids[1]))

    def op_inner(self, n):
        return inner(self.ev(n.kids[0]), self.ev(n.kids[1]))

    def op_outer(self, n):
        return outer(self.ev(n.kids[0]), self.ev(n.kids[1]))

    def op_cross(self, n):
        return cross(self.ev(n.kids[0]), self.ev(n.kids[1]))

    def op_perp(self, n):
        return perp(self.ev(n.kids[0]))

    def op_transpose(self, n):
        return transpose(self.ev(n.kids[0]))

    def op_tr(self, n):
        return tr(self.ev(n.kids[0]))

    def op_det(self, n):
        return det(self.ev(n.kids[0]))

    def op_inv(self, n):
        a = self.ev(n.kids[0])
        r = inv(a)
        if a.rank == 2:
            d = abs(_det(a.arr))
            big = max(float(abs(v)) for v in a.arr.flat)
            if float(d) < 1e-3 * max(big, 1e-300) ** a.shape[0]:
                self.flag("ill-conditioned:inverse")
        return r

    def op_cofac(self, n):
        return cofac(self.ev(n.kids[0]))

    def op_dev(self, n):
        return dev(self.ev(n.kids[0]))

    def op_sym(self, n):
        return sym(self.ev(n.kids[0]))

    def op_skew(self, n):
        return skew(self.ev(n.kids[0]))

    def op_diag(self, n):
        return diag(self.ev(n.kids[0]))

    def op_diag_vector(self, n):
        return diag_vector(self.ev(n.kids[0]))

    def op_elem(self, n):
        which = n.a
        a, b = self.ev(n.kids[0]), self.ev(n.kids[1])
        if a.shape != b.shape:
            raise Reject("elementwise operation on different shapes")
        if a.fi or b.fi:
            raise Reject("elementwise operation with free indices")
        out = np.empty(a.arr.shape, dtype=object)
        for idx in np.ndindex(*a.arr.shape):
            p, q = a.arr[idx], b.arr[idx]
            if which == "mult":
                out[idx] = p * q
            elif which == "div":
                if q == 0:
                    raise Undefined("division by zero")
                out[idx] = p / q
            else:
                if not is_int_valued(q):
                    self._cut(p, "pow-base")
                    out[idx] = MP.exp(q * MP.log(p))
                else:
                    if p == 0 and MP.re(q) < 0:
                        raise Undefined("zero to a negative power")
                    out[idx] = p ** int(MP.re(q))
        return LT(out, a.rank, (), _bits(a, b, mul=True) if which == "mult" else None)

    # ---- conditions
    def _real_operand(self, v, what):
        if MP.im(v) != 0:
            if abs(MP.im(v)) > 1e-30 * max(1, abs(v)):
                self.flag("complex-operand:" + what)
        return MP.mpf(MP.re(v))

    def op_cmp(self, n):
        a, b = self.ev(n.kids[0]), self.ev(n.kids[1])
        if a.rank or b.rank or a.fi or b.fi:
            raise Reject("comparison of non-scalars")
        p, q = a.arr[()], b.arr[()]
        rel = n.a.split(":")[0]
        exact = a.bits is not None and b.bits is not None
        if rel in ("eq", "ne"):
            same = p == q
            if not (exact and same) and abs(p - q) <= TIE * max(1, abs(p), abs(q)):
                self.flag("tie:" + rel)
            if same and self.dlevel:
                self.flag("kink-below-derivative:" + rel)
            return Cond(same if rel == "eq" else not same, ())
        p, q = self._real_operand(p, rel), self._real_operand(q, rel)
        if not (exact and p == q) and abs(p - q) <= TIE * max(1, abs(p), abs(q)):
            self.flag("tie:" + rel)
        if p == q and self.dlevel:
            self.flag("kink-below-derivative:" + rel)
        return Cond({"lt": p < q, "le": p <= q, "gt": p > q, "ge": p >= q}[rel], ())

    def op_land(self, n):
        return Cond(bool(self.ev(n.kids[0]).mask) and bool(self.ev(n.kids[1]).mask), ())

    def op_lor(self, n):
        return Cond(bool(self.ev(n.kids[0]).mask) or bool(self.ev(n.kids[1]).mask), ())

    def op_lnot(self, n):
        return Cond(not bool(self.ev(n.kids[0]).mask), ())

    def op_conditional(self, n):
        # the value of a conditional is the value of the branch that is taken; the other branch need not have a value
        # (sin(x)/x guarded at x == 0, a guarded logarithm): it is not evaluated
        c = self.ev(n.kids[0])
        ka, kb = n.kids[1], n.kids[2]
        if tuple(ka.shape) != tuple(kb.shape) or set(ka.fi) != set(kb.fi):
            raise Reject("conditional branches of different type")
        return self.ev(ka) if bool(c.mask) else self.ev(kb)

    def op_sign(self, n):
        a = self.ev(n.kids[0])
        if a.rank or a.fi:
            raise Reject("sign of a non-scalar")
        v = self._real_operand(a.arr[()], "sign")
        if not (a.bits is not None and v == 0) and abs(v) <= TIE:
            self.flag("tie:sign")
        if v == 0 and self.dlevel:
            self.flag("kink-below-derivative:sign")
        return LT(MP.mpf(MP.sign(v)), 0, (), 1)

    def _minmax(self, n, which):
        a, b = self.ev(n.kids[0]), self.ev(n.kids[1])
        if a.rank or b.rank or a.fi or b.fi:
            raise Reject("min/max of non-scalars")
        p, q = self._real_operand(a.arr[()], which), self._real_operand(b.arr[()], which)
        if self.dlevel and abs(p - q) <= TIE * max(1, abs(p), abs(q)):
            self.flag("kink-below-derivative:" + which)
        take_a = (p > q) if which == "max" else (p < q)
        if p == q:
            return LT(p, 0, (), _bits(a, b))
        return LT(p if take_a else q, 0, (), _bits(a, b))

    def op_max(self, n):
        return self._minmax(n, "max")

    def op_min(self, n):
        return self._minmax(n, "min")

    # ---- functions
    def op_fn(self, n):
        a = self.ev(n.kids[0])
        if a.rank or a.fi:
            raise Reject("math function of a non-scalar")
        z = a.arr[()]
        name = n.a
        if name == "sqrt":
            self._cut(z, "sqrt")
            r = MP.sqrt(z)
        elif name == "ln":
            if z == 0:
                raise Undefined("ln(0)")
            self._cut(z, "ln")
            r = MP.log(z)
        elif name in ("asin", "acos"):
            if abs(MP.re(z)) >= 1 - TIE and abs(MP.im(z)) <= TIE * abs(z):
                self.flag("branch-cut:" + name)
            r = getattr(MP, name)(z)
        elif name == "atan":
            if abs(MP.im(z)) >= 1 - TIE and abs(MP.re(z)) <= TIE * abs(z):
                self.flag("branch-cut:atan")
            r = MP.atan(z)
        elif name == "tan":
            c = MP.cos(z)
            if abs(c) < 1e-6:
                self.flag("pole:tan")
            if c == 0:
                raise Undefined("tan pole")
            r = MP.tan(z)
        elif name == "erf":
            r = MP.erf(z)
        else:
            r = getattr(MP, name)(z)
        return LT(r, 0, (), None)

    def op_atan2(self, n):
        a, b = self.ev(n.kids[0]), self.ev(n.kids[1])
        if a.rank or b.rank or a.fi or b.fi:
            raise Reject("atan2 of non-scalars")
        p, q = self._real_operand(a.arr[()], "atan2"), self._real_operand(b.arr[()], "atan2")
        if abs(p) <= TIE * max(1, abs(q)) and q <= 0:
            self.flag("branch-cut:atan2")
        return LT(MP.atan2(p, q), 0, (), None)

    def op_bessel(self, n):
        kind, nu = n.a
        a = self.ev(n.kids[0])
        if a.rank or a.fi:
            raise Reject("bessel function of a non-scalar")
        z = a.arr[()]
        if kind in ("Y", "K"):
            if z == 0:
                raise Undefined("bessel singularity")
            self._cut(z, "bessel" + kind)
        if nu != int(nu):
            self._cut(z, "bessel-noninteger-order")
        fun = {"J": MP.besselj, "Y": MP.bessely, "I": MP.besseli, "K": MP.besselk}[kind]
        return LT(fun(nu, z), 0, (), None)

    # ---- derivatives: the limit definition
    def _partial(self, node, k):
        p = self.shifted(k, H).ev(node)
        m = self.shifted(k, -H).ev(node)
        return LT(omap(lambda u, v: (u - v) / (2 * H), p.arr, m.arr), p.rank, p.fi, None)

    def _grad(self, node):
        """Array with the derivative direction as LAST value axis."""
        d = len(self.x)
        parts = [self._partial(node, k) for k in range(d)]
        r = parts[0].rank
        out = np.empty(parts[0].arr.shape[:r] + (d,) + parts[0].arr.shape[r:], dtype=object)
        for k in range(d):
            pk = parts[k].arr
            out[(slice(None),) * r + (k,)] = pk[()] if pk.ndim == 0 else pk
        return LT(out, r + 1, parts[0].fi, None)

    def op_grad(self, n):
        return self._grad(n.kids[0])

    def op_nabla_grad(self, n):
        g = self._grad(n.kids[0])
        r = g.rank
        return LT(np.moveaxis(g.arr, r - 1, 0), r, g.fi, None)

    def op_div(self, n):  # overwritten below: keep algebraic division under another name
        raise AssertionError

    def op_Div(self, n):
        g = self._grad(n.kids[0])
        r = g.rank
        if r < 2:
            raise Reject("divergence of a scalar")
        if g.arr.shape[r - 2] != g.arr.shape[r - 1]:
            raise Reject("divergence over a different dimension")
        acc = None
        for k in range(g.arr.shape[r - 1]):
            piece = g.arr[(slice(None),) * (r - 2) + (k, k)]
            acc = piece if acc is None else acc + piece
        return LT(acc, r - 2, g.fi, None)

    def op_nabla_div(self, n):
        g = self._grad(n.kids[0])
        r = g.rank
        if r < 2:
            raise Reject("divergence of a scalar")
        if g.arr.shape[0] != g.arr.shape[r - 1]:
            raise Reject("divergence over a different dimension")
        acc = None
        for k in range(g.arr.shape[0]):
            piece = g.arr[(k,) + (slice(None),) * (r - 2) + (k,)]
            acc = piece if acc is None else acc + piece
        return LT(acc, r - 2, g.fi, None)

    def op_curl(self, n):
        g = self._grad(n.kids[0])
        a = g.arr
        if g.fi:
            raise Reject("curl with free indices")
        if g.rank == 2 and a.shape == (3, 3):
            out = np.empty((3,), dtype=object)
            out[0] = a[2, 1] - a[1, 2]
            out[1] = a[0, 2] - a[2, 0]
            out[2] = a[1, 0] - a[0, 1]
            return LT(out, 1, (), None)
        if g.rank == 2 and a.shape == (2, 2):
            return LT(a[1, 0] - a[0, 1], 0, (), None)
        if g.rank == 1 and a.shape == (2,):
            out = np.empty((2,), dtype=object)
            out[0] = a[1] + 0
            out[1] = -a[0]
            return LT(out, 1, (), None)
        raise Reject("curl of this shape")

    def op_dxi(self, n):
        """a.dx(i) with one free Index i as direction."""
        g = self._grad(n.kids[0])
        return getitem(g, (("ell",), ("idx", n.a[0])))

    def op_dx(self, n):
        """a.dx(k1, k2, ...) with fixed directions."""
        node = n.kids[0]
        ks = n.a

        def rec(den, ks):
            if not ks:
                return den.ev(node)
            k = ks[-1]
            p = rec(den.shifted(k, H), ks[:-1])
            m = rec(den.shifted(k, -H), ks[:-1])
            return LT(omap(lambda u, v: (u - v) / (2 * H), p.arr, m.arr), p.rank, p.fi, None)

        return rec(self, tuple(ks))


# algebraic division keeps the name "div" in recipes; the divergence operator is "Div"
def _op_div(self, n):
    return div(self.ev(n.kids[0]), self.ev(n.kids[1]))


Den.op_div = _op_div


def to_complex(arr):
    out = np.empty(arr.shape, dtype=complex)
    for idx in np.ndindex(*arr.shape):
        v = arr[idx]
        out[idx] = complex(MP.re(v), MP.im(v))
    return out
