"""Shared machinery for 'this pass preserves the value' properties.

`check_pass` runs one real UFL pass on one input expression and judges the event with the
reference interpreter on several worlds; on a violation it localises the smallest
sub-expression of the input for which the pass already disagrees and derives the mechanism
key from that sub-expression's skeleton.
"""

import os
import traceback

import numpy as np

from . import oracle
from .seval import S, StructureMismatch
from .world import Ambiguous, Unsupported


def safe_str(o, n=400):
    """str() that survives cyclic or otherwise broken expressions."""
    try:
        return str(o)[:n]
    except RecursionError:
        return "<cyclic expression: str() recursed without end>"
    except Exception as ex:  # pragma: no cover
        return f"<unprintable: {type(ex).__name__}>"


def subexpressions(e):
    """All distinct (by identity) sub-expressions, smallest first."""
    seen = {}
    order = []

    def walk(o):
        if id(o) in seen:
            return seen[id(o)]
        n = 1
        for c in o.ufl_operands:
            n += walk(c)
        seen[id(o)] = n
        order.append((n, o))
        return n

    walk(e)
    order.sort(key=lambda t: t[0])
    return [o for n, o in order]


def skeleton(e, depth=2):
    name = type(e).__name__
    if name == "MathFunction" or hasattr(e, "_name") and name not in ("Constant",):
        name = type(e).__name__
    if e._ufl_is_terminal_ or depth == 0:
        if name == "MultiIndex":
            return "(" + ",".join("f" if type(i).__name__ == "FixedIndex" else "i" for i in e) + ")"
        if name in ("IntValue", "FloatValue", "ComplexValue"):
            return name
        return name
    return name + "(" + ",".join(skeleton(c, depth - 1) for c in e.ufl_operands) + ")"


def node_classes(e):
    out = set()
    seen = set()

    def walk(o):
        if id(o) in seen:
            return
        seen.add(id(o))
        out.add(type(o).__name__)
        for c in o.ufl_operands:
            walk(c)

    walk(e)
    return out


def count_verdicts(ctx, vs, prefix=""):
    for v in vs:
        ctx.count(prefix + "sample_" + v.kind)
        if v.kind == "agree" and v.why:
            ctx.count(prefix + "resolved_by_high_precision")
        if v.kind in ("inconclusive", "skipped") and v.why:
            ctx.covered("inconclusive_reasons", v.why.split(":")[0][:40])


INTERNAL_ERRORS = (IndexError, KeyError, AttributeError, TypeError, UnboundLocalError, NameError, AssertionError)


def crash_is_judged(e, worlds, side):
    """The input of a pass that crashed has a value on at least two worlds (so it is a meaningful expression)."""
    n = 0
    for w in worlds:
        try:
            r = S(e, w, side=side)
            if np.all(np.isfinite(np.asarray(r.arr, dtype=complex))):
                n += 1
        except Exception:
            pass
    return n >= 2


def check_pass(ctx, prop, passname, e, apply, worlds, localise=True, allow_shape_change=False, side=None,
               desc=None, need_agree=2, extra_key="", key_depth=1, key_override=None):
    """Returns 'held' | 'violated' | 'inconclusive' | 'skipped' | 'rejected'."""
    try:
        out = apply(e)
    except Exception as ex:
        ctx.count("rejected")
        ctx.covered("rejected_with", type(ex).__name__)
        if isinstance(ex, INTERNAL_ERRORS) and crash_is_judged(e, worlds, side):
            # a ValueError / NotImplementedError is a refusal; a failed lookup or comparison in the pass's own bookkeeping
            # on an input that has a value is not: the pass did not produce the expression the property promises
            tb = traceback.extract_tb(ex.__traceback__)
            site = next((f"{os.path.basename(fr.filename)}:{fr.name}" for fr in reversed(tb) if "/ufl/" in fr.filename), "?")
            ctx.violation(f"{prop}/{passname}/raises/{type(ex).__name__}/{site}{extra_key}",
                          f"{passname} raises {type(ex).__name__}: {str(ex)[:120]} (in {site}) on an input that has a value",
                          {"input": str(e)[:1500], "desc": desc})
            return "violated", None
        return "rejected", None
    ctx.count("accepted")
    for c in node_classes(e):
        ctx.covered("input_node_classes", c)
    # declared structure must be preserved
    if not allow_shape_change:
        if tuple(out.ufl_shape) != tuple(e.ufl_shape) or tuple(out.ufl_free_indices) != tuple(e.ufl_free_indices) or tuple(
            out.ufl_index_dimensions
        ) != tuple(e.ufl_index_dimensions):
            key = f"{prop}/{passname}/declared-structure-changed/{skeleton(e, 1)}{extra_key}"
            ctx.violation(key, f"{passname}: shape/free indices {e.ufl_shape}/{e.ufl_free_indices} -> {out.ufl_shape}/{out.ufl_free_indices}", {"input": str(e)[:600]})
            return "violated", out
    vs = oracle.preserved(e, out, worlds, side=side)
    count_verdicts(ctx, vs)
    kinds = [v.kind for v in vs]
    if any(k in ("input-structure", "input-ambiguous") for k in kinds):
        ctx.count("input_not_evaluable")
        return "skipped", out
    verdict = oracle.decide(vs, need_agree)
    if "output-ambiguous" in kinds and verdict != "violated":
        verdict = "violated"
        vs = [v for v in vs if v.kind == "output-ambiguous"] + vs
    ctx.count("case_" + verdict)
    if verdict == "violated":
        bad = next(v for v in vs if v.kind in ("disagree", "output-ambiguous"))
        culprit = e
        if localise:
            culprit = localise_culprit(e, apply, worlds, side) or e
        key = f"{prop}/{passname}/{skeleton(culprit, key_depth)}{extra_key}"
        if key_override:
            key = f"{prop}/{passname}/{key_override}"
        ctx.violation(
            key,
            f"{passname} changed the value (rel. err {bad.err}, {bad.why}) on sub-expression {str(culprit)[:300]}",
            {"input": str(e)[:1500], "output": str(out)[:1500], "culprit": str(culprit)[:600], "world": worlds[0].describe(), "desc": desc},
        )
    return verdict, out


def localise_culprit(e, apply, worlds, side=None, limit=400):
    """Smallest sub-expression on which the pass already disagrees with itself."""
    n = 0
    for sub in subexpressions(e):
        if sub._ufl_is_terminal_ and type(sub).__name__ in ("MultiIndex", "Label"):
            continue
        if type(sub).__name__ in ("ExprList", "ExprMapping", "MultiIndex", "Label") or type(sub).__name__.endswith("Condition") or type(sub).__name__ in ("EQ", "NE", "LT", "GT", "LE", "GE"):
            continue
        n += 1
        if n > limit:
            break
        try:
            out = apply(sub)
        except Exception:
            continue
        try:
            vs = oracle.preserved(sub, out, worlds[:2], side=side)
        except Exception:
            continue
        if any(v.kind in ("disagree", "output-ambiguous") for v in vs):
            return sub
    return None
