"""Runtime-monitoring framework for FEniCS/ufl (see /verif/DESIGN.md).

Importing this package
  * puts the git-ignored third-party helper directory (mpmath, icontract, jsonschema;
    installed offline from /opt/veriftools/wheels) on sys.path, installing it if missing;
  * makes sure `ufl` is imported from the repository working tree (VERIF_REPO, default /repo);
  * switches the guard UFL_VERIF on (no source hooks exist; the guard only tells the
    harness-side monitors that they may install themselves).
"""

import os
import subprocess
import sys

VERIF_DIR = os.path.dirname(os.path.dirname(os.path.abspath(__file__)))
REPO_DIR = os.environ.get("VERIF_REPO", "/repo")
DEPS_DIR = os.path.join(VERIF_DIR, ".deps")
WHEELS = "/opt/veriftools/wheels"
NEEDED = ("mpmath", "icontract", "jsonschema")


def ensure_deps():
    """Install helper packages offline into .deps if they are not there yet."""
    missing = [p for p in NEEDED if not os.path.isdir(os.path.join(DEPS_DIR, p))]
    if missing:
        os.makedirs(DEPS_DIR, exist_ok=True)
        lock = os.path.join(DEPS_DIR, ".lock")
        import fcntl

        with open(lock, "w") as fh:
            fcntl.flock(fh, fcntl.LOCK_EX)
            missing = [p for p in NEEDED if not os.path.isdir(os.path.join(DEPS_DIR, p))]
            if missing:
                subprocess.run(
                    [
                        sys.executable,
                        "-m",
                        "pip",
                        "install",
                        "-q",
                        "--no-index",
                        "--find-links",
                        WHEELS,
                        "--target",
                        DEPS_DIR,
                        *NEEDED,
                    ],
                    check=True,
                    stdout=subprocess.DEVNULL,
                    stderr=subprocess.DEVNULL,
                )
    if DEPS_DIR not in sys.path:
        sys.path.append(DEPS_DIR)


def bootstrap():
    ensure_deps()
    os.environ.setdefault("UFL_VERIF", "1")
    sys.dont_write_bytecode = True
    if REPO_DIR not in sys.path:
        sys.path.insert(0, REPO_DIR)
    import ufl

    here = os.path.realpath(os.path.dirname(ufl.__file__))
    want = os.path.realpath(os.path.join(REPO_DIR, "ufl"))
    if here != want:
        raise RuntimeError(f"ufl imported from {here}, expected {want}")
    return ufl


bootstrap()
