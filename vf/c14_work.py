"""Workload of property C14: integrands that place form arguments in every operator position.

Every builder returns `(integrand, arguments, label)` with
  label = 'ok'   multilinear (and, in complex mode, sesquilinear the right way) by construction,
          'bad'  not multilinear in the form's arguments by construction (affine, nonlinear, wrong or missing
                 argument, wrong conjugation),
          None   not classified.
The label is information only (counters); the verdict comes from the value-level oracle in props/C14.py.
"""

import ufl
from ufl import as_matrix, as_tensor, as_vector, conditional, conj, diff, dot, grad, inner, outer, variable

SCALAR_SPACES = ["P1", "P2", "DG1", "P3", "L2P1", "DG0"]
VECTOR_SPACES = ["P1v", "P2v", "DG1v", "RT1", "N1_1", "N1_2", "RT2"]


class Box:
    """Leaves and coefficient sub-expressions of one case."""

    def __init__(self, rng, U, G, cplx, proper_conj=True):
        self.rng, self.U, self.G, self.cplx = rng, U, G, cplx
        self.interior = U.interior
        self.rmode = "need" if self.interior else "free"
        sn = rng.sample(SCALAR_SPACES, 2)
        vn = rng.sample(VECTOR_SPACES, 2)
        self.v = U.arg(sn[0], 0)
        self.u = U.arg(sn[1], 1)
        self.V = U.arg(vn[0], 0)
        self.Uv = U.arg(vn[1], 1)
        # in complex mode the test function has to enter conjugated; `proper_conj` False gives the plain leaf
        self.proper = proper_conj or not cplx
        self.n = U.gdim
        self.i, self.j, self.k, self.l = U.idx

    # -- leaves
    def R(self, e):
        return e(self.rng.choice("+-")) if self.interior else e

    def tv(self):
        """scalar test leaf (conjugated in complex mode when proper)."""
        e = conj(self.v) if (self.cplx and self.proper) else self.v
        return self.R(e)

    def tu(self):
        return self.R(self.u)

    def tV(self):
        e = conj(self.V) if (self.cplx and self.proper) else self.V
        return self.R(e)

    def tU(self):
        return self.R(self.Uv)

    def gv(self):
        """gradient of the scalar test function as a leaf."""
        g = grad(self.v)
        if self.cplx and self.proper:
            g = conj(g)
        return self.R(g)

    def gu(self):
        return self.R(grad(self.u))

    def ok(self, base="ok"):
        return base if self.proper else "bad"

    # -- argument-free parts
    def f(self, d=None):
        d = self.rng.choice([0, 0, 1]) if d is None else d
        return self.G.expr((), d)

    def nz(self):
        """argument-free scalar that is certainly not the literal zero."""
        return self.R(self.U.coef("P2", 1)) + self.f(0) * self.f(0)

    def w(self, n=None, d=None):
        d = self.rng.choice([0, 0, 1]) if d is None else d
        return self.G.expr((n or self.n,), d)

    def A(self, n=None, m=None):
        return self.G.expr((n or self.n, m or self.n), 0)

    def c(self):
        return self.G.condition(self.rng.choice([0, 0, 1]), self.rmode, 0)

    def pos(self):
        return self.G.positive(1, self.rmode, 0)


# ------------------------------------------------------------------------------------ templates


def _lt(b, name):
    rng = b.rng
    i, j = b.i, b.j
    tv, tu, f = b.tv, b.tu, b.f
    n = rng.choice([2, 3])
    if name == "lt-affine-free":
        rows = [tv()] + [b.nz() for _ in range(n - 1)]
        rng.shuffle(rows)
        return as_vector(rows)[i] * b.w(n)[i], (b.v,), "bad"
    if name == "lt-zero-row":
        rows = [tv()] + [0 for _ in range(n - 1)]
        rng.shuffle(rows)
        return as_vector(rows)[i] * b.w(n)[i], (b.v,), b.ok()
    if name == "lt-all-rows":
        rows = [tv() * f() if rng.random() < 0.5 else f() * tv() for _ in range(n)]
        return as_vector(rows)[i] * b.w(n)[i], (b.v,), b.ok()
    if name == "lt-fixed-arg":
        return as_vector([tv(), b.nz()])[0] * f(), (b.v,), b.ok()
    if name == "lt-fixed-free-row":
        return as_vector([tv(), b.nz()])[1] * f(), (b.v,), "bad"
    if name == "lt-dot":
        return dot(as_vector([tv(), b.nz()]), b.w(2)), (b.v,), "bad"
    if name == "lt-inner":
        T = as_vector([tv(), b.nz()])
        W = b.w(2)
        return (inner(T, W) if rng.random() < 0.5 else inner(W, T)), (b.v,), "bad"
    if name == "lt-matrix-affine":
        return as_matrix([[tv(), b.nz()], [b.nz(), tv()]])[i, j] * b.A(2, 2)[i, j], (b.v,), "bad"
    if name == "lt-matrix-diag":
        return as_matrix([[tv(), 0], [0, tv() * f()]])[i, j] * b.A(2, 2)[i, j], (b.v,), b.ok()
    if name == "lt-matrix-row-free":
        return as_matrix([[tv(), tv()], [b.nz(), b.nz()]])[i, j] * b.A(2, 2)[i, j], (b.v,), "bad"
    if name == "lt-ct":
        return as_tensor(as_vector([tv(), b.nz()])[i] * f(), (i,))[j] * b.w(2)[j], (b.v,), "bad"
    if name == "lt-grad-row":
        return as_vector([b.gv()[0], b.nz()])[i] * b.w(2)[i], (b.v,), "bad"
    if name == "lt-nested":
        inner_ = as_vector([tv(), b.nz()])[i] * b.w(2)[i]
        return as_vector([inner_, b.nz()])[j] * b.w(2)[j], (b.v,), "bad"
    if name == "lt-cond-rows":
        e = conditional(b.c(), as_vector([tv(), b.nz()]), as_vector([tv(), b.nz()]))
        return e[i] * b.w(2)[i], (b.v,), "bad"
    if name == "lt-sum-of-rows":
        T = as_vector([tv(), b.nz()])
        return T[0] * f() + T[i] * b.w(2)[i], (b.v,), "bad"
    if name == "lt2-mixed-numbers":
        return as_vector([tv(), tu()])[i] * b.w(2)[i], (b.v, b.u), "bad"
    if name == "lt2-affine":
        return as_vector([tv() * tu(), b.nz()])[i] * b.w(2)[i], (b.v, b.u), "bad"
    if name == "lt2-ok":
        return as_vector([tv() * tu(), f() * tu() * tv()])[i] * b.w(2)[i], (b.v, b.u), b.ok()
    if name == "lt2-outer-affine":
        return tu() * (as_vector([tv(), b.nz()])[i] * b.w(2)[i]), (b.v, b.u), "bad"
    if name == "lt2-sum-inside":
        return as_vector([tv(), f() * tv() + b.nz()])[i] * b.w(2)[i] * tu(), (b.v, b.u), "bad"
    if name == "lt2-trial-row-free":
        return as_vector([tu(), b.nz()])[i] * b.w(2)[i] * tv(), (b.v, b.u), "bad"
    if name == "lt-vector-arg-rows":
        tV = b.tV()
        rows = [tV[0], b.nz()] if rng.random() < 0.5 else [b.nz(), tV[b.n - 1]]
        return as_vector(rows)[i] * b.w(2)[i], (b.V,), "bad"
    if name == "lt-parts":
        sp = b.v.ufl_function_space()
        p0, p1 = ufl.Argument(sp, 0, 0), ufl.Argument(sp, 0, 1)
        l0 = b.R(conj(p0) if b.cplx and b.proper else p0)
        l1 = b.R(conj(p1) if b.cplx and b.proper else p1)
        return as_vector([l0, l1])[i] * b.w(2)[i], (p0, p1), b.ok()
    if name == "lt-parts-affine":
        sp = b.v.ufl_function_space()
        p0, p1 = ufl.Argument(sp, 0, 0), ufl.Argument(sp, 0, 1)
        l0 = b.R(conj(p0) if b.cplx and b.proper else p0)
        l1 = b.R(conj(p1) if b.cplx and b.proper else p1)
        return as_vector([l0, l1, b.nz()])[i] * b.w(3)[i], (p0, p1), "bad"
    raise KeyError(name)


LT = ["lt-affine-free", "lt-zero-row", "lt-all-rows", "lt-fixed-arg", "lt-fixed-free-row", "lt-dot", "lt-inner", "lt-matrix-affine",
      "lt-matrix-diag", "lt-matrix-row-free", "lt-ct", "lt-grad-row", "lt-nested", "lt-cond-rows", "lt-sum-of-rows", "lt2-mixed-numbers",
      "lt2-affine", "lt2-ok", "lt2-outer-affine", "lt2-sum-inside", "lt2-trial-row-free", "lt-vector-arg-rows", "lt-parts", "lt-parts-affine"]


def _cond(b, name):
    tv, tu, f, c = b.tv, b.tu, b.f, b.c
    i = b.i
    if name == "cond-true-zero":
        return conditional(c(), tv(), 0) * f(), (b.v,), b.ok()
    if name == "cond-false-zero":
        return conditional(c(), 0, tv()) * f(), (b.v,), b.ok()
    if name == "cond-both":
        return conditional(c(), tv() * f(), f() * tv()), (b.v,), b.ok()
    if name == "cond-affine":
        return conditional(c(), tv(), b.nz()) * f(), (b.v,), "bad"
    if name == "cond-affine-flipped":
        return conditional(c(), b.nz(), tv()) * f(), (b.v,), "bad"
    if name == "cond-arg-in-condition":
        a = b.R(ufl.real(b.v) if b.cplx else b.v)
        cc = ufl.lt(a, f()) if b.rng.random() < 0.5 else ufl.And(ufl.gt(f(), a), c())
        return conditional(cc, f(), f()) * tv(), (b.v,), "bad"
    if name == "cond-test-trial":
        return conditional(c(), tv(), tu()) * f(), (b.v, b.u), "bad"
    if name == "cond-bilinear":
        if b.rng.random() < 0.5:
            return conditional(c(), tv() * tu(), 0) * f(), (b.v, b.u), b.ok()
        return conditional(c(), tv(), 0) * tu(), (b.v, b.u), b.ok()
    if name == "cond-vector":
        z = ufl.zero(b.V.ufl_shape[0]) if len(b.V.ufl_shape) == 1 else ufl.zero(*b.V.ufl_shape)
        e = conditional(c(), b.tV(), z)
        return e[i] * b.w(b.V.ufl_shape[0])[i], (b.V,), b.ok()
    if name == "cond-difference-branch":
        t = tv()
        return conditional(c(), t * f(), t - t), (b.v,), b.ok()
    if name == "cond-conj-mismatch":
        a = b.R(b.v)
        k = b.rng.randrange(3)
        e = [conditional(c(), a, conj(a)), conditional(c(), conj(a), a), conj(conditional(c(), a, conj(a)))][k]
        return e * f(), (b.v,), ("bad" if b.cplx else "ok")
    if name == "cond-nested":
        return conditional(c(), conditional(c(), tv(), 0), 0) * f(), (b.v,), b.ok()
    if name == "cond-nested-affine":
        return conditional(c(), conditional(c(), tv(), b.nz()), 0) * f(), (b.v,), "bad"
    if name == "cond-trial-one-branch":
        return conditional(c(), tv() * tu(), tv()) * f(), (b.v, b.u), "bad"
    raise KeyError(name)


COND = ["cond-true-zero", "cond-false-zero", "cond-both", "cond-affine", "cond-affine-flipped", "cond-arg-in-condition", "cond-test-trial",
        "cond-bilinear", "cond-vector", "cond-difference-branch", "cond-conj-mismatch", "cond-nested", "cond-nested-affine", "cond-trial-one-branch"]


def _cplx(b, name):
    """conjugation placement: the raw (unconjugated) leaves are used on purpose."""
    rng = b.rng
    R, f = b.R, b.f
    v, u, V, Uv = b.v, b.u, b.V, b.Uv
    i, j = b.i, b.j
    cx = b.cplx
    both = "ok"
    only_real = "bad" if cx else "ok"
    if name == "conj-arg":
        return conj(R(v)) * f(), (v,), both
    if name == "plain-arg":
        return R(v) * f(), (v,), only_real
    if name == "conj-conj":
        if rng.random() < 0.5:
            return conj(conj(R(v))) * f(), (v,), only_real
        return conj(conj(R(v)) * f()) * f(), (v,), only_real
    if name == "conj-conj-conj":
        return conj(conj(conj(R(v)))) * f(), (v,), both
    if name == "real-arg":
        return ufl.real(R(v)) * f(), (v,), ("bad" if cx else None)
    if name == "imag-arg":
        return ufl.imag(R(v)) * f(), (v,), ("bad" if cx else None)
    if name == "abs-arg":
        return abs(R(v)) * f(), (v,), "bad"
    if name == "conj-product":
        return conj(R(v) * f()), (v,), both
    if name == "conj-trial":
        return conj(R(v)) * conj(R(u)) * f(), (v, u), only_real
    if name == "conj-whole-bilinear":
        return conj(R(u) * conj(R(v)) * f()), (v, u), only_real
    if name == "inner-fv":
        return inner(f(), R(v)), (v,), both
    if name == "inner-vf":
        return inner(R(v), f()), (v,), only_real
    if name == "inner-uv":
        return inner(R(u), R(v)) * f(), (v, u), both
    if name == "inner-vu":
        return inner(R(v), R(u)) * f(), (v, u), only_real
    if name == "inner-vec-uv":
        if V.ufl_shape != Uv.ufl_shape:
            return inner(b.w(V.ufl_shape[0]), R(V)), (V,), both
        return inner(R(Uv), R(V)), (V, Uv), both
    if name == "inner-vec-vu":
        if V.ufl_shape != Uv.ufl_shape:
            return inner(R(V), b.w(V.ufl_shape[0])), (V,), only_real
        return inner(R(V), R(Uv)), (V, Uv), only_real
    if name == "inner-grad":
        return inner(R(grad(u)), R(grad(v))) * f(), (v, u), both
    if name == "inner-grad-swapped":
        return inner(R(grad(v)), R(grad(u))) * f(), (v, u), only_real
    if name == "dot-wV":
        return dot(b.w(V.ufl_shape[0]), R(V)), (V,), only_real
    if name == "dot-Vw":
        return dot(R(V), b.w(V.ufl_shape[0])), (V,), only_real
    if name == "dot-w-conjV":
        return dot(b.w(V.ufl_shape[0]), conj(R(V))), (V,), both
    if name == "dot-conjV-w":
        return dot(conj(R(V)), b.w(V.ufl_shape[0])), (V,), both
    if name == "dot-UV":
        if V.ufl_shape != Uv.ufl_shape:
            return dot(b.A(2, V.ufl_shape[0]), R(V))[i] * b.w(2)[i], (V,), only_real
        return dot(R(Uv), R(V)), (V, Uv), only_real
    if name == "dot-gradu-gradv":
        return dot(R(grad(u)), R(grad(v))), (v, u), only_real
    if name == "dot-matrix-conjV":
        return dot(b.A(2, V.ufl_shape[0]), conj(R(V)))[i] * b.w(2)[i], (V,), both
    if name == "outer-VU":
        n, m = V.ufl_shape[0], Uv.ufl_shape[0]
        return outer(R(V), R(Uv))[i, j] * b.A(n, m)[i, j], (V, Uv), both
    if name == "outer-UV":
        n, m = V.ufl_shape[0], Uv.ufl_shape[0]
        return outer(R(Uv), R(V))[i, j] * b.A(m, n)[i, j], (V, Uv), only_real
    if name == "outer-scalar":
        return outer(R(v), R(u)) * f(), (v, u), both
    if name == "outer-Vw":
        n = V.ufl_shape[0]
        return outer(R(V), b.w(2))[i, j] * b.A(n, 2)[i, j], (V,), both
    if name == "outer-wV":
        n = V.ufl_shape[0]
        return outer(b.w(2), R(V))[i, j] * b.A(2, n)[i, j], (V,), only_real
    if name == "sum-conj-mismatch":
        k = rng.randrange(3)
        if k == 0:
            return R(v) * f() + conj(R(v)) * f(), (v,), only_real
        if k == 1:
            return conj(R(v)) * f() + R(v) * f(), (v,), only_real
        return conj(R(v) * f() - conj(R(v))) * f(), (v,), only_real
    raise KeyError(name)


CPLX = ["conj-arg", "plain-arg", "conj-conj", "conj-conj-conj", "real-arg", "imag-arg", "abs-arg", "conj-product", "conj-trial", "conj-whole-bilinear", "inner-fv",
        "inner-vf", "inner-uv", "inner-vu", "inner-vec-uv", "inner-vec-vu", "inner-grad", "inner-grad-swapped", "dot-wV", "dot-Vw",
        "dot-w-conjV", "dot-conjV-w", "dot-UV", "dot-gradu-gradv", "dot-matrix-conjV", "outer-VU", "outer-UV", "outer-scalar", "outer-Vw",
        "outer-wV", "sum-conj-mismatch"]


def _alg(b, name):
    rng = b.rng
    tv, tu, f = b.tv, b.tu, b.f
    if name == "div-by-coef":
        return tv() / b.pos(), (b.v,), b.ok()
    if name == "div-by-arg":
        return f() / tv(), (b.v,), "bad"
    if name == "arg-by-arg":
        return (tv() / tu() if rng.random() < 0.5 else tv() * tu() / tu()), (b.v, b.u), "bad"
    if name == "arg-by-itself":
        return tv() * f() / tv() + tv(), (b.v,), "bad"
    if name == "pow-2":
        return tv() ** 2 * f(), (b.v,), "bad"
    if name == "pow-1":
        return tv() ** 1 * f(), (b.v,), None
    if name == "pow-exponent":
        return (2 ** tv() if rng.random() < 0.5 else b.pos() ** tv()) * f(), (b.v,), "bad"
    if name == "pow-coef-exponent":
        return tv() ** b.pos(), (b.v,), "bad"
    if name == "math":
        k = rng.randrange(18)
        t = tv()
        if k < 13:
            fn = [ufl.sin, ufl.cos, ufl.tan, ufl.exp, ufl.ln, ufl.sqrt, ufl.sinh, ufl.cosh, ufl.tanh, ufl.asin, ufl.acos, ufl.atan, ufl.erf][k]
            e = fn(t)
        elif k == 13:
            e = ufl.atan2(t, b.pos())
        elif k == 14:
            e = ufl.atan2(f(), t)
        else:
            e = [ufl.bessel_J, ufl.bessel_Y, ufl.bessel_I, ufl.bessel_K][k - 15](rng.choice([0, 1]), t)
        return e * f(), (b.v,), "bad"
    if name == "math-linear-part":
        return (ufl.sin(tv()) + tv()) * f(), (b.v,), "bad"
    if name == "sign-abs":
        a = b.R(ufl.real(b.v) if b.cplx else b.v)
        return (ufl.sign(a) if rng.random() < 0.5 else abs(a)) * f(), (b.v,), "bad"
    if name == "minmax":
        a = b.R(ufl.real(b.v) if b.cplx else b.v)
        g = f()
        g = ufl.real(g) if b.cplx else g
        return (ufl.max_value(a, g) if rng.random() < 0.5 else ufl.min_value(g, a)), (b.v,), "bad"
    if name == "square":
        return tv() * tv() * f(), (b.v,), "bad"
    if name == "square-hidden":
        return (tv() * f()) * (f() * tv()), (b.v,), "bad"
    if name == "same-number-other-space":
        names = [k for k in ("P1", "P2", "DG1") if b.U.spaces[k] != b.v.ufl_function_space()]
        v2 = b.U.arg(names[0], 0)
        return tv() * b.R(v2) * f(), (b.v, v2), "bad"
    if name == "sum-affine":
        return tv() * f() + b.nz(), (b.v,), "bad"
    if name == "sum-arity-2-1":
        return tu() * tv() * f() + tv() * f(), (b.v, b.u), "bad"
    if name == "sum-test-plus-trial":
        return tv() * f() + tu() * f(), (b.v, b.u), "bad"
    if name == "sum-ok":
        return tv() * f() + f() * tv() - f() * tv(), (b.v,), b.ok()
    if name == "sum-bilinear-ok":
        return tu() * tv() * f() + f() * tv() * tu(), (b.v, b.u), b.ok()
    if name == "zero-times-arg":
        return 0 * tv() + b.nz(), (b.v,), "bad"
    if name == "zero-times-trial":
        return f() * tv() + 0 * tu() * tv(), (b.v, b.u), "bad"
    if name == "missing-trial":
        return f() * tv(), (b.v, b.u), "bad"
    if name == "extra-trial":
        return f() * tv() * tu(), (b.v,), "bad"
    if name == "only-trial":
        return f() * tu(), (b.u,), "ok"
    if name == "no-arguments":
        return f() * b.nz(), (), "ok"
    if name == "neg-scale":
        return -(3 * tv()) * f() * 0.5, (b.v,), b.ok()
    if name == "bilinear-plain":
        return tu() * tv() * f(), (b.v, b.u), b.ok()
    if name == "trilinear":
        names = [k for k in ("P1", "P2", "DG1")]
        z = b.U.arg(rng.choice(names), 2)
        return tu() * tv() * b.R(z) * f(), (b.v, b.u, z), b.ok()
    raise KeyError(name)


ALG = ["div-by-coef", "div-by-arg", "arg-by-arg", "arg-by-itself", "pow-2", "pow-1", "pow-exponent", "pow-coef-exponent", "math", "math", "math",
       "math-linear-part", "sign-abs", "minmax", "square", "square-hidden", "same-number-other-space", "sum-affine", "sum-arity-2-1",
       "sum-test-plus-trial", "sum-ok", "sum-bilinear-ok", "zero-times-arg", "zero-times-trial", "missing-trial", "extra-trial", "only-trial",
       "no-arguments", "neg-scale", "bilinear-plain", "trilinear"]


def _der(b, name):
    rng = b.rng
    tv, tu, f = b.tv, b.tu, b.f
    U = b.U
    i, j = b.i, b.j
    g = U.gdim
    cj = (lambda e: conj(e)) if (b.cplx and b.proper) else (lambda e: e)
    if name == "var-arg":
        return variable(tv()) * f(), (b.v,), b.ok()
    if name == "var-coef-diff-outside":
        x = variable(b.R(U.coef("P2", 0)))
        return diff(x**2 * f(), x) * tv(), (b.v,), b.ok()
    if name == "var-coef-diff-around-arg":
        x = variable(b.R(U.coef("P2", 0)))
        return diff(x**2 * tv(), x) * f(), (b.v,), b.ok()
    if name == "var-arg-diff":
        x = variable(b.R(b.v))
        return cj(diff(x**2, x)) * f(), (b.v,), None
    if name == "var-arg-diff-linear":
        x = variable(b.R(b.v))
        return diff(x * f(), x) * tv(), (b.v,), None
    if name == "var-affine":
        return variable(tv() + b.nz()) * f(), (b.v,), "bad"
    if name == "var-used-twice":
        x = variable(tv() * f())
        return x + 2 * x, (b.v,), b.ok()
    if name == "var-bilinear":
        return variable(tv() * tu()) * f(), (b.v, b.u), b.ok()
    if name == "var-bilinear-times-trial":
        return variable(tv() * tu()) * tu(), (b.v, b.u), "bad"
    if name == "var-nested":
        return variable(variable(tv()) * f() + f() * variable(tv())), (b.v,), b.ok()
    if name == "var-squared":
        x = variable(tv())
        return x * x, (b.v,), "bad"
    if name == "grad-arg":
        return b.gv()[i] * b.w(g)[i], (b.v,), b.ok()
    if name == "grad-arg-fixed":
        return b.gv()[rng.randrange(g)] * f(), (b.v,), b.ok()
    if name == "dx-arg":
        return b.R(cj(b.v.dx(rng.randrange(g)))) * f(), (b.v,), b.ok()
    if name == "div-arg":
        if b.V.ufl_shape != (g,):
            return b.R(cj(grad(b.V)))[0, 0] * f(), (b.V,), b.ok()
        return b.R(cj(ufl.div(b.V))) * f(), (b.V,), b.ok()
    if name == "curl-arg":
        if g == 2 and b.V.ufl_shape == (2,):
            return b.R(cj(ufl.curl(b.V))) * f(), (b.V,), b.ok()
        if g == 3 and b.V.ufl_shape == (3,):
            return b.R(cj(ufl.curl(b.V)))[i] * b.w(3)[i], (b.V,), b.ok()
        return b.R(cj(ufl.nabla_grad(b.V)))[0, 0] * f(), (b.V,), b.ok()
    if name == "grad-product":
        return b.R(cj(grad(b.v * U.coef("P2", 0))))[i] * b.w(g)[i], (b.v,), b.ok()
    if name == "grad-square":
        return b.R(grad(b.v * b.v))[0] * f(), (b.v,), "bad"
    if name == "grad-affine":
        return b.R(cj(grad(b.v + U.coef("P2", 0))))[0] * f(), (b.v,), "bad"
    if name == "grad-grad":
        return b.R(cj(grad(grad(b.v))))[i, j] * b.A(g, g)[i, j], (b.v,), b.ok()
    if name == "grad-of-math":
        return b.R(grad(ufl.sin(b.v)))[0] * f(), (b.v,), "bad"
    if name == "grad-listtensor":
        T = as_vector([b.v, U.coef("P2", 0)])
        return b.R(cj(grad(T)))[i, j] * b.A(2, g)[i, j], (b.v,), "bad"
    if name == "grad-bilinear":
        return b.gu()[i] * b.gv()[i] * f(), (b.v, b.u), b.ok()
    if name == "grad-uv-product":
        return b.R(grad(b.u * cj(b.v)))[0] * f(), (b.v, b.u), b.ok()
    if name == "ct-wrap":
        tV = b.tV()
        n = tV.ufl_shape[0]
        if len(tV.ufl_shape) != 1:
            raise ValueError
        return as_tensor(tV[i] * f(), (i,))[j] * b.w(n)[j], (b.V,), b.ok()
    if name == "ct-affine":
        tV = b.tV()
        n = tV.ufl_shape[0]
        return as_tensor(tV[i] + b.w(n)[i], (i,))[j] * b.w(n)[j], (b.V,), "bad"
    if name == "ct-outer":
        tV, tU = b.tV(), b.tU()
        n, m = tV.ufl_shape[0], tU.ufl_shape[0]
        return as_tensor(tV[i] * tU[j], (i, j))[j, i] * b.A(m, n)[j, i] if n == m else as_tensor(tV[i] * tU[j], (i, j))[i, j] * b.A(n, m)[i, j], (b.V, b.Uv), b.ok()
    if name == "indexsum-square":
        tV = b.tV()
        return tV[i] * tV[i] * f(), (b.V,), "bad"
    if name == "cell-avg":
        return ufl.cell_avg(tv()) * f(), (b.v,), None
    raise KeyError(name)


DER = ["var-arg", "var-coef-diff-outside", "var-coef-diff-around-arg", "var-arg-diff", "var-arg-diff-linear", "var-affine", "var-used-twice",
       "var-squared", "var-bilinear", "var-bilinear-times-trial", "var-nested", "grad-arg", "grad-arg-fixed", "dx-arg", "div-arg", "curl-arg", "grad-product", "grad-square", "grad-affine", "grad-grad",
       "grad-of-math", "grad-listtensor", "grad-bilinear", "grad-uv-product", "ct-wrap", "ct-affine", "ct-outer", "indexsum-square", "cell-avg"]


def _res(b, name):
    """restrictions (interior facets only): raw leaves, explicit sides."""
    rng = b.rng
    v, u = b.v, b.u
    f = b.f
    cj = (lambda e: conj(e)) if (b.cplx and b.proper) else (lambda e: e)
    s, t = rng.choice(["+-", "-+", "++", "--"])
    fc = b.U.coef("P2", 0)
    if name == "res-arg-coef":
        return cj(v(s)) * fc(t), (v,), b.ok()
    if name == "res-jump-avg":
        return cj(ufl.jump(v)) * ufl.avg(fc) * f(), (v,), b.ok()
    if name == "res-avg-jump-bilinear":
        return ufl.avg(u) * cj(ufl.jump(v)) * f(), (v, u), b.ok()
    if name == "res-both-sides-product":
        return cj(v("+")) * cj(v("-")) * f(), (v,), "bad"
    if name == "res-product-restricted":
        return cj(v * fc)(s) * f(), (v,), b.ok()
    if name == "res-grad-jump":
        return inner(ufl.jump(grad(u)), ufl.jump(grad(v))) * f(), (v, u), "ok"
    if name == "res-affine-jump":
        return cj(ufl.jump(v + fc)) * f(), (v,), "bad"
    if name == "res-listtensor":
        return as_vector([cj(v(s)), fc(t)])[b.i] * b.w(2)[b.i], (v,), "bad"
    if name == "res-listtensor-restricted":
        return as_vector([cj(v), fc])(s)[b.i] * b.w(2)[b.i], (v,), "bad"
    if name == "res-cond":
        return conditional(b.c(), cj(v(s)), 0) * fc(t), (v,), b.ok()
    raise KeyError(name)


RES = ["res-arg-coef", "res-jump-avg", "res-avg-jump-bilinear", "res-both-sides-product", "res-product-restricted", "res-grad-jump",
       "res-affine-jump", "res-listtensor", "res-listtensor-restricted", "res-cond"]

FAMILIES = {"lt": (LT, _lt), "cond": (COND, _cond), "cplx": (CPLX, _cplx), "alg": (ALG, _alg), "der": (DER, _der), "res": (RES, _res)}
ALL_TEMPLATES = [(fam, n) for fam, (names, _) in FAMILIES.items() for n in names]


def build_template(b, fam, name):
    return FAMILIES[fam][1](b, name)


# ------------------------------------------------------------------------------ valid by construction


def linear_piece(b, a, antilinear, depth):
    """Scalar expression containing argument `a` exactly once: antilinear in it when asked (complex mode), else linear."""
    rng, G, U = b.rng, b.G, b.U
    sh = tuple(a.ufl_shape)
    g = U.gdim
    kinds = ["comp", "inner-wa", "inner-aw", "grad-inner", "dx", "index-contract"]
    if len(sh) == 1 and sh[0] == g:
        kinds.append("div")
    k = rng.choice(kinds)
    R = b.R
    anti = False
    if k == "comp":
        e = R(a)
        e = e[tuple(rng.randrange(d) for d in sh)] if sh else e
    elif k == "inner-wa":
        e = inner(G.expr(sh, depth), R(a))
        anti = True
    elif k == "inner-aw":
        e = inner(R(a), G.expr(sh, depth))
    elif k == "grad-inner":
        ga = R(grad(a))
        e = inner(G.expr(tuple(ga.ufl_shape), depth), ga)
        anti = True
    elif k == "dx":
        c = a[tuple(rng.randrange(d) for d in sh)] if sh else a
        e = R(c.dx(rng.randrange(g)))
    elif k == "div":
        e = R(ufl.div(a)) * G.expr((), depth)
    else:
        if not sh:
            e = R(a) * G.expr((), depth)
        else:
            ii = tuple(U.idx[: len(sh)])
            e = R(a)[ii] * G.expr(sh, depth)[ii]
    if b.cplx and anti != antilinear:
        e = conj(e)
    return e


def valid_integrand(b, arity, depth, spaces=None):
    """Sum of products  coefficient-expression * piece(test) * piece(trial) ...; sesquilinear in complex mode."""
    rng, U, G = b.rng, b.U, b.G
    names = spaces or rng.sample(sorted(U.spaces), 2)
    args = [U.arg(names[k % len(names)], k) for k in range(arity)]
    return valid_integrand_for(b, args, depth), tuple(args)


def valid_integrand_for(b, args, depth):
    rng, G = b.rng, b.G
    arity = len(args)
    total = None
    for _ in range(rng.choice([1, 1, 2, 3])):
        term = G.expr((), depth)
        order = list(range(arity))
        rng.shuffle(order)
        for k in order:
            p = linear_piece(b, args[k], antilinear=(k == 0), depth=max(depth - 1, 0))
            term = term * p if rng.random() < 0.5 else p * term
        total = term if total is None else total + term
    return total


MUTATIONS = ["add-coefficient", "multiply-test-again", "math-of-all", "double", "conj-all", "negate", "divide", "cond-zero", "cond-affine",
             "listtensor-affine", "listtensor-zero", "variable", "power-1", "power-2", "divide-by-itself", "subtract-itself-plus-coef"]


def mutate(b, I, args, name):
    """A variation of a valid integrand; label says whether it is still multilinear."""
    rng = b.rng
    i = b.i
    if name == "add-coefficient":
        return I + b.nz(), "bad" if args else "ok"
    if name == "multiply-test-again":
        if not args:
            return I * b.f(), "ok"
        return I * linear_piece(b, args[0], True, 0), "bad"
    if name == "math-of-all":
        return ufl.sin(I), "bad" if args else "ok"
    if name == "double":
        return I + I, "ok"
    if name == "conj-all":
        return conj(I), ("bad" if (b.cplx and args) else "ok")
    if name == "negate":
        return -I * 2, "ok"
    if name == "divide":
        return I / b.pos(), "ok"
    if name == "cond-zero":
        return (conditional(b.c(), I, 0) if rng.random() < 0.5 else conditional(b.c(), 0, I)), "ok"
    if name == "cond-affine":
        return conditional(b.c(), I, b.nz()), "bad" if args else "ok"
    if name == "listtensor-affine":
        rows = [I, b.nz()]
        rng.shuffle(rows)
        return as_vector(rows)[i] * b.w(2)[i], "bad" if args else "ok"
    if name == "listtensor-zero":
        rows = [I, 0, I * b.f()]
        rng.shuffle(rows)
        return as_vector(rows)[i] * b.w(3)[i], "ok"
    if name == "variable":
        x = variable(I)
        return x * b.f(), "ok"
    if name == "power-1":
        return I**1, None
    if name == "power-2":
        return I**2, "bad" if args else "ok"
    if name == "divide-by-itself":
        return I / (I * I + 3), "bad" if args else "ok"
    if name == "subtract-itself-plus-coef":
        return (I - I) + b.nz(), "bad" if args else "ok"
    raise KeyError(name)


def anywhere(b, depth):
    """Random expression of the shared generator with the arguments offered as ordinary leaves: they end up in
    arbitrary operator positions.  Returns (integrand, offered arguments)."""
    rng, G = b.rng, b.G
    pick = rng.random()
    if pick < 0.5:
        offered = [b.v]
    elif pick < 0.7:
        offered = [b.V]
    elif pick < 0.9:
        offered = [b.v, b.u]
    else:
        offered = [b.V, b.u]
    leaves = []
    for a in offered:
        leaf = a
        if b.cplx and a.number() == 0 and rng.random() < 0.75:
            leaf = conj(a)
        leaves.append(leaf)
    old, oldp = G.extra, G.extra_prob
    G.extra = leaves
    G.extra_prob = rng.choice([0.25, 0.4, 0.6])
    try:
        e = G.expr((), depth)
    finally:
        G.extra, G.extra_prob = old, oldp
    return e, tuple(offered)
