"""Form values: Phi(F) = sum over the integrals of F of the integrand's value in a fixed world per integral type.

A `WorldSet` holds one `World` per integral type (same cell type, mode; independent random cells, points
and fields) and is handed to `oracle.compare_once(fin, fout, worldset)` in place of a single world.
`phi(form, ws, B)` is a fixed linear functional of the integrands, so identities between forms
(F = lhs - rhs, block sums, action/adjoint, base-form algebra) can be checked by comparing Phi values under
substitutions of the arguments (`ws.subst(...)`, see seval._substituted).  Nothing here calls UFL algorithms.
"""

from .seval import CB, Result, S
from .world import World

ITYPES = ("cell", "exterior_facet", "interior_facet")


class WorldSet:
    def __init__(self, rng, cell, gdim, cplx=False, itypes=ITYPES, conforming=True):
        self.cell, self.gdim, self.cplx = cell, gdim, cplx
        self.worlds = {it: World(rng, cell, gdim, it, cplx, conforming=conforming) for it in itypes}

    def subst(self, mapping):
        """Install one substitution dict (terminal -> spec) in every world; returns the previous dicts."""
        old = {it: w.subst for it, w in self.worlds.items()}
        for w in self.worlds.values():
            w.subst = dict(mapping)
        return old

    def alias(self, mapping):
        for w in self.worlds.values():
            w.alias.update(mapping)

    def clear(self):
        for w in self.worlds.values():
            w.subst = {}

    def describe(self):
        return {it: w.describe() for it, w in self.worlds.items()}


def integrand_worlds(integral, ws):
    it = integral.integral_type()
    if it not in ws.worlds:
        from .world import Unsupported

        raise Unsupported("integral type " + it)
    return ws.worlds[it]


def phi(form, ws, B=None, subst=None, weights=None):
    """Value of a Form (or list of (integral type, integrand) pairs) on a WorldSet as a seval.Result (scalar).

    subst: optional substitution dict installed for this evaluation only.
    weights: optional dict integral type -> number (default 1)."""
    B = B or CB
    old = ws.subst(subst) if subst is not None else None
    try:
        tot = None
        flags = set()
        mx = 0.0
        items = form.integrals() if hasattr(form, "integrals") else form
        for itg in items:
            if isinstance(itg, tuple):
                it, integrand = itg
                w = ws.worlds[it]
            else:
                it = itg.integral_type()
                w = integrand_worlds(itg, ws)
                integrand = itg.integrand()
            r = S(integrand, w, B)
            if r.rank or r.fi:
                from .seval import StructureMismatch

                raise StructureMismatch("integrand is not a scalar")
            a = r.arr
            if weights and it in weights:
                a = a * B.scalar(weights[it])
            tot = a if tot is None else tot + a
            flags |= r.flags
            mx = max(mx, r.maxabs)
        if tot is None:
            tot = B.zeros(())
        return Result(tot, 0, (), flags, mx)
    finally:
        if old is not None:
            for it, w in ws.worlds.items():
                w.subst = old[it]


def lincomb(B, terms):
    """Result of sum_k c_k * r_k for (number, Result) pairs - for the expected side of an identity."""
    tot = None
    flags = set()
    mx = 0.0
    for c, r in terms:
        a = r.arr * B.scalar(c)
        tot = a if tot is None else tot + a
        flags |= r.flags
        mx = max(mx, r.maxabs)
    if tot is None:
        tot = B.zeros(())
    return Result(tot, 0, (), flags, mx)
