import sys

from .runner import worker_main

if __name__ == "__main__":
    worker_main()
