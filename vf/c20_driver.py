"""C20 driver: executes ONE history of late type registrations / algorithm uses in this (fresh) process.

Usage:  python -B -m vf.c20_driver -        (JSON list of steps on stdin; a JSON argument works too)
        python -B -m vf.c20_driver --list   (print the catalogue of algorithm entries and late-type kinds)

Steps
  {"op": "R", "kind": k}                                   define + register a new Expr subclass of kind k
  {"op": "I", "alg": A, "hold": bool}                      instantiate algorithm class A (optionally keep the instance)
  {"op": "U", "alg": A, "target": "old" | k, "ctx": c,
   "inst": "fresh" | "held"}                               apply A to the expression ctx_c(N_target)

Prints one line `C20RESULT <json>`: {"steps": [outcome per step], "ntypes": ..}.  The outcome of a U step is
  status   "ok" | "exc"
  canon    repr of the canonical serialisation of the result (status ok)
  exc      exception class name, `table`: the innermost frame (file, function) when the exception is an
           IndexError/KeyError raised by a typecode-indexed table lookup
  trace    sorted qualnames of the algorithm methods that received an instance of a late type as their node
           argument (observed with sys.setprofile while the real algorithm runs)
Nothing here reads UFL's dispatch tables; the driver only *uses* the algorithms.
"""

import json
import linecache
import os
import sys
import traceback

import vf  # noqa: F401  (puts the selected repository on sys.path)

import ufl  # noqa: E402
import ufl.algorithms  # noqa: E402
import ufl.formatting.ufl2unicode  # noqa: E402
from ufl.algorithms.transformer import Transformer  # noqa: E402
from ufl.core.operator import Operator  # noqa: E402
from ufl.core.terminal import Terminal  # noqa: E402
from ufl.core.ufl_type import ufl_type  # noqa: E402
from ufl.corealg.dag_traverser import DAGTraverser  # noqa: E402
from ufl.corealg.map_dag import map_expr_dag  # noqa: E402
from ufl.corealg.multifunction import MultiFunction  # noqa: E402

from vf.canon import canon, canon_value  # noqa: E402

KINDS = ["op", "sub_sum", "sub_sin", "sub_grad", "terminal", "geo", "sub_jac", "math"]


# ----------------------------------------------------------------------------------------------
# world
# ----------------------------------------------------------------------------------------------
class Env:
    pass


def build_world():
    from vf import elements as el

    e = Env()
    e.mesh = el.mesh_for("triangle", 2)
    e.P2 = el.P("triangle", 2)
    e.V1 = el.P("triangle", 1, (2,))
    e.RT = el.RT("triangle", 1)
    e.S = ufl.FunctionSpace(e.mesh, e.P2)
    e.W = ufl.FunctionSpace(e.mesh, e.V1)
    e.Q = ufl.FunctionSpace(e.mesh, e.RT)
    e.f = ufl.Coefficient(e.S)
    e.g = ufl.Coefficient(e.S)
    e.h = ufl.Coefficient(e.S)
    e.w = ufl.Coefficient(e.W)
    e.q = ufl.Coefficient(e.Q)
    e.u = ufl.TrialFunction(e.S)
    e.v = ufl.TestFunction(e.S)
    e.c = ufl.Constant(e.mesh)
    e.x = ufl.SpatialCoordinate(e.mesh)
    e.i, e.j = ufl.indices(2)
    e.dx = ufl.Measure("dx", domain=e.mesh)
    e.dS = ufl.Measure("dS", domain=e.mesh)
    e.new = {}  # kind -> class
    e.held = {}  # alg -> instance
    return e


# ----------------------------------------------------------------------------------------------
# late types
# ----------------------------------------------------------------------------------------------
def register(kind, env):
    """Define and register a new Expr subclass after UFL has been imported (and possibly used)."""
    from ufl.classes import GeometricCellQuantity, Grad, MathFunction, Sin, Sum

    mesh = env.mesh
    if kind == "op":

        @ufl_type(num_ops=1, inherit_shape_from_operand=0, inherit_indices_from_operand=0)
        class LateOp(Operator):
            __slots__ = ()

            def __init__(self, a):
                Operator.__init__(self, (a,))

            def __str__(self):
                return f"late_op({self.ufl_operands[0]})"

        cls = LateOp
    elif kind == "sub_sum":

        @ufl_type(num_ops=2, inherit_shape_from_operand=0, inherit_indices_from_operand=0)
        class LateSum(Sum):
            __slots__ = ()

        cls = LateSum
    elif kind == "sub_sin":

        @ufl_type()
        class LateSin(Sin):
            __slots__ = ()

        cls = LateSin
    elif kind == "sub_grad":

        @ufl_type(num_ops=1, inherit_indices_from_operand=0, is_terminal_modifier=True)
        class LateGrad(Grad):
            __slots__ = ()

        cls = LateGrad
    elif kind == "terminal":

        @ufl_type(is_scalar=True)
        class LateTerminal(Terminal):
            __slots__ = ()

            def __init__(self):
                Terminal.__init__(self)

            def ufl_domains(self):
                return (mesh,)

            def is_cellwise_constant(self):
                return False

            def __str__(self):
                return "late_terminal"

            def __repr__(self):
                return "LateTerminal()"

        cls = LateTerminal
    elif kind == "geo":

        @ufl_type()
        class LateGeo(GeometricCellQuantity):
            __slots__ = ()
            name = "late_geo"

        cls = LateGeo
    elif kind == "sub_jac":
        from ufl.classes import Jacobian

        @ufl_type()
        class LateJacobian(Jacobian):
            """A downstream Jacobian (e.g. of a moving mesh): handled by every algorithm like the Jacobian itself."""

            __slots__ = ()
            name = "late_J"

        cls = LateJacobian
    elif kind == "math":

        @ufl_type()
        class LateMath(MathFunction):
            __slots__ = ()

            def __init__(self, a):
                MathFunction.__init__(self, "late_math", a)

        cls = LateMath
    else:
        raise ValueError(kind)
    env.new[kind] = cls
    return cls


class Sym:
    """The leaf symbols the expressions are built from (physical or reference frame)."""

    def __init__(self, env, frame):
        if frame == "reference":
            RV = ufl.classes.ReferenceValue
            self.f, self.g, self.w = RV(env.f), RV(env.g), RV(env.w)
            self.grad = ufl.classes.ReferenceGrad
        else:
            self.f, self.g, self.w = env.f, env.g, env.w
            self.grad = ufl.grad


def node(target, env, s):
    """A scalar expression: an instance of the late type `target`, or an old-type stand-in."""
    f, g = s.f, s.g
    if target == "old":
        return ufl.cos(f) + g
    cls = env.new[target]
    if target == "op":
        return cls(f * g)
    if target == "sub_sum":
        return cls(f, g)
    if target == "sub_sin":
        return cls(f)
    if target == "sub_grad":
        return cls(f)[1]
    if target == "terminal":
        return cls()
    if target == "geo":
        return cls(env.mesh)
    if target == "sub_jac":
        return cls(env.mesh)[0, 0]
    if target == "math":
        return cls(f)
    raise ValueError(target)


def context(c, N, env, s):
    """Scalar expression around N.  Contexts 0-5 use index notation only (no compound tensor
    operators), so that no lowering pass has to run before the algorithm under observation."""
    f, g, w = s.f, s.g, s.w
    i = env.i
    if c == 0:
        return N
    if c == 1:
        return N * g + f
    if c == 2:
        return s.grad(N * f)[i] * w[i]
    if c == 3:
        return ufl.conditional(ufl.lt(N, g), f, N**2)
    if c == 4:
        return ufl.as_vector([N, f])[i] * w[i] + (w[0] * w[1] + N) ** 2
    if c == 5:
        return N("+") * f("-") + 0.5 * (N("+") + N("-")) * (g("+") - g("-"))
    if c == 6:
        return ufl.inner(s.grad(N * f), w) + ufl.det(ufl.outer(w, w) + N * ufl.Identity(2))
    raise ValueError(c)


GENERIC_CTXS = [0, 1, 2, 3, 4, 6]


# ----------------------------------------------------------------------------------------------
# algorithm catalogue
# ----------------------------------------------------------------------------------------------
# name -> dict(base=..., cls=class or None, make=callable(env)->instance, run=callable(inst, E, env)->result,
#              ctxs=list of contexts)
ENTRIES = {}


def _mf_run(inst, E, env):
    return map_expr_dag(inst, E)


def _tr_run(inst, E, env):
    return inst.visit(E)


def _dt_run(inst, E, env):
    return inst(E)


def _bfo_args(env):
    ext = ufl.classes.ExternalOperator(env.f, function_space=env.S)
    return (ufl.classes.ExprList(env.f), ufl.classes.ExprList(env.v), ufl.classes.ExprMapping(), ext)


CLASS_ARGS = {
    # constructor arguments of the algorithm classes that need some
    "GeometryLoweringApplier": lambda env: ((),),
    "ArityChecker": lambda env: ((env.v, env.u),),
    "RestrictionChecker": lambda env: (False,),
    "SumDegreeEstimator": lambda env: (1, {}),
    "IndexReplacer": lambda env: ({env.i: env.j},),
    "Replacer": lambda env: ({env.f: env.h},),
    "DerivativeNodeReplacer": lambda env: ({env.f: env.h},),
    "PartExtracter": lambda env: ([env.v],),
    "CoefficientSplitter": lambda env: ({},),
    "GenericDerivativeRuleset": lambda env: ((),),
    "GradRuleset": lambda env: (2,),
    "ReferenceGradRuleset": lambda env: (2,),
    "VariableRuleset": lambda env: (env.f,),
    "GateauxDerivativeRuleset": lambda env: (
        ufl.classes.ExprList(env.f),
        ufl.classes.ExprList(env.v),
        ufl.classes.ExprMapping(),
    ),
    "BaseFormOperatorDerivativeRuleset": _bfo_args,
    "CoordinateDerivativeRuleset": lambda env: (
        ufl.classes.ExprList(env.x),
        ufl.classes.ExprList(ufl.TestFunction(env.W)),
        ufl.classes.ExprMapping(),
    ),
}
CLASS_CTXS = {
    "RestrictionPropagator": [5, 0, 1, 3],
    "RestrictionChecker": [5, 0, 1, 3],
    "BalanceModifiers": [5, 0, 1, 2],
}
CLASS_FRAME = {"ReferenceGradRuleset": "reference", "CoordinateDerivativeRuleset": "reference"}
CLASS_PRE = {
    # what the class is applied to, as a function of the generic expression (plain constructors only:
    # no UFL algorithm may run here, it would be a second algorithm use inside the step)
    "ArityChecker": lambda E, env: E * env.v,
    "PartExtracter": lambda E, env: E * env.v,
    "DerivativeRuleDispatcher": lambda E, env: ufl.grad(E),
    "CoordinateDerivativeRuleDispatcher": lambda E, env: ufl.classes.CoordinateDerivative(
        E,
        ufl.classes.ExprList(env.x),
        ufl.classes.ExprList(ufl.TestFunction(env.W)),
        ufl.classes.ExprMapping(),
    ),
    "FunctionPullbackApplier": lambda E, env: E * env.q[0],
    "GeometryLoweringApplier": lambda E, env: E * ufl.CellVolume(env.mesh) * ufl.FacetNormal(env.mesh)[0],
    "ChangeToReferenceGrad": lambda E, env: E + ufl.grad(env.f)[0],
    "CheckComparisons": lambda E, env: ufl.conditional(ufl.gt(ufl.real(E), ufl.real(env.g)), E, env.g),
    "ComplexNodeRemoval": lambda E, env: ufl.conj(E) * ufl.real(env.g),
    "IndexRemover": lambda E, env: E + ufl.as_tensor(env.w[env.j] * E, (env.j,))[0],
    "VariableStripper": lambda E, env: ufl.variable(E) * env.g,
    "GateauxDerivativeRuleset": lambda E, env: E,
}


def _is_alg_class(c):
    return isinstance(c, type) and issubclass(c, (MultiFunction, Transformer, DAGTraverser))


def base_of(c):
    if issubclass(c, MultiFunction):
        return "MultiFunction"
    if issubclass(c, Transformer):
        return "Transformer"
    return "DAGTraverser"


def discover_classes():
    """Every MultiFunction / Transformer / DAGTraverser subclass defined in a ufl.* module."""
    import importlib
    import pkgutil

    found = {}
    for m in pkgutil.walk_packages(ufl.__path__, "ufl."):
        try:
            mod = importlib.import_module(m.name)
        except Exception:
            continue
        for n, c in sorted(vars(mod).items()):
            if _is_alg_class(c) and c.__module__ == mod.__name__:
                found[c.__name__] = c
    return found


def _class_entry(name, cls):
    args = CLASS_ARGS.get(name)
    pre = CLASS_PRE.get(name)
    b = base_of(cls)
    runner = {"MultiFunction": _mf_run, "Transformer": _tr_run, "DAGTraverser": _dt_run}[b]

    def make(env):
        a = args(env) if args else ()
        return cls(*a)

    def run(inst, E, env):
        if pre:
            E = pre(E, env)
        return runner(inst, E, env)

    return dict(
        base=b, cls=cls, make=make, run=run, ctxs=CLASS_CTXS.get(name, GENERIC_CTXS), frame=CLASS_FRAME.get(name, "physical")
    )


def _fn(base, f, ctxs=None):
    return dict(base=base, cls=None, make=None, run=lambda inst, E, env: f(E, env), ctxs=ctxs or GENERIC_CTXS, frame="physical")


def build_entries():
    A = ufl.algorithms
    for name, cls in sorted(discover_classes().items()):
        ENTRIES["cls:" + name] = _class_entry(name, cls)

    def fn(name, base, f, ctxs=None):
        ENTRIES["fn:" + name] = _fn(base, f, ctxs)

    from ufl.algorithms.apply_algebra_lowering import apply_algebra_lowering
    from ufl.algorithms.apply_derivatives import apply_coordinate_derivatives, apply_derivatives
    from ufl.algorithms.apply_function_pullbacks import apply_function_pullbacks
    from ufl.algorithms.apply_geometry_lowering import apply_geometry_lowering
    from ufl.algorithms.apply_restrictions import apply_restrictions
    from ufl.algorithms.balancing import balance_modifiers
    from ufl.algorithms.cancel_jacobian_products import cancel_jacobian_products
    from ufl.algorithms.change_to_reference import change_to_reference_grad
    from ufl.algorithms.check_arities import check_integrand_arity
    from ufl.algorithms.check_restrictions import check_restrictions
    from ufl.algorithms.comparison_checker import do_comparison_check
    from ufl.algorithms.remove_complex_nodes import remove_complex_nodes
    from ufl.algorithms.remove_component_tensors import remove_component_tensors
    from ufl.algorithms.renumbering import renumber_indices
    from ufl.algorithms.signature import compute_expression_signature
    from ufl.algorithms.strip_terminal_data import strip_terminal_data
    from ufl.algorithms.transformer import strip_variables
    from ufl.corealg.traversal import unique_post_traversal
    from ufl.utils.formatting import tree_format
    from ufl.formatting.ufl2unicode import ufl2unicode
    from ufl.sorting import sorted_expr

    Wv = lambda env: ufl.TestFunction(env.W)  # noqa: E731
    fn("apply_algebra_lowering", "MultiFunction", lambda E, env: apply_algebra_lowering(E))
    fn("apply_algebra_lowering_form", "MultiFunction", lambda E, env: apply_algebra_lowering(E * env.v * env.dx))
    fn("apply_derivatives", "DAGTraverser", lambda E, env: apply_derivatives(ufl.grad(E)))
    fn("apply_derivatives_gateaux", "DAGTraverser", lambda E, env: apply_derivatives(ufl.derivative(E * env.dx, env.f, env.v)))
    fn("apply_derivatives_variable", "DAGTraverser", lambda E, env: _diff(E, env, apply_derivatives))
    fn(
        "apply_coordinate_derivatives",
        "DAGTraverser",
        lambda E, env: apply_coordinate_derivatives(ufl.derivative(E * env.dx, env.x, Wv(env))),
    )
    fn("expand_derivatives", "mixed", lambda E, env: A.expand_derivatives(ufl.derivative(E * env.dx, env.f, env.v)))
    fn("expand_indices", "Transformer", lambda E, env: A.expand_indices(E))
    fn("expand_indices_after_derivatives", "mixed", lambda E, env: A.expand_indices(apply_derivatives(apply_algebra_lowering(E))))
    fn("renumber_indices", "MultiFunction", lambda E, env: renumber_indices(E))
    fn("remove_complex_nodes", "MultiFunction", lambda E, env: remove_complex_nodes(ufl.conj(E) * ufl.real(env.g)))
    fn("estimate_total_polynomial_degree", "MultiFunction", lambda E, env: A.estimate_total_polynomial_degree(E))
    fn(
        "estimate_total_polynomial_degree_form",
        "MultiFunction",
        lambda E, env: A.estimate_total_polynomial_degree(E * env.v * env.dx),
    )
    fn("hash", "table", lambda E, env: hash(E))
    fn("expr_equality", "table", lambda E, env: (E == env.f * env.g, E == E * env.g + env.f, E == E))
    fn(
        "compute_expression_signature",
        "MultiFunction",
        lambda E, env: compute_expression_signature(E, (E * env.dx)._compute_renumbering()),
    )
    fn("form_signature", "MultiFunction", lambda E, env: (E * env.v * env.dx).signature())
    fn("replace", "MultiFunction", lambda E, env: A.replace(E, {env.f: env.h}))
    fn("replace_form", "MultiFunction", lambda E, env: A.replace(E * env.v * env.dx, {env.f: env.h, env.v: env.u}))
    fn("apply_function_pullbacks", "MultiFunction", lambda E, env: apply_function_pullbacks(E * env.q[0]))
    fn(
        "apply_geometry_lowering",
        "MultiFunction",
        lambda E, env: apply_geometry_lowering(E * ufl.CellVolume(env.mesh) * ufl.FacetNormal(env.mesh)[0]),
    )
    fn("apply_geometry_lowering_preserving", "MultiFunction", _geo_preserve)
    fn("apply_restrictions", "MultiFunction", lambda E, env: apply_restrictions(E * env.dS), ctxs=[5])
    fn(
        "apply_restrictions_default",
        "MultiFunction",
        lambda E, env: apply_restrictions(E * ufl.FacetArea(env.mesh) * env.dS),
        ctxs=[5],
    )
    fn("check_restrictions", "MultiFunction", lambda E, env: check_restrictions(E, True), ctxs=[5, 0])
    fn(
        "check_integrand_arity",
        "MultiFunction",
        lambda E, env: check_integrand_arity(E * env.v * env.u, (env.v, env.u)),
    )
    fn(
        "do_comparison_check",
        "MultiFunction",
        lambda E, env: do_comparison_check(ufl.conditional(ufl.gt(ufl.real(E), ufl.real(env.g)), E, env.g) * env.dx),
    )
    fn(
        "remove_component_tensors",
        "MultiFunction",
        lambda E, env: remove_component_tensors(E + ufl.as_tensor(env.w[env.j] * E, (env.j,))[0]),
    )
    fn("strip_terminal_data", "MultiFunction", lambda E, env: strip_terminal_data(E * env.v * env.dx)[0])
    fn("strip_variables", "Transformer", lambda E, env: strip_variables(ufl.variable(E) * env.g))
    fn("change_to_reference_grad", "MultiFunction", lambda E, env: change_to_reference_grad(E + ufl.grad(env.f)[0]))
    fn("balance_modifiers", "MultiFunction", lambda E, env: balance_modifiers(E), ctxs=[5, 0, 1])
    fn(
        "cancel_jacobian_products",
        "DAGTraverser",
        lambda E, env: cancel_jacobian_products(E * ufl.Jacobian(env.mesh)[0, env.i] * ufl.JacobianInverse(env.mesh)[env.i, 0]),
    )
    fn("extract_blocks", "MultiFunction", lambda E, env: _blocks(E, env))
    FT = A.formtransformations
    fn("compute_form_lhs", "Transformer", lambda E, env: FT.compute_form_lhs((E * env.u * env.v + E * env.v) * env.dx))
    fn("compute_form_rhs", "Transformer", lambda E, env: FT.compute_form_rhs((E * env.u * env.v + E * env.v) * env.dx))
    fn("compute_form_action", "mixed", lambda E, env: FT.compute_form_action(E * env.u * env.v * env.dx, env.h))
    fn("compute_form_adjoint", "MultiFunction", lambda E, env: FT.compute_form_adjoint(E * env.u * env.v * env.dx))
    fn("compute_form_data", "mixed", lambda E, env: _cfd(E, env, False))
    fn("compute_form_data_lowered", "mixed", lambda E, env: _cfd(E, env, True))
    fn("compute_form_data_dS", "mixed", lambda E, env: _cfd(E, env, True, True), ctxs=[5])
    fn(
        "apply_coefficient_split",
        "DAGTraverser",
        lambda E, env: A.apply_coefficient_split.apply_coefficient_split(E, {}),
    )
    fn(
        "replace_derivative_nodes",
        "MultiFunction",
        lambda E, env: A.replace_derivative_nodes.replace_derivative_nodes(
            ufl.derivative(E * env.dx, env.f, env.v), {env.f: env.h}
        ),
    )
    fn("ufl2unicode", "DAGTraverser", lambda E, env: ufl2unicode(E))
    fn("str", "table", lambda E, env: str(E))
    fn("repr", "table", lambda E, env: repr(E))
    fn("tree_format", "table", lambda E, env: tree_format(E))
    fn("sorted_expr", "table", lambda E, env: tuple(sorted_expr([E, env.f * env.g, env.again(), E * env.g, env.f, E * env.g + env.f])))
    fn("sum_of_equal_nodes", "table", lambda E, env: E + env.again() + E * env.again())
    fn("unique_post_traversal", "table", lambda E, env: tuple(unique_post_traversal(E)))
    fn("cutoff_traversal", "table", _cutoff)
    fn(
        "map_expr_dag_plain_function",
        "table",
        lambda E, env: map_expr_dag(lambda o, *ops: (type(o).__name__, len(ops)), E),
    )
    fn("extract_type", "table", _extract)
    fn(
        "has_type",
        "table",
        lambda E, env: (
            A.analysis.has_type(E, ufl.classes.Sum),
            A.analysis.has_type(E, ufl.classes.Sin),
            A.analysis.has_exact_type(E, ufl.classes.Sum),
        ),
    )
    fn("is_cellwise_constant", "table", lambda E, env: ufl.checks.is_cellwise_constant(E))
    fn("extract_coefficients", "table", lambda E, env: tuple(A.extract_coefficients(E)))


def _diff(E, env, apply_derivatives):
    v = ufl.variable(env.g * env.g)
    return apply_derivatives(ufl.diff(E * v, v))


def _geo_preserve(E, env):
    from ufl.algorithms.apply_geometry_lowering import apply_geometry_lowering

    keep = (ufl.classes.CellVolume,)
    if env.cur_target != "old":
        keep = keep + (env.new[env.cur_target],)
    return apply_geometry_lowering(E * ufl.CellVolume(env.mesh) * ufl.FacetNormal(env.mesh)[0], keep)


def _cutoff(E, env):
    from ufl.corealg.traversal import cutoff_post_traversal, cutoff_unique_post_traversal

    n = ufl.classes.Expr._ufl_num_typecodes_
    return tuple(cutoff_unique_post_traversal(E, [False] * n, set())) + tuple(cutoff_post_traversal(E, [False] * n))


def _extract(E, env):
    from ufl.algorithms.analysis import extract_type

    ops = sorted(type(o).__name__ for o in extract_type(E, ufl.classes.Operator))
    ts = sorted(type(o).__name__ for o in extract_type(E, ufl.classes.Terminal))
    return ops + ts


def _blocks(E, env):
    from ufl.algorithms.formsplitter import extract_blocks

    M = ufl.MixedFunctionSpace(env.S, env.S)
    u0, u1 = ufl.TrialFunctions(M)
    v0, v1 = ufl.TestFunctions(M)
    a = (E * u0 * v0 + E * u1 * v1) * env.dx
    return extract_blocks(a, 0, 0)


def _cfd(E, env, lowered, facet=False):
    from ufl.algorithms import compute_form_data

    form = E * env.v("+") * env.dS if facet else E * env.v * env.dx
    fd = compute_form_data(
        form,
        do_apply_function_pullbacks=lowered,
        do_apply_geometry_lowering=lowered,
        do_apply_integral_scaling=lowered,
    )
    return tuple(itg for idata in fd.integral_data for itg in idata.integrals)


# ----------------------------------------------------------------------------------------------
# observation
# ----------------------------------------------------------------------------------------------
class Tracer:
    """Records which algorithm methods are entered with a late-type instance as the node argument."""

    def __init__(self, classes):
        self.classes = tuple(classes)
        self.names = set()

    def __call__(self, frame, event, arg):
        if event != "call" or not self.classes:
            return
        code = frame.f_code
        if code.co_argcount < 2 or code.co_varnames[0] != "self" or not code.co_filename.startswith(UFL_DIR):
            return
        loc = frame.f_locals
        vn = code.co_varnames
        o = loc.get(vn[1])
        if isinstance(o, self.classes):
            s = loc.get(vn[0])
            if isinstance(s, (MultiFunction, Transformer, DAGTraverser)):
                self.names.add(code.co_qualname)


UFL_DIR = os.path.dirname(os.path.abspath(ufl.__file__)) + os.sep
TABLE_EXC = (IndexError, KeyError)


def classify_exception(e):
    tb = e.__traceback__
    last = None
    for fs in traceback.extract_tb(tb):
        last = fs
    info = {"exc": type(e).__name__, "msg": str(e)[:160]}
    if last is not None:
        fn = last.filename
        info["where"] = [os.path.basename(fn), last.name, last.lineno]
        line = linecache.getline(fn, last.lineno).strip()
        info["line"] = line[:160]
        # a failed lookup in a table indexed by the typecode of the node: the exception comes from the
        # subscript expression itself (innermost frame), not from inside a handler
        info["table"] = bool(isinstance(e, TABLE_EXC) and "_ufl_typecode_" in line and "/ufl/" in fn.replace("\\", "/"))
    else:
        info["table"] = False
    return info


def result_canon(r):
    from ufl.core.expr import Expr
    from ufl.form import BaseForm
    from ufl.integral import Integral

    def one(x):
        if isinstance(x, (Expr, BaseForm, Integral)):
            return canon(x, "rel")
        if isinstance(x, (tuple, list)):
            return (type(x).__name__, tuple(one(y) for y in x))
        if isinstance(x, dict):
            return ("dict", tuple(sorted(((one(k), one(v)) for k, v in x.items()), key=repr)))
        return canon_value(x)

    return one(r)


def reset_counters(base):
    """Give the global object counters a fixed start for this step, so that what a step creates (indices,
    labels, ...) does not depend on how far earlier steps got before they raised."""
    import itertools

    from ufl.classes import BaseFormOperator, Coefficient, Constant, Index, Label, Matrix

    for c in (Index, Coefficient, Constant, Label, Matrix, BaseFormOperator):
        c._counter = itertools.count(base)


def do_step(st, env):
    op = st["op"]
    if op != "R":
        env.nstep += 1
        reset_counters(10000 + 1000 * env.nstep)
    if op == "R":
        try:
            cls = register(st["kind"], env)
        except BaseException as e:  # a registration that fails is an outcome as well
            return {"status": "exc", **classify_exception(e)}
        return {"status": "ok", "canon": repr(cls._ufl_typecode_ - env.base_ntypes)}
    ent = ENTRIES[st["alg"]]
    if op == "I":
        try:
            inst = ent["make"](env)
        except BaseException as e:  # constructor failures are outcomes too
            return {"status": "exc", **classify_exception(e)}
        if st.get("hold"):
            env.held[st["alg"]] = inst
        return {"status": "ok"}
    if op == "U":
        tracer = Tracer(env.new.values())
        try:
            env.cur_target = st["target"]
            sym = Sym(env, ent["frame"])
            N = node(st["target"], env, sym)
            E = context(st["ctx"], N, env, sym)
            # a second, equal but distinct expression (for comparisons between nodes of the same late type)
            env.again = lambda: context(st["ctx"], node(st["target"], env, sym), env, sym)
        except BaseException as e:
            out = {"status": "exc", "phase": "build", **classify_exception(e)}
            out["trace"] = []
            return out
        try:
            if st.get("inst") == "held":
                inst = env.held[st["alg"]]
            elif ent["make"] is not None:
                inst = ent["make"](env)
            else:
                inst = None
            sys.setprofile(tracer)
            try:
                r = ent["run"](inst, E, env)
            finally:
                sys.setprofile(None)
            c = result_canon(r)
            out = {"status": "ok", "canon": repr(c)}
        except BaseException as e:
            sys.setprofile(None)
            out = {"status": "exc", "phase": "run", **classify_exception(e)}
        out["trace"] = sorted(tracer.names)
        return out
    raise ValueError(op)


def main(argv):
    build_entries()
    if argv and argv[0] == "--list":
        cat = {k: {"base": v["base"], "is_class": v["cls"] is not None, "ctxs": v["ctxs"]} for k, v in ENTRIES.items()}
        print("C20RESULT " + json.dumps({"entries": cat, "kinds": KINDS}))
        return 0
    steps = json.loads(sys.stdin.read() if argv[0] == "-" else argv[0])
    env = build_world()
    env.base_ntypes = ufl.classes.Expr._ufl_num_typecodes_
    env.nstep = 0
    outs = []
    import time

    for st in steps:
        t0 = time.perf_counter()
        outs.append(do_step(st, env))
        outs[-1]["dt"] = round(time.perf_counter() - t0, 4)
    print("C20RESULT " + json.dumps({"steps": outs, "ntypes": env.base_ntypes}))
    return 0


if __name__ == "__main__":
    sys.exit(main(sys.argv[1:]))
