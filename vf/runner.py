"""Check runner: splits a run into worker subprocesses, merges their observations, classifies
violations against known_findings.json, writes evidence/<id>.json and prints the verdict.

Exit codes: 0 = held on everything observed (KNOWN-FINDING lines allowed),
            1 = violation not listed as known (VIOLATION line printed),
            2 = inconclusive / broken harness (no VIOLATION line; details on stderr).
"""

import argparse
import hashlib
import importlib
import json
import os
import random
import re
import subprocess
import sys
import time
import traceback

from . import REPO_DIR, VERIF_DIR

EVID = os.path.join(VERIF_DIR, "evidence")
WORK = os.path.join(EVID, ".work")
REPLAYS = os.path.join(EVID, "replays")
# a run against a scratch copy of the repository (VERIF_REPO, sensitivity experiments) must not
# overwrite the evidence of the real tree: its evidence and replays go to the git-ignored work dir
SCRATCH_RUN = os.path.realpath(REPO_DIR) != "/repo"
if SCRATCH_RUN:
    REPLAYS = os.path.join(WORK, "scratch-replays")
NCPU = 16


def digest(obj):
    return hashlib.sha1(repr(obj).encode()).hexdigest()[:16]


class Ctx:
    """What a property module sees inside a worker."""

    def __init__(self, prop, tier, seed, sub, nsub, deadline):
        self.prop = prop
        self.tier = tier
        self.seed = seed
        self.sub = sub
        self.nsub = nsub
        self.deadline = deadline
        self.counters = {}
        self.distinct = set()
        self.samples = []
        self.violations = []
        self.cover = {}
        self.notes = []
        self.case_index = None

    def count(self, name, n=1):
        self.counters[name] = self.counters.get(name, 0) + n

    def add_distinct(self, obj):
        self.distinct.add(digest(obj))

    def sample(self, obj, limit=4):
        if len(self.samples) < limit:
            self.samples.append(obj)

    def covered(self, group, name):
        self.cover.setdefault(group, set()).add(name)

    def violation(self, key, desc, detail=None):
        """Record a violation with a mechanism key (stable across seeds)."""
        self.count("violations_raw")
        if len(self.violations) < 200:
            self.violations.append(
                {"key": key, "desc": desc, "detail": detail, "case": self.case_index, "seed": self.seed, "tier": self.tier}
            )

    def time_left(self):
        return self.deadline - time.time()

    def case_rng(self, i, salt=""):
        return random.Random(f"{self.prop}/{self.seed}/{i}/{salt}")


class CaseTimeout(BaseException):
    """Raised by the per-case alarm; the case is counted as timed out (inconclusive)."""


def _alarm(signum, frame):
    raise CaseTimeout()


def worker_main(argv=None):
    ap = argparse.ArgumentParser()
    ap.add_argument("--prop", required=True)
    ap.add_argument("--tier", default="quick")
    ap.add_argument("--seed", type=int, default=0)
    ap.add_argument("--sub", type=int, default=0)
    ap.add_argument("--nsub", type=int, default=1)
    ap.add_argument("--budget", type=float, default=30.0)
    ap.add_argument("--out", required=True)
    ap.add_argument("--case", type=int, default=None)
    ap.add_argument("--extra", default=None)
    a = ap.parse_args(argv)
    t0 = time.time()
    ctx = Ctx(a.prop, a.tier, a.seed, a.sub, a.nsub, t0 + a.budget)
    status = "ok"
    err = None
    try:
        mod = importlib.import_module("vf.props." + a.prop)
        if hasattr(mod, "setup"):
            mod.setup(ctx)
        if a.extra is not None:
            # an additional workload run beside the case workers (e.g. the repository's test-suite under monitors)
            getattr(mod, "extra_" + a.extra)(ctx)
        elif a.case is not None:
            ctx.case_index = a.case
            mod.case(ctx, a.case, ctx.case_rng(a.case))
        else:
            if hasattr(mod, "once"):
                mod.once(ctx)
            if hasattr(mod, "case"):
                n = mod.NCASES[a.tier]
                i = a.sub
                slow = []
                import signal

                limit = float(getattr(mod, "CASE_TIMEOUT", 20.0))
                signal.signal(signal.SIGALRM, _alarm)
                while i < n and ctx.time_left() > 0:
                    ctx.case_index = i
                    tc = time.time()
                    signal.setitimer(signal.ITIMER_REAL, limit)
                    try:
                        mod.case(ctx, i, ctx.case_rng(i))
                    except CaseTimeout:
                        ctx.count("case_timeout")
                    finally:
                        signal.setitimer(signal.ITIMER_REAL, 0)
                    tc = time.time() - tc
                    if tc > 5.0:
                        slow.append((round(tc, 1), i))
                    ctx.count("cases")
                    i += a.nsub
                if slow:
                    ctx.notes.append("slow cases (s, index): " + repr(sorted(slow, reverse=True)[:5]))
                if i < n:
                    ctx.count("cases_not_reached_time_budget", (n - i + a.nsub - 1) // a.nsub)
        if hasattr(mod, "finish"):
            mod.finish(ctx)
    except Exception:
        status = "harness_error"
        err = traceback.format_exc()
    out = {
        "status": status,
        "error": err,
        "counters": ctx.counters,
        "distinct": sorted(ctx.distinct),
        "samples": ctx.samples,
        "violations": ctx.violations,
        "cover": {k: sorted(v) for k, v in ctx.cover.items()},
        "notes": ctx.notes,
        "wall": time.time() - t0,
    }
    with open(a.out, "w") as fh:
        json.dump(out, fh, default=str)


def load_known():
    path = os.path.join(VERIF_DIR, "known_findings.json")
    if not os.path.exists(path):
        return {"findings": [], "fixed": []}
    with open(path) as fh:
        return json.load(fh)


def main(argv=None):
    ap = argparse.ArgumentParser(prog="check")
    ap.add_argument("prop")
    ap.add_argument("--tier", default=os.environ.get("VERIF_TIER", "quick"))
    ap.add_argument("--seed", type=int, default=int(os.environ.get("VERIF_SEED", "0") or 0))
    ap.add_argument("--replay", default=None)
    ap.add_argument("--workers", type=int, default=None)
    ap.add_argument("--budget", type=float, default=None)
    a = ap.parse_args(argv)
    prop = a.prop
    tier = a.tier if a.tier in ("quick", "thorough") else "quick"
    mod = importlib.import_module("vf.props." + prop)
    os.makedirs(WORK, exist_ok=True)
    os.makedirs(REPLAYS, exist_ok=True)
    t0 = time.time()

    env = dict(os.environ)
    env["PYTHONHASHSEED"] = env.get("VERIF_HASHSEED", "0")
    env["PYTHONPATH"] = VERIF_DIR + os.pathsep + env.get("PYTHONPATH", "")
    env["UFL_VERIF"] = "1"
    budget = a.budget or mod.BUDGET[tier]
    nsub = a.workers or getattr(mod, "WORKERS", {}).get(tier, NCPU)

    jobs = []
    if a.replay:
        with open(a.replay) as fh:
            rp = json.load(fh)
        a.seed = rp["seed"]
        tier = rp.get("tier", tier)
        out = os.path.join(WORK, f"{prop}-replay.json")
        cmd = [sys.executable, "-B", "-m", "vf.worker", "--prop", prop, "--tier", tier, "--seed", str(a.seed), "--out", out, "--budget", "600"]
        if rp.get("case") is not None:
            cmd += ["--case", str(rp["case"])]
        jobs.append((cmd, out))
    else:
        for k in range(nsub):
            out = os.path.join(WORK, f"{prop}-{tier}-{a.seed}-{k}.json")
            cmd = [
                sys.executable, "-B", "-m", "vf.worker", "--prop", prop, "--tier", tier, "--seed", str(a.seed),
                "--sub", str(k), "--nsub", str(nsub), "--budget", str(budget), "--out", out,
            ]
            jobs.append((cmd, out))
        for name in getattr(mod, "EXTRA_JOBS", {}).get(tier, []):
            out = os.path.join(WORK, f"{prop}-{tier}-{a.seed}-extra-{name}.json")
            cmd = [sys.executable, "-B", "-m", "vf.worker", "--prop", prop, "--tier", tier, "--seed", str(a.seed),
                   "--extra", name, "--budget", str(budget * 3), "--out", out]
            jobs.append((cmd, out))
    if not a.replay:
        # replay files of earlier runs of this property are stale
        for fn in os.listdir(REPLAYS):
            if fn.startswith(prop + "-"):
                try:
                    os.remove(os.path.join(REPLAYS, fn))
                except OSError:
                    pass
    procs = []
    for cmd, out in jobs:
        if os.path.exists(out):
            os.remove(out)
        procs.append((subprocess.Popen(cmd, env=env, cwd=VERIF_DIR, stdout=subprocess.PIPE, stderr=subprocess.PIPE), out))
    results = []
    broken = []
    hard = budget * 3 + 120
    for p, out in procs:
        try:
            so, se = p.communicate(timeout=max(10, hard - (time.time() - t0)))
        except subprocess.TimeoutExpired:
            p.kill()
            so, se = p.communicate()
            broken.append("watchdog timeout in worker")
            continue
        if not os.path.exists(out):
            broken.append("worker died: " + se.decode(errors="replace")[-2000:])
            continue
        with open(out) as fh:
            r = json.load(fh)
        os.remove(out)
        if r["status"] != "ok":
            broken.append(r["error"])
        results.append(r)

    # ---- merge
    counters = {}
    distinct = set()
    samples = []
    violations = []
    cover = {}
    notes = []
    for r in results:
        for k, v in r["counters"].items():
            counters[k] = counters.get(k, 0) + v
        distinct.update(r["distinct"])
        for s in r["samples"]:
            if len(samples) < 6:
                samples.append(s)
        violations.extend(r["violations"])
        for k, v in r["cover"].items():
            cover.setdefault(k, set()).update(v)
        notes.extend(r["notes"])

    # ---- classify violations
    known = load_known()
    known_for = [f for f in known.get("findings", []) if f["property"] == prop]
    seen_known = {}
    new = {}
    for v in violations:
        hit = None
        for f in known_for:
            if re.fullmatch(f["key"], v["key"]):
                hit = f
                break
        if hit is not None:
            seen_known.setdefault(hit["key"], (hit, []))[1].append(v)
        else:
            new.setdefault(v["key"], []).append(v)

    # ---- floors (inconclusive when the deciding monitor was not reached often enough)
    floors = getattr(mod, "FLOORS", {}).get(tier, {})
    short = {k: (counters.get(k, 0), need) for k, need in floors.items() if counters.get(k, 0) < need}
    cover_floor = getattr(mod, "COVER_FLOORS", {}).get(tier, {})
    for grp, need in cover_floor.items():
        have = cover.get(grp, set())
        missing = [n for n in need if n not in have]
        if missing:
            short["cover:" + grp] = (sorted(missing), "all")

    wall = time.time() - t0
    rule = mod.RULE
    ev = {
        "property_id": prop,
        "tier": tier,
        "seed": a.seed,
        "level": getattr(mod, "LEVEL", "exploration"),
        "coverage": {
            "evaluations": int(counters.get(getattr(mod, "EVAL_COUNTER", "cases"), 0)),
            "distinct_nontrivial": len(distinct),
            "rule": rule,
            "samples": samples if samples else [],
            "counters": counters,
            "covered": {k: sorted(v) for k, v in cover.items()},
            "known_findings_seen": {k: len(v[1]) for k, v in seen_known.items()},
            "workers": len(jobs),
            "notes": notes[:20],
        },
        "assumptions": list(getattr(mod, "ASSUMPTIONS", [])),
        "wall_s": round(wall, 2),
        "violations": sum(len(v) for v in new.values()),
    }
    if getattr(mod, "EXHAUSTIVE", False):
        ev["coverage"]["exhaustive"] = True
    if not a.replay:
        with open(os.path.join(WORK if SCRATCH_RUN else EVID, prop + (".scratch.json" if SCRATCH_RUN else ".json")), "w") as fh:
            json.dump(ev, fh, indent=1, default=str)
            fh.write("\n")

    # ---- report
    for key, (f, vs) in sorted(seen_known.items()):
        print(f"KNOWN-FINDING: property={prop} {f['what']} (seen {len(vs)}x, key {f['key']})")
    rc = 0
    if new:
        for key, vs in sorted(new.items()):
            v = vs[0]
            path = os.path.join(REPLAYS, f"{prop}-{digest(key)}.json")
            with open(path, "w") as fh:
                json.dump({"prop": prop, "seed": v["seed"], "tier": v["tier"], "case": v["case"], "key": key, "desc": v["desc"], "detail": v["detail"], "count": len(vs)}, fh, indent=1, default=str)
            print(f"VIOLATION property={prop} replay={path}")
            print(f"  key={key} ({len(vs)}x): {v['desc']}")
        rc = 1
    if broken or short:
        for b in broken[:3]:
            print("BROKEN:", b, file=sys.stderr)
        if short:
            print(f"INCONCLUSIVE property={prop}: monitor floors not reached: {short}", file=sys.stderr)
        if rc == 0:
            rc = 2
    summary = {k: counters[k] for k in sorted(counters)}
    print(f"{prop} tier={tier} seed={a.seed} wall={wall:.1f}s distinct={len(distinct)} counters={summary}")
    if rc == 0:
        print(f"HELD property={prop} on everything observed")
    return rc


if __name__ == "__main__":
    sys.exit(main())
