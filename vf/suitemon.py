"""pytest plugin: the repository's own test-suite as a workload for the pass monitors.

Loaded with `pytest -p vf.suitemon` (PYTHONPATH=/verif) and active only with UFL_VERIF=1 and
VF_SUITEMON_LOG=<path prefix>.  In pytest_configure the value-preserving passes named in
VF_SUITEMON_TARGETS are re-bound, in every loaded ufl.* module that holds them, to wrappers which call
the real function, hand back exactly what it returned, and afterwards judge the (input, output) pair with
the reference interpreter: both are evaluated in the same random worlds on the expression's own cell type
and must agree (oracle.compare_once: complex128 fast path, 50-digit confirmation).  Whatever the tests
do with the passes thereby becomes a monitored execution.  One JSON line per process is written at exit:
counters, covered sets and violations (mechanism keys).  The wrappers never raise and never change a result;
a judge that raises is counted as `oracle_error`.

Nothing here is imported unless the plugin is requested, so the baseline test command is unaffected.
"""

import atexit
import functools
import json
import os
import random
import sys
import time
import traceback

LOG = os.environ.get("VF_SUITEMON_LOG")
ACTIVE = os.environ.get("UFL_VERIF") == "1" and bool(LOG)

# pass name -> (defining module, property it is evidence for, options)
TARGETS = {
    "apply_algebra_lowering": ("ufl.algorithms.apply_algebra_lowering", "C06", {"complex": True}),
    "apply_derivatives": ("ufl.algorithms.apply_derivatives", "C03", {"complex": False}),
    "apply_function_pullbacks": ("ufl.algorithms.apply_function_pullbacks", "C08", {"complex": True}),
    "apply_geometry_lowering": ("ufl.algorithms.apply_geometry_lowering", "C07", {"complex": True}),
    "apply_integral_scaling": ("ufl.algorithms.apply_integral_scaling", "C01", {"complex": True, "scaled": True}),
    "cancel_jacobian_products": ("ufl.algorithms.cancel_jacobian_products", "C09", {"complex": True}),
    "remove_component_tensors": ("ufl.algorithms.remove_component_tensors", "C10", {"complex": True}),
    "expand_indices": ("ufl.algorithms.expand_indices", "C10", {"complex": True}),
    "renumber_indices": ("ufl.algorithms.renumbering", "C10", {"complex": True}),
    "apply_restrictions": ("ufl.algorithms.apply_restrictions", "C17", {"complex": True}),
    "remove_complex_nodes": ("ufl.algorithms.remove_complex_nodes", "C23", {"complex": False}),
    "do_comparison_check": ("ufl.algorithms.comparison_checker", "C23", {"complex": False}),
    "compute_form_data": ("ufl.algorithms.compute_form_data", "C01", {"whole": True}),
    "replace": ("ufl.algorithms.replace", "C21", {"complex": True, "replace": True}),
}

# mutation monitoring (C27): "mut:<name>" targets; the inputs of the OUTERMOST monitored call are snapshotted
# (canon, repr, hash, signature, metadata) before and after the real call, whether it returns or raises
MUT_TARGETS = {
    "compute_form_data": "ufl.algorithms.compute_form_data",
    "apply_algebra_lowering": "ufl.algorithms.apply_algebra_lowering",
    "apply_derivatives": "ufl.algorithms.apply_derivatives",
    "apply_coordinate_derivatives": "ufl.algorithms.apply_derivatives",
    "apply_function_pullbacks": "ufl.algorithms.apply_function_pullbacks",
    "apply_geometry_lowering": "ufl.algorithms.apply_geometry_lowering",
    "apply_integral_scaling": "ufl.algorithms.apply_integral_scaling",
    "apply_restrictions": "ufl.algorithms.apply_restrictions",
    "cancel_jacobian_products": "ufl.algorithms.cancel_jacobian_products",
    "remove_component_tensors": "ufl.algorithms.remove_component_tensors",
    "remove_complex_nodes": "ufl.algorithms.remove_complex_nodes",
    "do_comparison_check": "ufl.algorithms.comparison_checker",
    "expand_derivatives": "ufl.algorithms.ad",
    "expand_indices": "ufl.algorithms.expand_indices",
    "renumber_indices": "ufl.algorithms.renumbering",
    "replace": "ufl.algorithms.replace",
    "attach_estimated_degrees": "ufl.algorithms.compute_form_data",
    "estimate_total_polynomial_degree": "ufl.algorithms.estimate_degrees",
    "group_form_integrals": "ufl.algorithms.domain_analysis",
    "build_integral_data": "ufl.algorithms.domain_analysis",
    "compute_form_signature": "ufl.algorithms.signature",
    "strip_terminal_data": "ufl.algorithms.strip_terminal_data",
    "extract_blocks": "ufl.algorithms.formsplitter",
    "compute_form_lhs": "ufl.algorithms.formtransformations",
    "compute_form_rhs": "ufl.algorithms.formtransformations",
    "compute_form_action": "ufl.algorithms.formtransformations",
    "compute_form_adjoint": "ufl.algorithms.formtransformations",
    "compute_energy_norm": "ufl.algorithms.formtransformations",
    "compute_form_functional": "ufl.algorithms.formtransformations",
    "derivative": "ufl.formoperators",
    "action": "ufl.formoperators",
    "adjoint": "ufl.formoperators",
    "lhs": "ufl.formoperators",
    "rhs": "ufl.formoperators",
    "system": "ufl.formoperators",
    "functional": "ufl.formoperators",
    "energy_norm": "ufl.formoperators",
    "sensitivity_rhs": "ufl.formoperators",
}

SIMPLEX = {"interval": 1, "triangle": 2, "tetrahedron": 3}


class Rec:
    """Collector with the interface of runner.Ctx that property code expects."""

    def __init__(self):
        self.counters = {}
        self.cover = {}
        self.violations = []
        self.samples = []
        self.distinct = set()
        self.tier = "suite"
        self.seed = 0
        self.case_index = None

    def count(self, name, n=1):
        self.counters[name] = self.counters.get(name, 0) + n

    def covered(self, group, name):
        self.cover.setdefault(group, set()).add(name)

    def add_distinct(self, obj):
        import hashlib

        self.distinct.add(hashlib.sha1(repr(obj).encode()).hexdigest()[:16])

    def sample(self, obj, limit=4):
        if len(self.samples) < limit:
            self.samples.append(obj)

    def violation(self, key, desc, detail=None):
        self.count("violations_raw")
        if len(self.violations) < 60:
            self.violations.append({"key": key, "desc": desc, "detail": detail, "test": _STATE.get("test")})


REC = Rec()
_STATE = {"depth": {}, "judging": False, "t_judge": 0.0, "test": None}
BUDGET = float(os.environ.get("VF_SUITEMON_BUDGET", "240"))  # seconds of judging per process


def _domain_of(obj):
    from ufl.domain import extract_domains

    doms = extract_domains(obj) if not hasattr(obj, "ufl_domains") else obj.ufl_domains()
    return list(doms)


def _groups(obj):
    """{(integral type, subdomain id): [integrands]} for a Form / Integral, {None: [expr]} for an expression."""
    from ufl.classes import Expr, Form, Integral

    if isinstance(obj, Form):
        g = {}
        for itg in obj.integrals():
            g.setdefault((itg.integral_type(), repr(itg.subdomain_id())), []).append(itg.integrand())
        return g
    if isinstance(obj, Integral):
        return {(obj.integral_type(), repr(obj.subdomain_id())): [obj.integrand()]}
    if isinstance(obj, Expr):
        return {None: [obj]}
    return None


def _has_restricted(e):
    seen = set()
    stack = [e]
    while stack:
        o = stack.pop()
        if id(o) in seen:
            continue
        seen.add(id(o))
        if type(o).__name__ in ("PositiveRestricted", "NegativeRestricted"):
            return True
        stack.extend(getattr(o, "ufl_operands", ()))
    return False


def _contains_class(e, names):
    seen = set()
    stack = [e]
    while stack:
        o = stack.pop()
        if id(o) in seen:
            continue
        seen.add(id(o))
        if type(o).__name__ in names:
            return True
        stack.extend(getattr(o, "ufl_operands", ()))
    return False


def _size(e, cap=6000):
    seen = set()
    stack = [e]
    while stack:
        o = stack.pop()
        if id(o) in seen:
            continue
        seen.add(id(o))
        if len(seen) > cap:
            return len(seen)
        stack.extend(getattr(o, "ufl_operands", ()))
    return len(seen)


def judge_pass(name, prop, opts, inp, out, args, kwargs):
    from . import oracle
    from .passcheck import count_verdicts, localise_culprit, node_classes, skeleton
    from .seval import Result, S
    from .world import Unsupported, World

    gin = _groups(inp)
    gout = _groups(out)
    if gin is None or gout is None:
        REC.count(name + ":skipped_input_kind")
        return
    try:
        doms = _domain_of(inp)
    except Exception:
        doms = []
    if len(doms) > 1:
        REC.count(name + ":skipped_several_domains")
        return
    if doms:
        cell = doms[0].ufl_cell().cellname
        gdim = doms[0].geometric_dimension
        if cell not in SIMPLEX or doms[0].ufl_coordinate_element().embedded_superdegree != 1:
            REC.count(name + ":skipped_cell")
            return
    else:
        cell, gdim = "triangle", 2
    rng = random.Random(f"suitemon/{name}/{REC.counters.get(name + ':events', 0)}")
    subst = None
    if opts.get("replace"):
        # value of the output = value of the input with the mapped terminals overridden by their images
        from ufl.constantvalue import as_ufl

        mapping = args[1] if len(args) > 1 else kwargs.get("mapping")
        if not isinstance(mapping, dict) or not mapping:
            REC.count(name + ":skipped_mapping_kind")
            return
        if any(type(k).__name__ not in ("Coefficient", "Argument", "Constant") for k in mapping):
            REC.count(name + ":skipped_mapping_kind")
            return
        if any(_contains_class(e, ("CoefficientDerivative", "CoordinateDerivative")) for es in gin.values() for e in es):
            REC.count(name + ":skipped_lazy_derivative")  # known finding of C21: expanded before substitution
            return
        try:
            subst = {k: ("expr", as_ufl(v)) for k, v in mapping.items()}
        except Exception:
            REC.count(name + ":skipped_mapping_kind")
            return
    for key in sorted(set(gin) | set(gout), key=repr):
        ins = gin.get(key, [])
        outs = gout.get(key, [])
        if sum(_size(e) for e in ins + outs) > 6000:
            REC.count(name + ":skipped_too_big")
            continue
        if key is None:
            itype = "interior_facet" if any(_has_restricted(e) for e in ins + outs) else "exterior_facet"
        else:
            itype = key[0]
        if itype not in ("cell", "exterior_facet", "interior_facet"):
            REC.count(name + ":skipped_integral_type")
            continue
        modes = [False, True, False] if opts.get("complex") else [False, False]
        try:
            worlds = [World(rng, cell, gdim, itype, m, conforming=True) for m in modes]
        except Unsupported:
            REC.count(name + ":skipped_world")
            continue
        if key is None and subst is not None:
            def fin_r(w, B, e=ins[0]):
                w.subst = subst
                try:
                    return S(e, w, B)
                finally:
                    w.subst = {}

            vs = [oracle.compare_once(fin_r, lambda w, B, e=outs[0]: S(e, w, B), w) for w in worlds]
        elif key is None:
            # bare expression: shape and free indices may be anything
            vs = oracle.preserved(ins[0], outs[0], worlds)
        else:
            def total(exprs, w, B):
                tot = None
                flags = set()
                mx = 0.0
                for e in exprs:
                    r = S(e, w, B)
                    if r.rank or r.fi:
                        raise oracle.StructureMismatch("integrand is not a scalar")
                    tot = r.arr if tot is None else tot + r.arr
                    flags |= r.flags
                    mx = max(mx, r.maxabs)
                if tot is None:
                    tot = B.zeros(())
                return tot, flags, mx

            def fin(w, B, ins=ins, itype=itype):
                if subst is not None:
                    w.subst = subst
                try:
                    tot, flags, mx = total(ins, w, B)
                finally:
                    w.subst = {}
                if opts.get("scaled"):
                    from .props.C01 import expected_scale

                    tot = tot * expected_scale(itype, w, B)
                return Result(tot, 0, (), flags, mx)

            def fout(w, B, outs=outs):
                tot, flags, mx = total(outs, w, B)
                return Result(tot, 0, (), flags, mx)

            vs = [oracle.compare_once(fin, fout, w) for w in worlds]
        count_verdicts(REC, vs, prefix=name + ":")
        kinds = [v.kind for v in vs]
        if any(k in ("input-structure", "input-ambiguous") for k in kinds):
            REC.count(name + ":input_not_evaluable")
            continue
        verdict = oracle.decide(vs, need_agree=2)
        if "output-ambiguous" in kinds and name == "apply_restrictions":
            verdict = "violated"
        REC.count(f"{name}:{verdict}")
        if verdict == "held":
            for e in ins:
                for c in node_classes(e):
                    REC.covered(name + ":node_classes_held", c)
            if any(o is not i for o, i in zip(outs, ins)):
                REC.count(name + ":held_and_changed")
                REC.add_distinct((name, tuple(skeleton(e, 2) for e in ins)))
        if verdict == "violated":
            bad = next(v for v in vs if v.kind in ("disagree", "output-ambiguous"))
            culprit = None
            if key is None and not args[1:] and not kwargs:
                try:
                    culprit = localise_culprit(ins[0], _ORIG[name], worlds)
                except Exception:
                    culprit = None
            sk = skeleton(culprit if culprit is not None else ins[0], 1)
            REC.violation(
                f"{prop}/suite/{name}/{sk}",
                f"{name} changed the value (rel. err {bad.err}, {bad.why}) in test {_STATE.get('test')}",
                {"input": [str(e)[:800] for e in ins], "output": [str(e)[:800] for e in outs], "world": worlds[0].describe()},
            )


def judge_whole(name, prop, opts, inp, out, args, kwargs):
    """compute_form_data: the C01 oracle with the options the test used."""
    import inspect

    from ufl.classes import Form

    from .props import C01

    if not isinstance(inp, Form):
        REC.count(name + ":skipped_input_kind")
        return
    sig = inspect.signature(_ORIG[name])
    bound = sig.bind(*args, **kwargs)
    bound.apply_defaults()
    o = {k: v for k, v in bound.arguments.items() if k in C01.OPTS or k == "preserve_geometry_types"}
    if bound.arguments.get("coefficients_to_split") or bound.arguments.get("do_split_coefficients") or bound.arguments.get("do_assume_single_integral_type") is False:
        REC.count(name + ":skipped_options")
        return
    extra = {k: v for k, v in bound.arguments.items() if k not in o and k != list(sig.parameters)[0]}
    for k, v in extra.items():
        if v != sig.parameters[k].default:
            REC.count(name + ":skipped_options")
            return
    doms = inp.ufl_domains()
    if len(doms) != 1:
        REC.count(name + ":skipped_several_domains")
        return
    cell = doms[0].ufl_cell().cellname
    gdim = doms[0].geometric_dimension
    if cell not in SIMPLEX or doms[0].ufl_coordinate_element().embedded_superdegree != 1:
        REC.count(name + ":skipped_cell")
        return
    rng = random.Random(f"suitemon/{name}/{REC.counters.get(name + ':events', 0)}")
    before = dict(REC.counters)
    C01.judge(REC, inp, C01.pieces_of(inp), o, cell, gdim, bool(o.get("complex_mode")), rng, tag="suite:" + str(_STATE.get("test")))
    for k in ("case_held", "case_violated", "case_undecided", "rejected"):
        d = REC.counters.get(k, 0) - before.get(k, 0)
        if d:
            REC.count(f"{name}:{k.replace('case_', '')}", d)


_ORIG = {}


def _wrap(name, prop, opts, fn):
    judge = judge_whole if opts.get("whole") else judge_pass

    @functools.wraps(fn)
    def wrapper(*args, **kwargs):
        depth = _STATE["depth"]
        depth[name] = depth.get(name, 0) + 1
        try:
            out = fn(*args, **kwargs)
        finally:
            depth[name] -= 1
        if depth[name] or _STATE["judging"] or not args:
            return out
        REC.count(name + ":events")
        if _STATE["t_judge"] > BUDGET:
            REC.count(name + ":not_judged_time_budget")
            return out
        _STATE["judging"] = True
        t0 = time.time()
        try:
            judge(name, prop, opts, args[0], out, args, kwargs)
        except BaseException as ex:  # the monitor must never disturb the test
            if isinstance(ex, (KeyboardInterrupt, SystemExit)):
                _STATE["judging"] = False
                raise
            REC.count(name + ":oracle_error")
            REC.covered("oracle_errors", f"{name}: {type(ex).__name__}: {str(ex)[:120]}")
            if len(REC.cover.get("oracle_tracebacks", ())) < 3:
                REC.covered("oracle_tracebacks", traceback.format_exc()[-1500:])
        finally:
            _STATE["judging"] = False
            _STATE["t_judge"] += time.time() - t0
        return out

    wrapper._vf_monitor = True
    return wrapper


def _wrap_mut(name, fn):
    from .c27_monitor import C27Canon, Monitor, _count_leaves, diff, snap_any

    mon = Monitor(REC, full=True)

    @functools.wraps(fn)
    def wrapper(*args, **kwargs):
        if _STATE.get("mut_depth") or _STATE["judging"] or _STATE["t_judge"] > BUDGET:
            return fn(*args, **kwargs)
        _STATE["mut_depth"] = 1
        try:
            before = None
            _STATE["judging"] = True
            t0 = time.time()
            try:
                if sum(_size(a) for a in args if hasattr(a, "ufl_operands")) <= 4000:
                    mon.canon = C27Canon("abs")
                    before = snap_any((args, kwargs), mon.canon, True)
            except BaseException as ex:
                if isinstance(ex, (KeyboardInterrupt, SystemExit)):
                    raise
                REC.count("mut:snapshot_failed")
                REC.covered("oracle_errors", f"mut:{name}: {type(ex).__name__}: {str(ex)[:100]}")
                before = None
            finally:
                _STATE["judging"] = False
                _STATE["t_judge"] += time.time() - t0
            exc = None
            try:
                out = fn(*args, **kwargs)
            except BaseException as ex:  # UFL has error classes deriving from BaseException
                exc = ex
            if before is not None and not isinstance(exc, (KeyboardInterrupt, SystemExit, GeneratorExit, MemoryError)):
                _STATE["judging"] = True
                t0 = time.time()
                try:
                    after = snap_any((args, kwargs), mon.canon, True)
                    REC.count("mut:monitored_calls")
                    REC.count(f"mut:{name}:calls")
                    REC.count("mut:input_objects_compared", _count_leaves(before))
                    REC.count("mut:calls_raised" if exc is not None else "mut:calls_returned")
                    REC.covered("mut:ops", name)
                    if diff(before, after):
                        mon.trace = ["suite:" + str(_STATE.get("test"))]
                        mon._report(name, "arg", (args, kwargs), before, after, "call made by the repository test " + str(_STATE.get("test")))
                except BaseException as ex:
                    if isinstance(ex, (KeyboardInterrupt, SystemExit)):
                        raise
                    REC.count("mut:oracle_error")
                    REC.covered("oracle_errors", f"mut:{name}: {type(ex).__name__}: {str(ex)[:100]}")
                finally:
                    _STATE["judging"] = False
                    _STATE["t_judge"] += time.time() - t0
            if exc is not None:
                raise exc
            return out
        finally:
            _STATE["mut_depth"] = 0

    wrapper._vf_monitor = True
    return wrapper


def install(targets):
    import importlib

    import ufl  # noqa: F401
    import ufl.algorithms  # noqa: F401
    import ufl.algorithms.formtransformations  # noqa: F401
    import ufl.formoperators  # noqa: F401

    nsites = 0
    for name in targets:
        mutation = name.startswith("mut:")
        if mutation:
            name = name[4:]
            modname = MUT_TARGETS[name]
        else:
            modname, prop, opts = TARGETS[name]
        mod = importlib.import_module(modname)
        orig = getattr(mod, name, None)
        if orig is None or getattr(orig, "_vf_monitor", False):
            continue
        _ORIG[name] = orig
        w = _wrap_mut(name, orig) if mutation else _wrap(name, prop, opts, orig)
        for mname, m in list(sys.modules.items()):
            if m is None or not (mname == "ufl" or mname.startswith("ufl.")):
                continue
            if getattr(m, name, None) is orig:
                setattr(m, name, w)
                nsites += 1
        REC.covered("installed", name)
    REC.count("rebound_sites", nsites)


def _flush():
    if not ACTIVE:
        return
    path = f"{LOG}.{os.getpid()}"
    with open(path, "w") as fh:
        json.dump(
            {
                "counters": REC.counters,
                "cover": {k: sorted(v) for k, v in REC.cover.items()},
                "violations": REC.violations,
                "distinct": sorted(REC.distinct),
                "samples": REC.samples,
            },
            fh,
            default=str,
        )


# ------------------------------------------------------------------------------ pytest hooks


def pytest_configure(config):
    if not ACTIVE:
        return
    from . import bootstrap

    bootstrap()
    names = [n for n in os.environ.get("VF_SUITEMON_TARGETS", ",".join(TARGETS)).split(",") if n]
    install(names)
    atexit.register(_flush)


def pytest_runtest_setup(item):
    if ACTIVE:
        _STATE["test"] = item.nodeid
        REC.count("tests_started")


def pytest_sessionfinish(session, exitstatus):
    if ACTIVE:
        REC.count("pytest_exitstatus_" + str(int(exitstatus)))
        _flush()
