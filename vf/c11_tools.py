"""Helpers of the C11 check: the meaning-canon of a form, tree surgery through the real UFL
constructors, and the single-point mutators.

Nothing here decides a verdict with UFL's own `__eq__`, `__hash__` or `signature`: the
oracle side is `FormInfo` (canon digests), everything else only *builds inputs* by calling
the public UFL constructors.
"""

import hashlib
import itertools
import math

import numpy as np

import ufl
import ufl.classes as C
from ufl.core.base_form_operator import BaseFormOperator
from ufl.core.external_operator import ExternalOperator
from ufl.core.interpolate import Interpolate
from ufl.form import Form
from ufl.integral import Integral

from . import elements as E
from .canon import Canon, canon_value

# --------------------------------------------------------------------------- canon


class C11Canon(Canon):
    """Canon restricted to what a form compiler uses.

    Differences to the shared serialiser (all local work-arounds, see the final report):
      * `subdomain_data` is left out (signature.py documents that it is deliberately not part
        of the signature, and the property speaks about compiler-relevant data only);
      * `extra_domain_integral_type_map` of an integral is included;
      * base form operators whose `derivatives` is None (Interpolate) are serialised
        (the shared canon raises TypeError there).
    """

    def _collect(self, o, seen):
        if isinstance(o, Integral):
            for d in o.extra_domain_integral_type_map():
                self._collect_domain(d)
        super()._collect(o, seen)

    def expr(self, o):
        if isinstance(o, BaseFormOperator):
            ops = tuple(self.expr(x) for x in o.ufl_operands)
            d = o.derivatives
            extra = (
                ("space", self.space(o.ufl_function_space())),
                ("derivatives", None if d is None else tuple(d)),
                ("slots", tuple(self.any(s) for s in o.argument_slots())),
            )
            return (type(o).__name__, ops, extra)
        return super().expr(o)

    def integral(self, itg):
        extra = tuple(sorted(((self.domain(d), t) for d, t in itg.extra_domain_integral_type_map().items()), key=repr))
        return (
            "Integral",
            itg.integral_type(),
            self.domain(itg.ufl_domain()),
            ("extra", extra),
            canon_value(itg.subdomain_id()),
            canon_value(itg.metadata()),
            self.expr(itg.integrand()),
        )


def _digest(t):
    return hashlib.sha1(repr(t).encode()).hexdigest()[:20]


MAX_MESHES_FOR_PERMUTATION = 4


class FormInfo:
    """signature (the observed event) and the two canon digests (the oracle) of one form.

    strict: meshes / coefficients / constants renumbered order-preservingly, indices by first
            occurrence.  Equal strict canons = "equal forms" => signatures must be equal.
    loose:  additionally minimised over all renumberings of the meshes (mesh ids carry no
            meaning at all).  Different loose canons = different compiled meaning =>
            signatures must differ.  None when there are too many meshes to permute.
    """

    __slots__ = ("sig", "strict", "loose", "nmesh", "sig_error")

    def __init__(self, form):
        c = C11Canon("rel")
        c._collect(form, set())
        c._finalise()
        from .canon import _number_indices_first

        _number_indices_first(c, [form])
        strict = c.any(form)
        self.strict = _digest(strict)
        ids = sorted(c.meshes)
        self.nmesh = len(ids)
        if len(ids) <= 1:
            self.loose = self.strict
        elif len(ids) > MAX_MESHES_FOR_PERMUTATION:
            self.loose = None
        else:
            best = None
            for perm in itertools.permutations(range(len(ids))):
                c.meshes = dict(zip(ids, perm))
                c.idx = {}
                c.pending = []
                _number_indices_first(c, [form])
                r = repr(c.any(form))
                if best is None or r < best:
                    best = r
            self.loose = hashlib.sha1(best.encode()).hexdigest()[:20]
        self.sig_error = None
        try:
            self.sig = form.signature()
        except Exception as ex:  # the property does not say signature() never raises
            self.sig = None
            self.sig_error = type(ex).__name__


def anon_sorted_canon(form):
    """Diagnostic only: canon with indices erased and all operand tuples sorted."""
    c = C11Canon("anon")
    c._collect(form, set())
    c._finalise()

    def norm(t):
        if isinstance(t, tuple):
            t = tuple(norm(x) for x in t)
            if len(t) == 3 and isinstance(t[0], str) and isinstance(t[1], tuple) and isinstance(t[2], tuple):
                return (t[0], tuple(sorted(t[1], key=repr)), t[2])
        return t

    return norm(c.any(form))


# --------------------------------------------------------------------------- tree surgery


class Reject(Exception):
    """No site for this mutation / UFL refused the mutated construction."""


def walk(e, limit=3000):
    """Pre-order list of (path, node) over the expression *tree* (capped)."""
    out = []
    stack = [((), e)]
    while stack and len(out) < limit:
        path, node = stack.pop()
        out.append((path, node))
        if not node._ufl_is_terminal_:
            ops = node.ufl_operands
            for k in range(len(ops) - 1, -1, -1):
                stack.append((path + (k,), ops[k]))
    return out


def reconstruct(e, ops):
    return e._ufl_expr_reconstruct_(*ops)


def replace_at(e, path, new):
    if not path:
        return new
    ops = list(e.ufl_operands)
    ops[path[0]] = replace_at(ops[path[0]], path[1:], new)
    return reconstruct(e, ops)


def substitute(e, fn, memo):
    """Replace terminals t by fn(t) everywhere (fn returns t itself when unchanged)."""
    k = id(e)
    if k in memo:
        return memo[k][1]
    if e._ufl_is_terminal_:
        r = fn(e)
    else:
        ops = [substitute(o, fn, memo) for o in e.ufl_operands]
        if all(a is b for a, b in zip(ops, e.ufl_operands)):
            r = e
        else:
            r = reconstruct(e, ops)
    memo[k] = (e, r)
    return r


def _scalar(e):
    return e.ufl_shape == () and not e.ufl_free_indices


def form_with_integrand(F, k, integrand):
    if not _scalar(integrand):
        raise Reject("integrand no longer scalar")
    itgs = list(F.integrals())
    itgs[k] = itgs[k].reconstruct(integrand=integrand)
    return Form(itgs)


def form_replace_at(F, k, path, new):
    return form_with_integrand(F, k, replace_at(F.integrals()[k].integrand(), path, new))


def form_substitute(F, fn):
    memo = {}
    itgs = []
    for itg in F.integrals():
        e = substitute(itg.integrand(), fn, memo)
        if not _scalar(e):
            raise Reject("integrand no longer scalar")
        itgs.append(itg.reconstruct(integrand=e))
    return Form(itgs)


class Sites:
    """All tree positions of all integrands of a form."""

    def __init__(self, F):
        self.F = F
        self.all = []
        for k, itg in enumerate(F.integrals()):
            for path, node in walk(itg.integrand()):
                self.all.append((k, path, node))

    def where(self, pred):
        return [s for s in self.all if pred(s[2])]

    def terminals(self, cls):
        """Distinct terminal objects of a class, in a deterministic order."""
        seen = {}
        for _, _, n in self.all:
            if isinstance(n, cls) and id(n) not in seen:
                seen[id(n)] = n
        return list(seen.values())


# --------------------------------------------------------------------------- expression mutators
# every mutator: (F, sites, rng, U) -> (subkind, F')   or raises Reject


def _pick(rng, seq):
    if not seq:
        raise Reject("no site")
    return seq[rng.randrange(len(seq))]


def mut_literal_value(F, S, rng, U):
    k, path, n = _pick(rng, S.where(lambda n: isinstance(n, C.ScalarValue)))
    v = n._value
    if isinstance(n, C.IntValue):
        new = C.IntValue(v + rng.choice([1, -1, 2, 10]))
    elif isinstance(n, C.FloatValue):
        new = C.FloatValue(v * rng.choice([2.0, 0.5, -1.0]) if rng.random() < 0.5 else v + rng.choice([1.0, 0.25, 1e-3]))
    else:
        new = C.ComplexValue(complex(v.real, v.imag + rng.choice([1.0, -0.5])) if rng.random() < 0.5 else complex(v.real + 1.0, v.imag))
    return "value", form_replace_at(F, k, path, new)


def mut_literal_ulp(F, S, rng, U):
    k, path, n = _pick(rng, S.where(lambda n: isinstance(n, (C.FloatValue, C.ComplexValue))))
    v = n._value
    up = math.inf if rng.random() < 0.5 else -math.inf
    if isinstance(n, C.FloatValue):
        new = C.FloatValue(math.nextafter(v, up))
    elif rng.random() < 0.5:
        new = C.ComplexValue(complex(math.nextafter(v.real, up), v.imag))
    else:
        new = C.ComplexValue(complex(v.real, math.nextafter(v.imag, up)))
    return "ulp", form_replace_at(F, k, path, new)


def mut_literal_int_float(F, S, rng, U):
    def ok(n):
        if isinstance(n, C.IntValue):
            return True
        return isinstance(n, C.FloatValue) and float(n._value).is_integer() and abs(n._value) < 2**40

    k, path, n = _pick(rng, S.where(ok))
    if isinstance(n, C.IntValue):
        return "int-to-float", form_replace_at(F, k, path, C.FloatValue(float(n._value)))
    return "float-to-int", form_replace_at(F, k, path, C.IntValue(int(n._value)))


def mut_fixed_index(F, S, rng, U):
    def ok(n):
        if not isinstance(n, C.Indexed):
            return False
        A, mi = n.ufl_operands
        return any(isinstance(i, C.FixedIndex) and d > 1 for i, d in zip(mi, A.ufl_shape))

    k, path, n = _pick(rng, S.where(ok))
    A, mi = n.ufl_operands
    cand = [p for p, (i, d) in enumerate(zip(mi, A.ufl_shape)) if isinstance(i, C.FixedIndex) and d > 1]
    p = _pick(rng, cand)
    d = A.ufl_shape[p]
    old = int(mi[p])
    newv = rng.choice([x for x in range(d) if x != old])
    idx = list(mi)
    idx[p] = C.FixedIndex(newv)
    return "fixed", form_replace_at(F, k, path, C.Indexed(A, C.MultiIndex(tuple(idx))))


def mut_index_pattern(F, S, rng, U):
    def swaps(n):
        out = []
        if isinstance(n, C.Indexed):
            A, mi = n.ufl_operands
            dims = A.ufl_shape
        elif isinstance(n, C.ComponentTensor):
            A, mi = n.ufl_operands
            dims = n.ufl_shape
        else:
            return out
        ii = list(mi)
        for a in range(len(ii)):
            for b in range(a + 1, len(ii)):
                if dims[a] == dims[b] and not (ii[a] == ii[b]):
                    out.append((a, b))
        return out

    k, path, n = _pick(rng, S.where(lambda n: bool(swaps(n))))
    a, b = _pick(rng, swaps(n))
    A, mi = n.ufl_operands
    ii = list(mi)
    ii[a], ii[b] = ii[b], ii[a]
    new = type(n)(A, C.MultiIndex(tuple(ii)))
    return ("indexed" if isinstance(n, C.Indexed) else "component-tensor"), form_replace_at(F, k, path, new)


_UNARY_RING = ["Sqrt", "Exp", "Ln", "Cos", "Sin", "Tan", "Cosh", "Sinh", "Tanh", "Acos", "Asin", "Atan", "Erf"]
_COND_RING = ["LT", "GT", "LE", "GE", "EQ", "NE"]
_BESSEL_RING = ["BesselJ", "BesselY", "BesselI", "BesselK"]
_PAIRS = {
    "MinValue": "MaxValue", "MaxValue": "MinValue", "AndCondition": "OrCondition", "OrCondition": "AndCondition",
    "Real": "Imag", "Imag": "Real", "Grad": "NablaGrad", "NablaGrad": "Grad", "Div": "NablaDiv", "NablaDiv": "Div",
    "Sym": "Skew", "Skew": "Sym", "Determinant": "Trace", "Trace": "Determinant", "Cofactor": "Inverse",
    "Inverse": "Cofactor", "Dot": "Inner", "Inner": "Dot", "Deviatoric": "Sym", "Transposed": "Sym",
    "Conj": "Real", "Abs": "Sign", "Sign": "Abs", "Division": "Product", "Sum": "minus",
}


def mut_operator_type(F, S, rng, U):
    def ok(n):
        tn = type(n).__name__
        return tn in _UNARY_RING or tn in _COND_RING or tn in _BESSEL_RING or tn in _PAIRS

    k, path, n = _pick(rng, S.where(ok))
    tn = type(n).__name__
    ops = n.ufl_operands
    try:
        if tn in _UNARY_RING:
            new_tn = rng.choice([x for x in _UNARY_RING if x != tn])
        elif tn in _COND_RING:
            new_tn = rng.choice([x for x in _COND_RING if x != tn])
        elif tn in _BESSEL_RING:
            new_tn = rng.choice([x for x in _BESSEL_RING if x != tn])
        else:
            new_tn = _PAIRS[tn]
        if new_tn == "minus":
            new = ops[0] + (-ops[1])
        else:
            new = getattr(C, new_tn)(*ops)
        if new.ufl_shape != n.ufl_shape or tuple(new.ufl_free_indices) != tuple(n.ufl_free_indices):
            raise Reject("shape changes")
        return f"{tn}", form_replace_at(F, k, path, new)
    except Reject:
        raise
    except Exception as ex:
        raise Reject(type(ex).__name__)


def mut_operand_order(F, S, rng, U):
    def pairs(n):
        # (BesselFunction(nu, f) calls float(nu): with an expression there UFL recurses without end)
        if n._ufl_is_terminal_ or isinstance(n, (BaseFormOperator, C.BesselFunction)):
            return []
        ops = n.ufl_operands
        out = []
        for a in range(len(ops)):
            for b in range(a + 1, len(ops)):
                x, y = ops[a], ops[b]
                if isinstance(x, C.MultiIndex) or isinstance(y, C.MultiIndex) or x is y:
                    continue
                if isinstance(x, C.Condition) != isinstance(y, C.Condition):
                    continue
                if x.ufl_shape == y.ufl_shape and tuple(x.ufl_free_indices) == tuple(y.ufl_free_indices):
                    out.append((a, b))
        return out

    k, path, n = _pick(rng, S.where(lambda n: bool(pairs(n))))
    a, b = _pick(rng, pairs(n))
    ops = list(n.ufl_operands)
    ops[a], ops[b] = ops[b], ops[a]
    try:
        new = reconstruct(n, ops)
    except Exception as ex:
        raise Reject(type(ex).__name__)
    return type(n).__name__, form_replace_at(F, k, path, new)


def mut_restriction_side(F, S, rng, U):
    k, path, n = _pick(rng, S.where(lambda n: isinstance(n, C.Restricted)))
    cls = C.NegativeRestricted if isinstance(n, C.PositiveRestricted) else C.PositiveRestricted
    return "side", form_replace_at(F, k, path, cls(n.ufl_operands[0]))


_GEO_SCALARS = ["CellVolume", "Circumradius", "CellDiameter", "MinCellEdgeLength", "MaxCellEdgeLength", "FacetArea",
                "MinFacetEdgeLength", "MaxFacetEdgeLength"]
_GEO_PAIRS = {"SpatialCoordinate": "CellCoordinate", "Jacobian": "CellFacetJacobian", "FacetNormal": "CellNormal"}


def mut_terminal_type(F, S, rng, U):
    k, path, n = _pick(rng, S.where(lambda n: isinstance(n, C.GeometricQuantity)))
    tn = type(n).__name__
    dom = n._domain
    try:
        if tn in _GEO_SCALARS:
            new = getattr(C, rng.choice([x for x in _GEO_SCALARS if x != tn]))(dom)
        elif tn in _GEO_PAIRS:
            new = getattr(C, _GEO_PAIRS[tn])(dom)
        else:
            raise Reject("no partner")
        if new.ufl_shape != n.ufl_shape:
            raise Reject("shape changes")
        return "geometry", form_replace_at(F, k, path, new)
    except Reject:
        raise
    except Exception as ex:
        raise Reject(type(ex).__name__)


# ---- elements

_FAMILY = {"Lagrange": "Bubble", "DG": "DPC", "RT": "BDM", "N1curl": "N2curl", "Regge": "ReggeX", "HHJ": "HHJX"}


def mutate_element(e, sub, rng, gdim, tdim):
    """A VElement differing from e in exactly one declared property (same value shape)."""
    if e.vf_kind == "mixed":
        subs = list(e._subs)
        j = rng.randrange(len(subs))
        subs[j] = mutate_element(subs[j], sub, rng, gdim, tdim)
        return E.VMixed(subs)
    if e.vf_kind == "symmetric":
        subs = list(e._subs)
        j = rng.randrange(len(subs))
        subs[j] = mutate_element(subs[j], sub, rng, gdim, tdim)
        return E.VSymmetric(dict(e._symmetry), subs)
    fam, deg, kind, space, subdeg = e._family, e._degree, e.vf_kind, e._spacename, e._subdegree
    if sub == "degree":
        deg, subdeg = deg + 1, subdeg + 1
    elif sub == "family":
        fam = _FAMILY.get(fam, fam + "2")
    elif sub == "sobolev":
        space = rng.choice([s for s in sorted(E.SPACES) if s != space])
    elif sub == "subdegree":
        subdeg = subdeg - 1 if subdeg > 0 else subdeg + 1
    elif sub == "pullback":
        if kind == "identity" and e._rshape == ():
            kind = "l2"
        elif kind == "l2":
            kind = "identity"
        elif gdim == tdim and kind in ("contravariant", "covariant"):
            kind = "covariant" if kind == "contravariant" else "contravariant"
        elif gdim == tdim and kind in ("dcontra", "dcov", "covcontra"):
            kind = rng.choice([x for x in ("dcontra", "dcov", "covcontra") if x != kind])
        else:
            raise Reject("no shape-preserving pullback")
    else:
        raise ValueError(sub)
    return E.VElement(fam, e._cellname, deg, e._rshape, kind, space, subdegree=subdeg)


def cellname(mesh):
    n = mesh.ufl_cell().cellname
    return n() if callable(n) else n


def _space_key(V):
    return (V.ufl_domain().ufl_id(), repr(V.ufl_element()))


def mut_element(F, S, rng, U, sub=None):
    terms = S.terminals((C.Coefficient, C.Argument))
    groups = {}
    for t in terms:
        groups.setdefault(_space_key(t.ufl_function_space()), []).append(t)
    if not groups:
        raise Reject("no form argument")
    key = _pick(rng, sorted(groups))
    V = groups[key][0].ufl_function_space()
    mesh = V.ufl_domain()
    sub = sub or rng.choice(["degree", "family", "sobolev", "pullback", "subdegree"])
    ne = mutate_element(V.ufl_element(), sub, rng, mesh.geometric_dimension, mesh.topological_dimension)
    try:
        W = ufl.FunctionSpace(mesh, ne)
        if tuple(W.value_shape) != tuple(V.value_shape):
            raise Reject("value shape changes")
    except Reject:
        raise
    except Exception as ex:
        raise Reject(type(ex).__name__)
    cache = {}

    def fn(t):
        if isinstance(t, (C.Coefficient, C.Argument)) and _space_key(t.ufl_function_space()) == key:
            if isinstance(t, C.Coefficient):
                ck = ("c", t.count())
                if ck not in cache:
                    cache[ck] = C.Coefficient(W, count=t.count())
            else:
                ck = ("a", t.number(), t.part())
                if ck not in cache:
                    cache[ck] = C.Argument(W, t.number(), t.part())
            return cache[ck]
        return t

    try:
        return sub, form_substitute(F, fn)
    except Reject:
        raise
    except Exception as ex:
        raise Reject(type(ex).__name__)


def mut_space_label(F, S, rng, U):
    """The function space of one group of coefficients / arguments gets a label."""
    terms = S.terminals((C.Coefficient, C.Argument))
    groups = {}
    for t in terms:
        groups.setdefault(_space_key(t.ufl_function_space()) + (t.ufl_function_space().label(),), []).append(t)
    if not groups:
        raise Reject("no form argument")
    key = _pick(rng, sorted(groups))
    V = groups[key][0].ufl_function_space()
    W = ufl.FunctionSpace(V.ufl_domain(), V.ufl_element(), label=(V.label() or "") + rng.choice(["a", "b", "1"]))
    members = {id(t) for t in groups[key]}
    cache = {}

    def fn(t):
        if id(t) in members:
            if id(t) not in cache:
                cache[id(t)] = C.Coefficient(W, count=t.count()) if isinstance(t, C.Coefficient) else C.Argument(W, t.number(), t.part())
            return cache[id(t)]
        return t

    try:
        return "label", form_substitute(F, fn)
    except Reject:
        raise
    except Exception as ex:
        raise Reject(type(ex).__name__)


def mut_coefficient_vs_constant(F, S, rng, U):
    cs = sorted(S.terminals(C.Coefficient), key=lambda c: c.count())
    ks = sorted(S.terminals(C.Constant), key=lambda c: c.count())
    if cs and (not ks or rng.random() < 0.7):
        f = _pick(rng, cs)
        new = C.Constant(f.ufl_function_space().ufl_domain(), tuple(f.ufl_shape))
        sub = "coefficient-to-constant"
    elif ks:
        f = _pick(rng, ks)
        mesh = f._ufl_domain
        el = E.VElement("DG", cellname(mesh), 0, tuple(f.ufl_shape), "identity", "L2")
        new = C.Coefficient(ufl.FunctionSpace(mesh, el))
        sub = "constant-to-coefficient"
    else:
        raise Reject("no coefficient or constant")
    try:
        return sub, form_substitute(F, lambda t: new if t is f else t)
    except Reject:
        raise
    except Exception as ex:
        raise Reject(type(ex).__name__)


def mut_coefficient_identity(F, S, rng, U):
    k, path, n = _pick(rng, S.where(lambda n: isinstance(n, C.Coefficient)))
    V = n.ufl_function_space()
    others = [c for c in S.terminals(C.Coefficient) if c is not n and c.count() != n.count() and _space_key(c.ufl_function_space()) == _space_key(V)]
    if others and rng.random() < 0.7:
        new = _pick(rng, sorted(others, key=lambda c: c.count()))
        sub = "existing"
    else:
        new = C.Coefficient(V)
        sub = "fresh"
    try:
        return sub, form_replace_at(F, k, path, new)
    except Reject:
        raise
    except Exception as ex:
        raise Reject(type(ex).__name__)


def mut_argument(F, S, rng, U):
    args = S.terminals(C.Argument)
    if not args:
        raise Reject("no argument")
    a = _pick(rng, sorted(args, key=lambda a: (a.number(), repr(a.part()))))
    sub = rng.choice(["number", "part"])
    if sub == "number":
        new = C.Argument(a.ufl_function_space(), a.number() + 2, a.part())
    else:
        new = C.Argument(a.ufl_function_space(), a.number(), 1 if a.part() is None else (None if rng.random() < 0.5 else a.part() + 1))
    return sub, form_substitute(F, lambda t: new if t is a else t)


def mut_terminal_domain(F, S, rng, U):
    cs = sorted(S.terminals(C.Coefficient), key=lambda c: c.count())
    f = _pick(rng, cs)
    V = f.ufl_function_space()
    mesh = V.ufl_domain()
    mesh2 = ufl.Mesh(mesh.ufl_coordinate_element())
    new = C.Coefficient(ufl.FunctionSpace(mesh2, V.ufl_element()), count=f.count())
    try:
        return "coefficient-mesh", form_substitute(F, lambda t: new if t is f else t)
    except Reject:
        raise
    except Exception as ex:
        raise Reject(type(ex).__name__)


# ---- integral level


def _with_integral(F, k, **kw):
    itgs = list(F.integrals())
    itgs[k] = itgs[k].reconstruct(**kw)
    return Form(itgs)


def mut_integral_type(F, S, rng, U):
    from ufl.measure import integral_types

    k = rng.randrange(len(F.integrals()))
    old = F.integrals()[k].integral_type()
    new = rng.choice([t for t in integral_types() if t != old])
    return "type", _with_integral(F, k, integral_type=new)


def mut_subdomain_id(F, S, rng, U):
    k = rng.randrange(len(F.integrals()))
    sid = F.integrals()[k].subdomain_id()
    if isinstance(sid, str):
        new, sub = rng.choice([(0, "everywhere-to-int"), (3, "everywhere-to-int"), ("otherwise", "everywhere-to-otherwise"), ((1, 2), "everywhere-to-tuple")])
    elif isinstance(sid, tuple):
        j = rng.randrange(len(sid))
        t = list(sid)
        t[j] = t[j] + 1
        new, sub = rng.choice([(tuple(t), "tuple-entry"), (sid + (max(sid) + 5,), "tuple-longer"), (sid[0], "tuple-to-int")])
    else:
        new, sub = rng.choice([(sid + 1, "int-value"), ((sid,), "int-to-tuple"), ("everywhere", "int-to-everywhere"), (sid + 10, "int-value")])
    return sub, _with_integral(F, k, subdomain_id=new)


def mut_integrand_swap(F, S, rng, U):
    n = len(F.integrals())
    if n < 2:
        raise Reject("single integral")
    a, b = rng.sample(range(n), 2)
    itgs = list(F.integrals())
    ea, eb = itgs[a].integrand(), itgs[b].integrand()
    itgs[a] = itgs[a].reconstruct(integrand=eb)
    itgs[b] = itgs[b].reconstruct(integrand=ea)
    return "swap", Form(itgs)


# ---- metadata


def rich_metadata(rng):
    n = rng.choice([1200, 2000, 3000])
    m = rng.choice([400, 700])
    return {
        "quadrature_degree": rng.choice([1, 2, 3, 5]),
        "quadrature_rule": "custom",
        "quadrature_points": np.array([rng.random() for _ in range(n)]),
        "points2": np.array([[rng.random() for _ in range(3)] for _ in range(m)]),
        "quadrature_weights": np.array([rng.random() for _ in range(rng.choice([3, 5, 8]))]),
        "scale": rng.choice([0.1, 1.0 / 3.0, 2.5e-7, 12345.678]),
        "level": rng.choice([1, 2, 7]),
        "opts": {"a": 1, "b": [1.5, "x"], "c": {"d": 2}},
        "flag": True,
    }


def _copy_md(md):
    out = {}
    for k, v in md.items():
        if isinstance(v, np.ndarray):
            out[k] = v.copy()
        elif isinstance(v, dict):
            out[k] = _copy_md(v)
        elif isinstance(v, list):
            out[k] = list(v)
        else:
            out[k] = v
    return out


def _md_key_renamed(md, rng):
    md["levels"] = md.pop("level")


def _md_key_removed(md, rng):
    del md["scale"]


def _md_key_added(md, rng):
    md["extra"] = 1


def _md_int_value(md, rng):
    md["quadrature_degree"] += 1


def _md_str_value(md, rng):
    md["quadrature_rule"] = "customs"


def _md_float_ulp(md, rng):
    md["scale"] = math.nextafter(md["scale"], math.inf)


def _md_bool(md, rng):
    md["flag"] = False


def _md_int_vs_float(md, rng):
    md["level"] = float(md["level"])


def _md_int_vs_str(md, rng):
    md["level"] = str(md["level"])


def _md_nested(md, rng):
    if rng.random() < 0.5:
        md["opts"]["c"]["d"] = 3
    else:
        md["opts"]["b"][0] = 1.25


def _md_short_entry(md, rng):
    w = md["quadrature_weights"]
    w[rng.randrange(len(w))] += 0.25


def _md_array_precision(md, rng):
    w = md["quadrature_weights"]
    j = rng.randrange(len(w))
    if rng.random() < 0.5:
        w[j] = w[j] * (1.0 + rng.choice([3e-10, 3e-11, 3e-12]))  # 10th..12th significant digit
    else:
        w[j] = np.nextafter(w[j], 2.0)


def _md_long_entry(md, rng):
    a = md["quadrature_points"] if rng.random() < 0.6 else md["points2"]
    flat = a.reshape(-1)
    flat[rng.randrange(len(flat))] += 0.25


def _md_long_length(md, rng):
    a = md["quadrature_points"]
    mid = len(a) // 2
    md["quadrature_points"] = np.concatenate([a[:mid], np.array([0.5, 0.75]), a[mid:]])


def _md_array_shape(md, rng):
    w = md["quadrature_weights"]
    md["quadrature_weights"] = w.reshape((1, len(w)))


METADATA_MUTATORS = {
    "metadata-key-renamed": _md_key_renamed,
    "metadata-key-removed": _md_key_removed,
    "metadata-key-added": _md_key_added,
    "metadata-int-value": _md_int_value,
    "metadata-str-value": _md_str_value,
    "metadata-float-ulp": _md_float_ulp,
    "metadata-bool-value": _md_bool,
    "metadata-int-vs-float": _md_int_vs_float,
    "metadata-int-vs-str": _md_int_vs_str,
    "metadata-nested-value": _md_nested,
    "metadata-array-short-entry": _md_short_entry,
    "metadata-array-precision": _md_array_precision,
    "metadata-array-long-entry": _md_long_entry,
    "metadata-array-long-length": _md_long_length,
    "metadata-array-shape": _md_array_shape,
}


def with_metadata(F, k, md):
    return _with_integral(F, k, metadata=md)


def metadata_mutant(F, k, md, kind, rng):
    md2 = _copy_md(md)
    METADATA_MUTATORS[kind](md2, rng)
    return with_metadata(F, k, md2)


# ---- base form operators

BFO_KINDS = ["eo-derivatives", "eo-space", "eo-slot", "eo-slot-kind", "eo-operand-order", "interp-space", "interp-expr"]


class BFOFamily:
    """An ExternalOperator / Interpolate factor attached to integral k of a form, and its single-point variants."""

    def __init__(self, F, k, rng, mesh, cellname):
        self.F, self.k = F, k
        itg = F.integrals()[k]
        self.interior = itg.integral_type().startswith("interior_facet")
        self.side = rng.choice("+-")
        P = lambda d: ufl.FunctionSpace(mesh, E.P(cellname, d))
        self.V, self.W = P(1), P(2)
        self.f, self.g = C.Coefficient(self.V), C.Coefficient(self.W)
        self.w1, self.w2 = C.Coefficient(self.V), C.Coefficient(self.W)
        self.rng = rng
        self.derivs = rng.choice([(1, 0), (0, 1), (1, 1), (2, 0)])

    def _attach(self, N):
        if self.interior:
            N = N(self.side)
        return form_with_integrand(self.F, self.k, self.F.integrals()[self.k].integrand() * N)

    def eo(self, derivs=None, space=None, slot="w1", swap=False):
        space = space or self.V
        derivs = derivs or self.derivs
        vstar = C.Argument(space.dual(), 0)
        if slot == "w1":
            slots = (vstar, self.w1)
        elif slot == "w2":
            slots = (vstar, self.w2)
        elif slot == "arg":
            slots = (vstar, C.Argument(self.V, 1))
        else:
            slots = (vstar,)
        ops = (self.g, self.f) if swap else (self.f, self.g)
        return self._attach(ExternalOperator(*ops, function_space=space, derivatives=derivs, argument_slots=slots))

    def interp(self, space=None, other_expr=False):
        e = self.g * self.g if other_expr else self.f * self.g
        return self._attach(Interpolate(e, space or self.V))

    def variant(self, kind):
        rng = self.rng
        if kind == "eo-derivatives":
            d = rng.choice([x for x in [(1, 0), (0, 1), (1, 1), (2, 0), (0, 0), (3, 1)] if x != self.derivs])
            return "eo", self.eo(derivs=d)
        if kind == "eo-space":
            return "eo", self.eo(space=self.W)
        if kind == "eo-slot":
            return "eo", self.eo(slot="w2")
        if kind == "eo-slot-kind":
            return "eo", self.eo(slot=rng.choice(["arg", "none"]))
        if kind == "eo-operand-order":
            return "eo", self.eo(swap=True)
        if kind == "interp-space":
            return "interp", self.interp(space=self.W)
        if kind == "interp-expr":
            return "interp", self.interp(other_expr=True)
        raise ValueError(kind)


EXPR_MUTATORS = {
    "literal-value": mut_literal_value,
    "literal-ulp": mut_literal_ulp,
    "literal-int-vs-float": mut_literal_int_float,
    "fixed-index": mut_fixed_index,
    "index-pattern": mut_index_pattern,
    "operator-type": mut_operator_type,
    "operand-order": mut_operand_order,
    "restriction-side": mut_restriction_side,
    "terminal-type": mut_terminal_type,
    "element": mut_element,
    "function-space-label": mut_space_label,
    "coefficient-vs-constant": mut_coefficient_vs_constant,
    "coefficient-identity": mut_coefficient_identity,
    "argument-number-part": mut_argument,
    "terminal-domain": mut_terminal_domain,
    "integral-type": mut_integral_type,
    "subdomain-id": mut_subdomain_id,
    "integrand-swap": mut_integrand_swap,
}
