"""C13 - structural equality, hashing, repr and pickling are consistent.

Events observed (all produced by the real ufl code):
  `a == b` (both directions), `hash`, `repr`, `ufl_shape` / free indices, `signature()`,
  `pickle.dumps/loads`, `eval(repr(.))`, set / dict membership.
Oracle (independent of ufl's __eq__/__hash__/repr): vf.canon in mode 'abs' (plus the
extra-domain map of integrals, which canon does not serialise):

  a == b            =>  same hash, same repr, same canon, same shape / indices (same signature for forms)
  canon(a)==canon(b) =>  a == b                       (identical data compare equal)
  == is reflexive, symmetric, transitive
  no comparison changes (repr, hash, canon, shape) of any participant
  pickle.loads(pickle.dumps(e)) == e, eval(repr(e)) == e, also when the pickle is read by
  another interpreter process (another string-hash seed)

Workload:
  once():  exhaustive near-miss families - for every terminal class (and integrals, forms,
           base forms, a few operators) all constructor calls that differ from a base call in
           exactly one datum, every variant built twice; all ordered pairs of a family are judged.
           One cross-process pickle history (child interpreters with different PYTHONHASHSEED).
  case():  random operator trees / forms from vf.gen with independently rebuilt twins
           (regenerated, eval(repr), pickle) and one-terminal mutants.
"""

import itertools
import json
import os
import pickle
import shutil
import subprocess
import sys
import tempfile
import warnings

import numpy as np

import ufl
import ufl.classes as UC
from ufl.classes import (
    Argument,
    Coargument,
    Coefficient,
    Cofunction,
    ComplexValue,
    Constant,
    FixedIndex,
    FloatValue,
    Form,
    FunctionSpace,
    Identity,
    Index,
    Integral,
    IntValue,
    Label,
    Mesh,
    MultiIndex,
    PermutationSymbol,
    Variable,
    Zero,
)
from ufl.core.expr import Expr
from ufl.form import BaseForm
from ufl.geometry import GeometricQuantity

from .. import VERIF_DIR
from .. import elements as E
from ..canon import Canon
from ..gen import Gen, Universe

LEVEL = "exploration"
ENGINE = "canon"
TECHNIQUE = (
    "runtime monitor around the real ==, hash, repr, pickle and eval(repr) judged by an independent canonical "
    "serialiser; exhaustive single-datum near-miss pairs per terminal class, random operator trees with rebuilt twins"
)
LEVEL_TEXT = (
    "Every ordered pair of each near-miss family (all terminal classes, integrals, forms, base forms; every "
    "constructor datum varied alone, each variant built twice) and random operator trees / forms with independently "
    "rebuilt twins and one-terminal mutants are compared with the real ufl operators; each observed comparison is "
    "judged against the canonical serialiser, the equivalence laws, snapshot stability and the pickle / eval(repr) "
    "round trips (also across interpreter processes).  Exhaustive only over the listed constructor data, random "
    "elsewhere."
)
LEVEL_NOTE = (
    "trusted: vf.canon ('abs') as definition of 'same data'; the value lists of the families; python-level type "
    "punning of data (1 vs 1.0 vs numpy ints) is not varied"
)
RULE = (
    "once: all ordered pairs inside each near-miss family (variant = base constructor call with exactly one datum "
    "replaced; every variant constructed twice); a pair is distinct/non-trivial when the two objects are different "
    "python objects and either differ in exactly one datum or carry identical data.  case: random expression or "
    "form from vf.gen + regenerated twin + eval(repr) twin + pickle twin + one-terminal mutants + sub-expressions; "
    "a case is distinct by the canon digest of its root and non-trivial when the root is an operator."
)
ASSUMPTIONS = [
    "canon('abs') serialises every datum of every object in the corpus (the families assert this: two variants "
    "with different labels and equal canon stop the run as BROKEN)",
    "element objects are the harness' VElement (equality by repr, as AbstractFiniteElement prescribes)",
    "mesh cargo and python-level type punning of data (1 vs True vs 1.0, numpy scalars) are outside the workload",
    "subdomain_data objects are harness objects with ufl_id(); integrals carrying them are not eval(repr)-ed",
]
BUDGET = {"quick": 60, "thorough": 330}
NCASES = {"quick": 4000, "thorough": 60000}
WORKERS = {"quick": 16, "thorough": 16}
EVAL_COUNTER = "pairs"
FLOORS = {
    "quick": {
        "pairs": 2000000,
        "near_miss_pairs": 200000,
        "near_miss_unequal_ok": 150000,
        "identical_pairs": 35000,
        "eq_true": 35000,
        "triples": 400000,
        "snapshots_rechecked": 45000,
        "container_lookups": 8000,
        "pickle_roundtrips": 8000,
        "evalrepr_roundtrips": 4000,
        "xproc_objects": 60,
        "xproc_objects_other-hashseed": 30,
        "xproc_objects_same-hashseed": 30,
        "mutants": 9000,
        "regenerated_twins": 1200,
        "cases": 3000,
        "case_forms": 700,
        "families": 29,
    },
    "thorough": {
        "pairs": 7500000,
        "near_miss_pairs": 200000,
        "near_miss_unequal_ok": 150000,
        "identical_pairs": 350000,
        "eq_true": 350000,
        "triples": 5000000,
        "snapshots_rechecked": 400000,
        "container_lookups": 8000,
        "pickle_roundtrips": 60000,
        "evalrepr_roundtrips": 30000,
        "xproc_objects": 200,
        "xproc_objects_other-hashseed": 100,
        "xproc_objects_same-hashseed": 100,
        "mutants": 120000,
        "regenerated_twins": 15000,
        "cases": 30000,
        "case_forms": 7000,
        "families": 29,
    },
}
FAMILY_NAMES = [
    "Constant", "Coefficient", "Argument", "Cofunction", "Coargument", "ScalarValue", "FloatValue-nonfinite", "Zero",
    "Identity+PermutationSymbol", "Label+Variable", "MultiIndex", "Operators", "Integral", "Integral-ndarray", "Form",
    "BaseForms", "BaseFormOperators",
] + [f"GeometricQuantity[{k}]" for k in range(12)]
TERMINAL_CLASSES = [
    "Constant", "Coefficient", "Argument", "Cofunction", "Coargument", "IntValue", "FloatValue", "ComplexValue", "Zero",
    "Identity", "PermutationSymbol", "Label", "Variable", "MultiIndex", "Integral", "Form", "Matrix", "ZeroBaseForm",
    "FormSum", "Action", "Adjoint", "ExternalOperator", "Interpolate", "SpatialCoordinate", "FacetNormal", "Jacobian",
    "CellVolume", "QuadratureWeight", "PositiveRestricted", "NegativeRestricted",
]
COVER_FLOORS = {
    "quick": {"families": FAMILY_NAMES, "classes": TERMINAL_CLASSES},
    "thorough": {"families": FAMILY_NAMES, "classes": TERMINAL_CLASSES},
}

warnings.simplefilter("ignore")


# ====================================================================== observation helpers


class SD:
    """Harness subdomain data: identified by ufl_id() (ufl.protocols.id_or_none)."""

    def __init__(self, k):
        self.k = k

    def ufl_id(self):
        return self.k

    def __repr__(self):
        return f"SD({self.k})"


def eval_ns():
    ns = E.eval_namespace()
    ns["ufl"] = ufl
    ns["SD"] = SD
    return ns


_NS = None


def ns():
    global _NS
    if _NS is None:
        _NS = eval_ns()
    return _NS


def _extra(o):
    """What vf.canon does not serialise: the extra-domain map of integrals."""
    if isinstance(o, Integral):
        c = Canon("abs")
        return tuple((c.domain(d), t) for d, t in o.extra_domain_integral_type_map().items())
    if isinstance(o, Form):
        return tuple(_extra(i) for i in o.integrals())
    return ()


class Canon13(Canon):
    """vf.canon.Canon with a work-around: Interpolate.derivatives is None (canon calls tuple() on it)."""

    def expr(self, o):
        if type(o).__name__ == "Interpolate" and getattr(o, "derivatives", ()) is None:
            ops = tuple(self.expr(x) for x in o.ufl_operands)
            extra = (
                ("space", self.space(o.ufl_function_space())),
                ("derivatives", None),
                ("slots", tuple(self.any(s) for s in o.argument_slots())),
            )
            return ("Interpolate", ops, extra)
        return Canon.expr(self, o)


def ckey(o):
    c = Canon13("abs")
    c._collect(o, set())
    c._finalise()
    return (c.any(o), _extra(o))


def is_ufl(o):
    return isinstance(o, (Expr, BaseForm, Integral))


def shapeinfo(o):
    out = []
    for name in ("ufl_shape", "ufl_free_indices", "ufl_index_dimensions"):
        if not isinstance(o, Expr):
            out.append(None)
            continue
        try:
            out.append(tuple(getattr(o, name)))
        except ValueError as ex:  # Label / MultiIndex have no shape
            out.append(("raises", type(ex).__name__))
    return tuple(out)


def do_eq(a, b):
    """Run the real comparison; forms answer with an Equation whose truth value is the answer."""
    return bool(a == b)


def clsname(o):
    return type(o).__name__


class Obs:
    """One participant with the snapshot taken before any comparison."""

    __slots__ = ("o", "fam", "data", "rep", "hsh", "can", "shp", "twin", "tag")

    def __init__(self, o, fam="", data=None, twin=0, take_hash=True, tag=""):
        self.o = o
        self.fam = fam
        self.data = data or {}
        self.twin = twin
        self.tag = tag  # names an exotic datum of this variant (part of mechanism keys)
        self.rep = repr(o)
        self.can = ckey(o)
        self.shp = shapeinfo(o)
        self.hsh = hash(o) if take_hash else None

    def label(self):
        return clsname(self.o) + "(" + ", ".join(f"{k}={v}" for k, v in self.data.items()) + ")"


def node_tag(o):
    """Exotic literal data that get their own mechanism names."""
    import math

    if isinstance(o, FloatValue):
        v = float(o._value)
        if v != v:
            return "-nan"
        if math.isinf(v):
            return "-inf"
    if isinstance(o, ComplexValue):
        v = complex(o._value)
        for x in (v.real, v.imag):
            if x != x or math.isinf(x):
                return "-nonfinite"
        sign = lambda z: (math.copysign(1, z.real), math.copysign(1, z.imag))
        if (v.real == 0 and sign(v)[0] < 0) or (v.imag == 0 and sign(v)[1] < 0) or sign(eval(repr(v))) != sign(v):
            # python's own repr of a complex number does not round-trip the sign of a zero part
            return "-signed-zero"
    return ""


def first_diff(a, b):
    """Class name of the smallest node where two trees differ (mechanism naming only)."""
    if type(a) is not type(b):
        return f"{clsname(a)}~{clsname(b)}"
    if isinstance(a, Expr) and a._ufl_is_terminal_:
        return clsname(a) + (node_tag(a) or node_tag(b))
    if isinstance(a, Form):
        ia, ib = a.integrals(), b.integrals()
        if len(ia) != len(ib):
            return "Form"
        for x, y in zip(ia, ib):
            if ckey(x) != ckey(y):
                return first_diff(x, y)
        return "Form"
    if isinstance(a, Integral):
        if ckey(a.integrand()) != ckey(b.integrand()):
            return first_diff(a.integrand(), b.integrand())
        return "Integral"
    if not isinstance(a, Expr) or a._ufl_is_terminal_:
        return clsname(a)
    oa, ob = a.ufl_operands, b.ufl_operands
    if len(oa) != len(ob):
        return clsname(a)
    for x, y in zip(oa, ob):
        if is_ufl(x) and is_ufl(y) and ckey(x) != ckey(y):
            return first_diff(x, y)
    return clsname(a)


def pair_key(A, B):
    """Mechanism suffix of a pair: class and the datum in which the two constructor calls differ."""
    ca, cb = clsname(A.o), clsname(B.o)
    if ca != cb:
        return f"{ca}~{cb}"
    if A.tag or B.tag:
        return f"{ca}-{A.tag or B.tag}"
    if A.data or B.data:
        diff = sorted(k for k in set(A.data) | set(B.data) if A.data.get(k) != B.data.get(k))
        if len(diff) == 0:
            return f"{ca}-identical"
        if len(diff) == 1:
            return f"{ca}-{diff[0]}"
        return f"{ca}-multi"
    return "expr/" + first_diff(A.o, B.o)


def okey(P, culprit=None):
    o = P.o if culprit is None else culprit
    c = clsname(o)
    return f"{c}-{P.tag}" if P.tag else c + node_tag(o)


def signature_of(o):
    try:
        return o.signature()
    except Exception as ex:
        return ("raises", type(ex).__name__)


def viol(ctx, key, desc, detail=None):
    """At most 3 reports per mechanism key and worker (the runner keeps only 200 per worker)."""
    seen = ctx.__dict__.setdefault("_c13_seen", {})
    seen[key] = seen.get(key, 0) + 1
    ctx.count("violating_observations")
    if seen[key] <= 3:
        ctx.violation(key, desc, detail)


def judge(ctx, A, B, eqm=None, i=None, j=None):
    """Judge the ordered pair (A, B) and its mirror. Returns (a==b) or None when == raised."""
    ctx.count("pairs", 2)
    try:
        e_ab = do_eq(A.o, B.o)
        e_ba = do_eq(B.o, A.o)
    except Exception as ex:
        ctx.count("eq_raised")
        viol(ctx, 
            f"C13/eq-raises/{pair_key(A, B)}",
            f"comparing {A.label()} with {B.label()} raises {type(ex).__name__}: {str(ex)[:120]}",
            {"a": A.rep[:400], "b": B.rep[:400]},
        )
        return None
    ceq = A.can == B.can
    same = A.o is B.o
    if eqm is not None:
        eqm[i][j] = e_ab
        eqm[j][i] = e_ba
    if e_ab != e_ba:
        viol(ctx, 
            f"C13/not-symmetric/{pair_key(A, B)}",
            f"({A.label()} == {B.label()}) is {e_ab} but the mirrored comparison is {e_ba}",
            {"a": A.rep[:400], "b": B.rep[:400]},
        )
    if same:
        ctx.count("reflexive_checks")
        if not e_ab:
            viol(ctx, f"C13/not-reflexive/{okey(A)}", f"{A.label()} == itself is False", {"a": A.rep[:400]})
        return e_ab
    if e_ab or e_ba:
        ctx.count("eq_true")
        ha, hb = hash(A.o), hash(B.o)
        if not ceq:
            viol(ctx, 
                f"C13/eq-but-different-data/{pair_key(A, B)}",
                f"{A.label()} == {B.label()} is True although the two objects carry different data",
                {"a": A.rep[:600], "b": B.rep[:600]},
            )
        if ha != hb:
            viol(ctx, 
                f"C13/eq-but-different-hash/{pair_key(A, B)}",
                f"{A.label()} == {B.label()} is True but the hashes differ",
                {"a": A.rep[:600], "b": B.rep[:600]},
            )
        if repr(A.o) != repr(B.o):
            viol(ctx, 
                f"C13/eq-but-different-repr/{pair_key(A, B)}",
                f"{A.label()} == {B.label()} is True but the reprs differ",
                {"a": A.rep[:600], "b": B.rep[:600]},
            )
        if shapeinfo(A.o) != shapeinfo(B.o):
            viol(ctx, 
                f"C13/eq-but-different-shape/{pair_key(A, B)}",
                f"{A.label()} == {B.label()} is True but shape/free indices are {shapeinfo(A.o)} vs {shapeinfo(B.o)}",
                {"a": A.rep[:600], "b": B.rep[:600]},
            )
        if isinstance(A.o, Form) and isinstance(B.o, Form):
            ctx.count("signature_checks")
            if signature_of(A.o) != signature_of(B.o):
                viol(ctx, 
                    f"C13/eq-but-different-signature/{pair_key(A, B)}",
                    "two forms compare equal but have different signatures",
                    {"a": A.rep[:600], "b": B.rep[:600]},
                )
    if ceq:
        ctx.count("identical_pairs")
        if not (e_ab and e_ba):
            viol(ctx, 
                f"C13/identical-data-but-unequal/{pair_key(A, B)}",
                f"{A.label()} and {B.label()} carry identical data (same canonical form) but == is {e_ab}/{e_ba}",
                {"a": A.rep[:600], "b": B.rep[:600]},
            )
    return e_ab


def recheck(ctx, parts, where):
    """No comparison may have changed repr / hash / canon / shape of a participant."""
    for P in parts:
        ctx.count("snapshots_rechecked")
        now = (repr(P.o), ckey(P.o), shapeinfo(P.o))
        if now != (P.rep, P.can, P.shp):
            what = "repr" if now[0] != P.rep else ("data" if now[1] != P.can else "shape")
            viol(ctx, 
                f"C13/comparison-changes-{what}/{where}/{clsname(P.o)}",
                f"after a sequence of comparisons the {what} of {P.label()} changed",
                {"before": P.rep[:600], "after": now[0][:600]},
            )
        if P.hsh is not None and hash(P.o) != P.hsh:
            viol(ctx, 
                f"C13/comparison-changes-hash/{where}/{clsname(P.o)}",
                f"after a sequence of comparisons the hash of {P.label()} changed",
                {"before": P.rep[:600]},
            )


def transitivity(ctx, parts, eqm, where):
    n = len(parts)
    succ = [[j for j in range(n) if eqm[i][j]] for i in range(n)]
    for i in range(n):
        for j in succ[i]:
            for k in succ[j]:
                ctx.count("triples")
                if eqm[i][k] is False:
                    viol(ctx, 
                        f"C13/not-transitive/{where}",
                        f"{parts[i].label()} == {parts[j].label()} == {parts[k].label()} but first != third",
                        {"a": parts[i].rep[:300], "b": parts[j].rep[:300], "c": parts[k].rep[:300]},
                    )


def smallest_failing(o, pred):
    """Smallest sub-node of o for which pred(node) is true (pred(o) is true)."""
    kids = []
    if isinstance(o, Form):
        kids = list(o.integrals())
    elif isinstance(o, Integral):
        kids = [o.integrand()]
    elif isinstance(o, Expr):
        kids = [x for x in o.ufl_operands if is_ufl(x)]
        if hasattr(o, "argument_slots"):
            kids += [x for x in o.argument_slots() if is_ufl(x)]
    elif isinstance(o, BaseForm):
        tn = clsname(o)
        if tn == "FormSum":
            kids = list(o.components())
        elif tn == "Action":
            kids = [o.left(), o.right()]
        elif tn == "Adjoint":
            kids = [o.form()]
        elif tn == "ZeroBaseForm":
            kids = list(o.ufl_operands)
    for k in kids:
        try:
            bad = pred(k)
        except Exception:
            bad = True
        if bad:
            return smallest_failing(k, pred)
    return o


def _evalrepr_bad(o):
    try:
        r = eval(repr(o), ns())
    except Exception:
        return True
    try:
        return not (do_eq(r, o) and ckey(r) == ckey(o))
    except Exception:
        return True


def _pickle_bad(o):
    try:
        r = pickle.loads(pickle.dumps(o))
    except Exception:
        return True
    try:
        return not (do_eq(r, o) and ckey(r) == ckey(o))
    except Exception:
        return True


def roundtrips(ctx, P, do_eval=True, protocols=(2, pickle.HIGHEST_PROTOCOL)):
    """pickle and eval(repr) round trips of one participant; returns the rebuilt objects."""
    out = []
    o = P.o
    for proto in protocols:
        ctx.count("pickle_roundtrips")
        try:
            r = pickle.loads(pickle.dumps(o, proto))
        except Exception as ex:
            culprit = smallest_failing(o, _pickle_bad)
            viol(ctx, 
                f"C13/pickle-raises/{okey(P, culprit)}",
                f"pickle round trip of {P.label()} raises {type(ex).__name__}: {str(ex)[:160]}",
                {"obj": P.rep[:600], "smallest": repr(culprit)[:400]},
            )
            continue
        try:
            ok_eq = do_eq(r, o) and do_eq(o, r)
        except Exception as ex:
            ok_eq = False
        same_data = ckey(r) == P.can
        if not ok_eq or not same_data or repr(r) != P.rep or hash(r) != hash(o):
            culprit = smallest_failing(o, _pickle_bad)
            kind = "unequal" if not ok_eq else ("different-data" if not same_data else "different-repr-or-hash")
            viol(ctx, 
                f"C13/pickle-roundtrip-{kind}/{okey(P, culprit)}",
                f"pickle.loads(pickle.dumps(e)) of {P.label()} is not an equal, identical-data object",
                {"obj": P.rep[:600], "back": repr(r)[:600], "smallest": repr(culprit)[:400]},
            )
        else:
            out.append(r)
    if do_eval:
        ctx.count("evalrepr_roundtrips")
        try:
            r = eval(P.rep, ns())
        except Exception as ex:
            culprit = smallest_failing(o, _evalrepr_bad)
            viol(ctx, 
                f"C13/eval-repr-raises/{okey(P, culprit)}",
                f"eval(repr(e)) of {P.label()} raises {type(ex).__name__}: {str(ex)[:160]}",
                {"obj": P.rep[:600], "smallest": repr(culprit)[:400]},
            )
            return out
        try:
            ok_eq = do_eq(r, o) and do_eq(o, r)
        except Exception:
            ok_eq = False
        same_data = is_ufl(r) and ckey(r) == P.can
        if not ok_eq or not same_data:
            culprit = smallest_failing(o, _evalrepr_bad)
            kind = "unequal" if not ok_eq else "different-data"
            viol(ctx, 
                f"C13/eval-repr-{kind}/{okey(P, culprit)}",
                f"eval(repr(e)) of {P.label()} is not equal to e",
                {"obj": P.rep[:600], "back": repr(r)[:600], "smallest": repr(culprit)[:400]},
            )
        else:
            out.append(r)
    return out


# ====================================================================== near-miss families


def P1v(cell, gdim, deg=1):
    return E.VElement("Lagrange", cell, deg, (gdim,), "identity", "H1")


class World:
    """Meshes / spaces shared by the families (fresh per worker)."""

    def __init__(self):
        self.mA = Mesh(P1v("triangle", 2), ufl_id=9001)
        self.mB = Mesh(P1v("triangle", 2), ufl_id=9002)
        self.mC = Mesh(P1v("triangle", 2, 2), ufl_id=9001)  # same id, other coordinate element
        self.mD = Mesh(P1v("triangle", 3), ufl_id=9001)  # same id, immersed
        self.mT = Mesh(P1v("tetrahedron", 3), ufl_id=9003)
        self.mI = Mesh(P1v("interval", 1), ufl_id=9004)
        self.domains = [
            ("triangle#9001", self.mA),
            ("triangle#9002", self.mB),
            ("triangle-P2coords#9001", self.mC),
            ("triangle-in-3d#9001", self.mD),
            ("tetrahedron#9003", self.mT),
            ("interval#9004", self.mI),
        ]

    def mesh_twin(self, m):
        return Mesh(m.ufl_coordinate_element(), ufl_id=m.ufl_id())

    def elements(self, cell="triangle"):
        V = E.VElement
        return [
            ("P1", V("Lagrange", cell, 1, (), "identity", "H1")),
            ("P2", V("Lagrange", cell, 2, (), "identity", "H1")),  # degree
            ("Q1", V("Q", cell, 1, (), "identity", "H1")),  # family
            ("P1-L2", V("Lagrange", cell, 1, (), "identity", "L2")),  # sobolev space
            ("P1-l2piola", V("Lagrange", cell, 1, (), "l2", "H1")),  # pullback
            ("P1-subdeg0", V("Lagrange", cell, 1, (), "identity", "H1", subdegree=0)),
            ("P1v2", V("Lagrange", cell, 1, (2,), "identity", "H1")),  # shape
            ("P1v3", V("Lagrange", cell, 1, (3,), "identity", "H1")),
            ("P1t", V("Lagrange", cell, 1, (2, 2), "identity", "H1")),
            ("RT1", E.RT(cell, 1)),
            ("N1", E.N1(cell, 1)),
            ("Mix(P2v,P1)", E.VMixed([E.P(cell, 2, (2,)), E.P(cell, 1)])),
            ("Mix(P1,P2v)", E.VMixed([E.P(cell, 1), E.P(cell, 2, (2,))])),  # order of sub-elements
            ("Sym[3,1,2]", E.SymT(cell, [3, 1, 2], 2)),
            ("Sym[3,2,1]", E.SymT(cell, [3, 2, 1], 2)),  # sub-element degrees
        ]

    def spaces(self, dual=False):
        """(datum, label, space) alternatives around the base space FunctionSpace(mA, P1)."""
        from ufl.functionspace import DualSpace

        mk = DualSpace if dual else FunctionSpace
        els = self.elements()
        out = [("base", "P1@triangle#9001", mk(self.mA, els[0][1]))]
        for lab, el in els[1:]:
            out.append(("element", lab, mk(self.mA, el)))
        out.append(("domain", "triangle#9002", mk(self.mB, els[0][1])))
        out.append(("domain", "triangle-P2coords#9001", mk(self.mC, els[0][1])))
        out.append(("domain", "triangle-in-3d#9001", mk(self.mD, els[0][1])))
        out.append(("label", "'a'", mk(self.mA, els[0][1], label="a")))
        out.append(("label", "'b'", mk(self.mA, els[0][1], label="b")))
        return out


class Family:
    def __init__(self, name, evalrepr=True, wrap=True, strict=True):
        self.name = name
        self.strict = strict  # differently labelled variants are known to carry different data
        self.makers = []  # (data dict, thunk)
        self.evalrepr = evalrepr
        self.wrap = wrap

    def add(self, data, thunk, tag=""):
        self.makers.append((dict(data), thunk, tag))

    def vary(self, ctor, base, alts):
        """base: {datum: (label, value)}; alts: {datum: [(label, value), ...]}: base + one datum replaced."""
        self.add({k: v[0] for k, v in base.items()}, lambda: ctor(**{k: v[1] for k, v in base.items()}))
        for datum, lst in alts.items():
            for lab, val in lst:
                d = dict(base)
                d[datum] = (lab, val)
                self.add({k: v[0] for k, v in d.items()}, (lambda d=d: ctor(**{k: v[1] for k, v in d.items()})))


def fam_constant(W):
    F = Family("Constant")
    F.vary(
        lambda domain, shape, count: Constant(domain, shape, count=count),
        {"domain": ("triangle#9001", W.mA), "shape": ("()", ()), "count": ("5", 5)},
        {
            "domain": [("triangle#9002", W.mB), ("triangle-P2coords#9001", W.mC), ("triangle-in-3d#9001", W.mD)],
            "shape": [("(2,)", (2,)), ("(3,)", (3,)), ("(2,2)", (2, 2)), ("(2,3)", (2, 3)), ("(3,2)", (3, 2)), ("(1,)", (1,))],
            "count": [("6", 6), ("50", 50)],
        },
    )
    # the same single-datum variations around a non-scalar base
    F.vary(
        lambda domain, shape, count: Constant(domain, shape, count=count),
        {"domain": ("triangle#9002", W.mB), "shape": ("(2,2)", (2, 2)), "count": ("6", 6)},
        {"shape": [("(4,)", (4,)), ("(2,2,1)", (2, 2, 1))], "count": [("7", 7)]},
    )
    return F


def _space_family(name, ctor_name, W, dual, extra_base, extra_alts, ctor):
    F = Family(name)
    sp = W.spaces(dual)
    base = {"space": (sp[0][1], sp[0][2])}
    base.update(extra_base)
    F.add({k: v[0] for k, v in base.items()}, lambda: ctor(**{k: v[1] for k, v in base.items()}))
    for datum, lab, space in sp[1:]:
        d = dict(base)
        d["space"] = (lab, space)
        dd = {k: v[0] for k, v in d.items()}
        # the differing datum is a datum of the space: name it
        dd["space"] = f"{datum}:{lab}"
        F.add(dd, (lambda d=d: ctor(**{k: v[1] for k, v in d.items()})), tag="space-label" if datum == "label" else "")
    for datum, lst in extra_alts.items():
        for lab, val in lst:
            d = dict(base)
            d[datum] = (lab, val)
            F.add({k: v[0] for k, v in d.items()}, (lambda d=d: ctor(**{k: v[1] for k, v in d.items()})))
    return F


def fam_coefficient(W):
    return _space_family(
        "Coefficient", "Coefficient", W, False, {"count": ("5", 5)}, {"count": [("6", 6), ("50", 50)]},
        lambda space, count: Coefficient(space, count=count),
    )


def fam_cofunction(W):
    F = _space_family(
        "Cofunction", "Cofunction", W, True, {"count": ("5", 5)}, {"count": [("6", 6), ("50", 50)]},
        lambda space, count: Cofunction(space, count=count),
    )
    F.wrap = False
    return F


def fam_argument(W):
    return _space_family(
        "Argument", "Argument", W, False, {"number": ("0", 0), "part": ("None", None)},
        {"number": [("1", 1), ("2", 2), ("-1", -1)], "part": [("0", 0), ("1", 1)]},
        lambda space, number, part: Argument(space, number, part),
    )


def fam_coargument(W):
    F = _space_family(
        "Coargument", "Coargument", W, True, {"number": ("0", 0), "part": ("None", None)},
        {"number": [("1", 1), ("2", 2)], "part": [("0", 0), ("1", 1)]},
        lambda space, number, part: Coargument(space, number, part),
    )
    F.wrap = False
    return F


def fam_scalars(W):
    F = Family("ScalarValue")
    for v in [1, 2, -1, 3, 99, 100, -100, 101, 200, 10**20, 10**20 + 1]:
        F.add({"value": repr(v)}, lambda v=v: IntValue(v))
    # the same integers / floats arriving as other numeric types (array entries, shapes, flags): identical data
    for v in [np.int64(200), np.int32(200), np.int64(-100), np.int16(101), np.int64(3), True]:
        F.add({"value": repr(int(v))}, lambda v=v: IntValue(v), tag="numeric-type")
    for v in [np.float64(1.5), np.float32(1.5), np.float64(100.0)]:
        F.add({"value": repr(float(v))}, lambda v=v: FloatValue(v), tag="numeric-type")
    for v in [1.0, 2.0, -1.0, 1.5, 1.5000000000000002, 0.1 + 0.2, 0.3, 1e-300, 1e300, 5e-324, 100.0, 1e20]:
        F.add({"value": repr(v)}, lambda v=v: FloatValue(v))
    for v in [1j, 2j, 1 + 1j, 1 - 1j, 1.5 + 1j, 1.5000000000000002 + 1j, 1 + 1e-300j]:
        F.add({"value": repr(v)}, lambda v=v: ComplexValue(v))
    # what -ComplexValue(1j) and conj() produce: a zero real part with a sign
    for v in [complex(-0.0, 1.0), complex(-0.0, -1.0), complex(0.0, -1.0)]:
        # -0.0 == 0.0: these are the same literal as their sign-free twin (identical data)
        F.add({"value": repr(complex(v.real + 0.0, v.imag + 0.0))}, lambda v=v: ComplexValue(v), tag="signed-zero")
    return F


def fam_nonfinite(W):
    F = Family("FloatValue-nonfinite")
    for v in [float("inf"), float("-inf"), float("nan")]:
        F.add({"value": repr(v)}, lambda v=v: FloatValue(v), tag="nan" if v != v else "inf")
    F.add({"value": "1.0"}, lambda: FloatValue(1.0))
    return F


def fam_zero(W):
    F = Family("Zero")
    F.vary(
        lambda shape, free_indices, index_dimensions: Zero(shape, free_indices, index_dimensions),
        {"shape": ("()", ()), "free_indices": ("(11,)", (11,)), "index_dimensions": ("(2,)", (2,))},
        {
            "shape": [("(2,)", (2,)), ("(3,)", (3,)), ("(2,2)", (2, 2)), ("(2,3)", (2, 3)), ("(3,2)", (3, 2))],
            "free_indices": [("(12,)", (12,))],
            "index_dimensions": [("(3,)", (3,)), ("(1,)", (1,))],
        },
    )
    F.vary(
        lambda shape, free_indices, index_dimensions: Zero(shape, free_indices, index_dimensions),
        {"shape": ("(2,)", (2,)), "free_indices": ("(11,12)", (11, 12)), "index_dimensions": ("(2,3)", (2, 3))},
        {
            "shape": [("(3,)", (3,))],
            "free_indices": [("(11,13)", (11, 13)), ("(10,12)", (10, 12))],
            "index_dimensions": [("(3,2)", (3, 2)), ("(2,2)", (2, 2)), ("(3,3)", (3, 3))],
        },
    )
    # without free indices (cached instances) and the old input format
    for sh in [(), (2,), (3,), (2, 2), (2, 3), (3, 2), (2, 2, 2)]:
        F.add({"shape": repr(sh), "free_indices": "()", "index_dimensions": "()"}, lambda sh=sh: Zero(sh))
    F.add(
        {"shape": "()", "free_indices": "(11,)", "index_dimensions": "(2,)", "format": "old"},
        lambda: Zero((), (Index(11),), {Index(11): 2}),
    )
    return F


def fam_identity(W):
    F = Family("Identity+PermutationSymbol")
    for d in [1, 2, 3, 4]:
        F.add({"dim": str(d)}, lambda d=d: Identity(d))
    for d in [2, 3, 4]:
        F.add({"dim": str(d)}, lambda d=d: PermutationSymbol(d))
    return F


def fam_label(W):
    F = Family("Label+Variable", wrap=False)
    for c in [5, 6, 50, 0]:
        F.add({"count": str(c)}, lambda c=c: Label(c))
    f = Coefficient(FunctionSpace(W.mA, E.P("triangle", 1)), count=31)
    g = Coefficient(FunctionSpace(W.mA, E.P("triangle", 1)), count=32)
    exprs = {"f": lambda: f, "g": lambda: g, "f*g": lambda: f * g, "2.5": lambda: FloatValue(2.5), "sin(f)": lambda: ufl.sin(f)}
    F.vary(
        lambda expression, label: Variable(expression(), Label(label)),
        {"expression": ("f", exprs["f"]), "label": ("5", 5)},
        {"expression": [(k, v) for k, v in exprs.items() if k != "f"], "label": [("6", 6), ("50", 50)]},
    )
    return F


def fam_multiindex(W):
    F = Family("MultiIndex", wrap=False)
    Fx, Ix = FixedIndex, Index
    specs = {
        "()": (),
        "(F0,)": (("F", 0),),
        "(F1,)": (("F", 1),),
        "(F2,)": (("F", 2),),
        "(I5,)": (("I", 5),),
        "(I6,)": (("I", 6),),
        "(I0,)": (("I", 0),),
        "(I1,)": (("I", 1),),
        "(F0,F1)": (("F", 0), ("F", 1)),
        "(F1,F0)": (("F", 1), ("F", 0)),
        "(F0,F0)": (("F", 0), ("F", 0)),
        "(I5,F1)": (("I", 5), ("F", 1)),
        "(F1,I5)": (("F", 1), ("I", 5)),
        "(I5,I6)": (("I", 5), ("I", 6)),
        "(I6,I5)": (("I", 6), ("I", 5)),
        "(I5,I5)": (("I", 5), ("I", 5)),
        "(I5,F5)": (("I", 5), ("F", 5)),
        "(F5,F5)": (("F", 5), ("F", 5)),
        "(I5,I6,F1)": (("I", 5), ("I", 6), ("F", 1)),
    }
    for lab, sp in specs.items():
        F.add({"indices": lab}, lambda sp=sp: MultiIndex(tuple(Fx(v) if k == "F" else Ix(v) for k, v in sp)))
    return F


def geometric_classes():
    return sorted(
        (c for c in UC.all_ufl_classes if issubclass(c, GeometricQuantity) and not c._ufl_is_abstract_),
        key=lambda c: c.__name__,
    )


def fam_geometry(W, part, nparts):
    """All concrete geometric quantity classes on all domains; split in class blocks."""
    F = Family(f"GeometricQuantity[{part}]")
    classes = geometric_classes()
    mine = [c for k, c in enumerate(classes) if k % nparts == part]
    # every class of this block against every class (own block twice for twins)
    for c in mine:
        for lab, m in W.domains:
            F.add({"domain": lab, "class": c.__name__}, lambda c=c, m=m: c(m))
    others = [c for c in classes if c not in mine]
    for c in others:
        for lab, m in W.domains[:2]:
            F.add({"domain": lab, "class": c.__name__, "single": "1"}, lambda c=c, m=m: c(m))
    return F


def fam_restricted(W):
    """Operators whose datum is the class (side, averaging kind, ...) or an operand position."""
    F = Family("Operators", strict=False)
    V = FunctionSpace(W.mA, E.P("triangle", 1))
    VV = FunctionSpace(W.mA, E.P("triangle", 1, (2,)))
    f = Coefficient(V, count=41)
    g = Coefficient(V, count=42)
    w = Coefficient(VV, count=43)
    A = Coefficient(FunctionSpace(W.mA, E.P("triangle", 1, (2, 2))), count=44)
    i, j = Index(21), Index(22)
    mk = {
        "f('+')": lambda: f("+"),
        "f('-')": lambda: f("-"),
        "g('+')": lambda: g("+"),
        "cell_avg(f)": lambda: ufl.cell_avg(f),
        "facet_avg(f)": lambda: ufl.facet_avg(f),
        "conj(f)": lambda: UC.Conj(f),
        "real(f)": lambda: UC.Real(f),
        "imag(f)": lambda: UC.Imag(f),
        "sin(f)": lambda: ufl.sin(f),
        "cos(f)": lambda: ufl.cos(f),
        "f**2": lambda: f**2,
        "f**3": lambda: f**3,
        "f**2.0": lambda: f**2.0,
        "bessel_J(0,f)": lambda: ufl.bessel_J(0, f),
        "bessel_J(1,f)": lambda: ufl.bessel_J(1, f),
        "bessel_Y(1,f)": lambda: ufl.bessel_Y(1, f),
        "f/g": lambda: f / g,
        "g/f": lambda: g / f,
        "f+g": lambda: f + g,
        "g+f": lambda: g + f,
        "f-g": lambda: f - g,
        "g-f": lambda: g - f,
        "w[0]": lambda: w[0],
        "w[1]": lambda: w[1],
        "w[i]": lambda: w[i],
        "w[j]": lambda: w[j],
        "A[i,j]": lambda: A[i, j],
        "A[j,i]": lambda: A[j, i],
        "A[i,i]": lambda: A[i, i],
        "A[0,1]": lambda: A[0, 1],
        "A[1,0]": lambda: A[1, 0],
        "as_tensor(A[i,j],(i,j))": lambda: ufl.as_tensor(A[i, j], (i, j)),
        "as_tensor(A[i,j],(j,i))": lambda: ufl.as_tensor(A[i, j], (j, i)),
        "as_vector([f,g])": lambda: ufl.as_vector([f, g]),
        "as_vector([g,f])": lambda: ufl.as_vector([g, f]),
        "grad(f)": lambda: ufl.grad(f),
        "nabla_grad(f)": lambda: ufl.nabla_grad(f),
        "grad(g)": lambda: ufl.grad(g),
        "div(w)": lambda: ufl.div(w),
        "nabla_div(w)": lambda: ufl.nabla_div(w),
        "f.dx(0)": lambda: f.dx(0),
        "f.dx(1)": lambda: f.dx(1),
        "lt(f,g)?f:g": lambda: ufl.conditional(ufl.lt(f, g), f, g),
        "gt(f,g)?f:g": lambda: ufl.conditional(ufl.gt(f, g), f, g),
        "lt(f,g)?g:f": lambda: ufl.conditional(ufl.lt(f, g), g, f),
        "lt(g,f)?f:g": lambda: ufl.conditional(ufl.lt(g, f), f, g),
        "max(f,g)": lambda: ufl.max_value(f, g),
        "min(f,g)": lambda: ufl.min_value(f, g),
        "max(g,f)": lambda: ufl.max_value(g, f),
        "dot(w,w)": lambda: ufl.dot(w, w),
        "inner(w,w)": lambda: ufl.inner(w, w),
        "outer(w,w)": lambda: ufl.outer(w, w),
        "A.T": lambda: A.T,
        "sym(A)": lambda: ufl.sym(A),
        "skew(A)": lambda: ufl.skew(A),
        "diff(f**2,variable f)#1": lambda: ufl.diff(Variable(f, Label(61)) ** 2, Variable(f, Label(61))),
        "diff(f**2,variable f)#2": lambda: ufl.diff(Variable(f, Label(62)) ** 2, Variable(f, Label(62))),
        "derivative-integrand": lambda: UC.CoefficientDerivative(f * g, UC.ExprList(f), UC.ExprList(g), UC.ExprMapping()),
        "derivative-integrand-swapped": lambda: UC.CoefficientDerivative(f * g, UC.ExprList(g), UC.ExprList(f), UC.ExprMapping()),
    }
    for lab, thunk in mk.items():
        F.add({"expression": lab}, thunk)
    return F


def fam_integral(W):
    F = Family("Integral", wrap=False)
    V = FunctionSpace(W.mA, E.P("triangle", 1))
    f = Coefficient(V, count=51)
    g = Coefficient(V, count=52)
    v = Argument(V, 0)
    sd1, sd2 = SD(1), SD(2)
    ints = {"f": lambda: f, "g": lambda: g, "f*v": lambda: f * v, "g*v": lambda: g * v, "1.5": lambda: FloatValue(1.5)}
    F.vary(
        lambda integrand, integral_type, domain, subdomain_id, metadata, subdomain_data, extra: Integral(
            integrand(), integral_type, domain, subdomain_id, metadata(), subdomain_data, extra_domain_integral_type_map=extra()
        ),
        {
            "integrand": ("f", ints["f"]),
            "integral_type": ("cell", "cell"),
            "domain": ("triangle#9001", W.mA),
            "subdomain_id": ("'everywhere'", "everywhere"),
            "metadata": ("{}", lambda: {}),
            "subdomain_data": ("None", None),
            "extra": ("{}", lambda: {}),
        },
        {
            "integrand": [(k, t) for k, t in ints.items() if k != "f"],
            "integral_type": [(t, t) for t in ["exterior_facet", "interior_facet", "vertex", "custom", "cutcell", "interface", "overlap"]],
            "domain": [("triangle#9002", W.mB), ("triangle-P2coords#9001", W.mC), ("triangle-in-3d#9001", W.mD)],
            "subdomain_id": [("'otherwise'", "otherwise"), ("0", 0), ("1", 1), ("2", 2), ("(1,2)", (1, 2)), ("(2,1)", (2, 1)), ("(1,)", (1,))],
            "metadata": [
                ("{qd:2}", lambda: {"quadrature_degree": 2}),
                ("{qd:3}", lambda: {"quadrature_degree": 3}),
                ("{qr:'default'}", lambda: {"quadrature_rule": "default"}),
                ("{qr:'vertex'}", lambda: {"quadrature_rule": "vertex"}),
                ("{qd:2,qr:'default'}", lambda: {"quadrature_degree": 2, "quadrature_rule": "default"}),
                ("{other:2}", lambda: {"other": 2}),
                ("{nested:{a:1}}", lambda: {"nested": {"a": 1}}),
                ("{nested:{a:2}}", lambda: {"nested": {"a": 2}}),
            ],
            "subdomain_data": [("SD(1)", sd1), ("SD(2)", sd2)],
            "extra": [
                ("{9002:cell}", lambda: {W.mB: "cell"}),
                ("{9002:exterior_facet}", lambda: {W.mB: "exterior_facet"}),
                ("{9003:cell}", lambda: {W.mT: "cell"}),
            ],
        },
    )
    return F


def fam_integral_ndarray(W):
    """Quadrature rules handed over as arrays in the metadata."""
    F = Family("Integral-ndarray", wrap=False, evalrepr=False)
    V = FunctionSpace(W.mA, E.P("triangle", 1))
    f = Coefficient(V, count=51)
    for lab, arr in [("[0.5,0.5]", [0.5, 0.5]), ("[0.25,0.75]", [0.25, 0.75]), ("[1.0]", [1.0]), ("[2.0]", [2.0])]:
        F.add(
            {"metadata": "ndarray:" + lab},
            lambda arr=arr: Integral(f, "cell", W.mA, "everywhere", {"quadrature_weights": np.array(arr)}, None),
            tag="metadata-ndarray",
        )
    return F


def fam_form(W):
    F = Family("Form", wrap=False, strict=False)
    V = FunctionSpace(W.mA, E.P("triangle", 1))
    f = Coefficient(V, count=51)
    g = Coefficient(V, count=52)
    c = Constant(W.mA, (), count=53)
    v = Argument(V, 0)
    u = Argument(V, 1)
    dx = ufl.dx(domain=W.mA)
    ds = ufl.ds(domain=W.mA)
    dS = ufl.dS(domain=W.mA)
    dxB = ufl.dx(domain=W.mB)
    mk = {
        "f*v*dx": lambda: f * v * dx,
        "g*v*dx": lambda: g * v * dx,
        "f*v*ds": lambda: f * v * ds,
        "f*v*dx(1)": lambda: f * v * dx(1),
        "f*v*dx(2)": lambda: f * v * dx(2),
        "f*v*dx((1,2))": lambda: f * v * dx((1, 2)),
        "f*v*dx(1)+f*v*dx(2)": lambda: f * v * dx(1) + f * v * dx(2),
        "f*v*dx(2)+f*v*dx(1)": lambda: f * v * dx(2) + f * v * dx(1),
        "f*v*dx(degree=2)": lambda: f * v * dx(degree=2),
        "f*v*dx(degree=3)": lambda: f * v * dx(degree=3),
        "f*v*dx(scheme)": lambda: f * v * dx(metadata={"quadrature_rule": "vertex"}),
        "f*v*dx@9002": lambda: f * v * dxB,
        "f*v*dx+g*v*dx": lambda: f * v * dx + g * v * dx,
        "g*v*dx+f*v*dx": lambda: g * v * dx + f * v * dx,
        "(f+g)*v*dx": lambda: (f + g) * v * dx,
        "f*v*dx+f*v*ds": lambda: f * v * dx + f * v * ds,
        "f*v*ds+f*v*dx": lambda: f * v * ds + f * v * dx,
        "-(f*v*dx)": lambda: -(f * v * dx),
        "2*(f*v*dx)": lambda: 2 * (f * v * dx),
        "c*(f*v*dx)": lambda: c * (f * v * dx),
        "u*v*dx": lambda: u * v * dx,
        "v*u*dx": lambda: v * u * dx,
        "f('+')*v('+')*dS": lambda: f("+") * v("+") * dS,
        "f('-')*v('+')*dS": lambda: f("-") * v("+") * dS,
        "f('+')*v('-')*dS": lambda: f("+") * v("-") * dS,
        "f*dx": lambda: f * dx,
        "g*dx": lambda: g * dx,
        "empty": lambda: Form([]),
    }
    for lab, thunk in mk.items():
        F.add({"form": lab}, thunk)
    return F


def fam_baseforms(W):
    F = Family("BaseForms", wrap=False, strict=False)
    els = W.elements()
    V1 = FunctionSpace(W.mA, els[0][1])
    V2 = FunctionSpace(W.mA, els[1][1])
    V1B = FunctionSpace(W.mB, els[0][1])
    F.vary(
        lambda row, col, count: UC.Matrix(row, col, count=count),
        {"row": ("P1", V1), "col": ("P1", V1), "count": ("5", 5)},
        {"row": [("P2", V2), ("P1@9002", V1B)], "col": [("P2", V2), ("P1@9002", V1B)], "count": [("6", 6)]},
    )
    v1, v2, u1, u2 = Argument(V1, 0), Argument(V2, 0), Argument(V1, 1), Argument(V2, 1)
    for lab, args in {
        "()": (),
        "(v1,)": (v1,),
        "(v2,)": (v2,),
        "(v1,u1)": (v1, u1),
        "(v1,u2)": (v1, u2),
        "(u1,v1)": (u1, v1),
    }.items():
        F.add({"arguments": lab}, lambda args=args: UC.ZeroBaseForm(args))
    f = Coefficient(V1, count=51)
    dx = ufl.dx(domain=W.mA)
    c5 = lambda: Cofunction(V1.dual(), count=5)
    c6 = lambda: Cofunction(V1.dual(), count=6)
    Lf = lambda: f * v1 * dx
    F.add({"formsum": "L+c5"}, lambda: Lf() + c5())
    F.add({"formsum": "L+c6"}, lambda: Lf() + c6())
    F.add({"formsum": "c5+c6"}, lambda: c5() + c6())
    F.add({"formsum": "c6+c5"}, lambda: c6() + c5())
    F.add({"formsum": "2*c5+c6"}, lambda: 2 * c5() + c6())
    F.add({"formsum": "c5+2*c6"}, lambda: c5() + 2 * c6())
    F.add({"formsum": "3*c5"}, lambda: 3 * c5())
    F.add({"formsum": "-c5"}, lambda: -c5())
    a11 = lambda: u1 * v1 * dx
    a12 = lambda: f * u1 * v1 * dx
    F.add({"adjoint": "adjoint(a11)"}, lambda: UC.Adjoint(a11()))
    F.add({"adjoint": "adjoint(a12)"}, lambda: UC.Adjoint(a12()))
    F.add({"action": "action(a11,f)"}, lambda: UC.Action(a11(), f))
    F.add({"action": "action(a12,f)"}, lambda: UC.Action(a12(), f))
    F.add({"action": "action(a11,g)"}, lambda: UC.Action(a11(), Coefficient(V1, count=52)))
    F.add({"adjoint": "adjoint(M5)"}, lambda: UC.Adjoint(UC.Matrix(V1, V1, count=5)))
    F.add({"adjoint": "adjoint(M6)"}, lambda: UC.Adjoint(UC.Matrix(V1, V1, count=6)))
    F.add({"action": "action(M5,f)"}, lambda: UC.Action(UC.Matrix(V1, V1, count=5), f))
    F.add({"action": "action(M6,f)"}, lambda: UC.Action(UC.Matrix(V1, V1, count=6), f))
    F.add({"action": "action(M5,g)"}, lambda: UC.Action(UC.Matrix(V1, V1, count=5), Coefficient(V1, count=52)))
    return F


def fam_external(W):
    F = Family("BaseFormOperators", wrap=False, strict=False)
    els = W.elements()
    V1 = FunctionSpace(W.mA, els[0][1])
    V2 = FunctionSpace(W.mA, els[1][1])
    f = Coefficient(V1, count=51)
    g = Coefficient(V1, count=52)
    F.vary(
        lambda operands, function_space, derivatives: UC.ExternalOperator(*operands, function_space=function_space, derivatives=derivatives),
        {"operands": ("(f,)", (f,)), "function_space": ("P1", V1), "derivatives": ("None", None)},
        {"operands": [("(g,)", (g,)), ("(f,g)", (f, g))], "function_space": [("P2", V2)], "derivatives": [("(1,)", (1,)), ("(2,)", (2,))]},
    )
    F.vary(
        lambda operands, function_space, derivatives: UC.ExternalOperator(*operands, function_space=function_space, derivatives=derivatives),
        {"operands": ("(f,g)", (f, g)), "function_space": ("P1", V1), "derivatives": ("(0,0)", (0, 0))},
        {"operands": [("(g,f)", (g, f))], "derivatives": [("(1,0)", (1, 0)), ("(0,1)", (0, 1))]},
    )
    F.vary(
        lambda expr, v: UC.Interpolate(expr, v),
        {"expr": ("f", f), "v": ("P1", V1)},
        {"expr": [("g", g), ("f*g", f * g)], "v": [("P2", V2)]},
    )
    return F


def all_families(W):
    fams = [
        lambda: fam_constant(W),
        lambda: fam_coefficient(W),
        lambda: fam_argument(W),
        lambda: fam_cofunction(W),
        lambda: fam_coargument(W),
        lambda: fam_scalars(W),
        lambda: fam_nonfinite(W),
        lambda: fam_zero(W),
        lambda: fam_identity(W),
        lambda: fam_label(W),
        lambda: fam_multiindex(W),
        lambda: fam_restricted(W),
        lambda: fam_integral(W),
        lambda: fam_integral_ndarray(W),
        lambda: fam_form(W),
        lambda: fam_baseforms(W),
        lambda: fam_external(W),
    ]
    ngeo = 12
    for p in range(ngeo):
        fams.append(lambda p=p: fam_geometry(W, p, ngeo))
    return fams


def wrapped(o):
    """Operator nodes around a terminal variant (operator-level equality on near-miss terminals)."""
    out = []
    if not isinstance(o, Expr):
        return out
    sh = shapeinfo(o)
    if not isinstance(sh[0], tuple) or (sh[0] and sh[0][0] == "raises"):
        return out
    try:
        out.append(("restricted", UC.PositiveRestricted(o)))
    except Exception:
        pass
    if not o.ufl_free_indices:
        try:
            out.append(("listtensor", UC.ListTensor(o, o)))
        except Exception:
            pass
    return out


def run_family(ctx, mk):
    F = mk()
    ctx.count("families")
    ctx.covered("families", F.name)
    parts = []
    for data, thunk, tag in F.makers:
        for twin in (0, 1):
            try:
                o = thunk()
            except Exception as ex:
                ctx.count("constructor_rejected")
                ctx.covered("constructor_rejected", f"{data.get('class', F.name)}:{type(ex).__name__}")
                break
            parts.append(Obs(o, F.name, data, twin, take_hash=(twin == 0), tag=tag))
            ctx.covered("classes", clsname(o))
    n0 = len(parts)
    if F.wrap:
        for P in list(parts):
            for wl, w in wrapped(P.o):
                parts.append(Obs(w, F.name, dict(P.data, wrap=wl), P.twin, take_hash=(P.twin == 0), tag=P.tag))
    n = len(parts)
    # harness self-check: differently labelled variants must differ in canon
    for i in range(n0 if F.strict else 0):
        for j in range(i + 1, n0):
            A, B = parts[i], parts[j]
            if A.data != B.data and A.can == B.can and A.data.get("format") is None and B.data.get("format") is None:
                raise RuntimeError(f"C13 harness: canon is blind to the difference of {A.label()} and {B.label()}")
    eqm = [[None] * n for _ in range(n)]
    for i in range(n):
        A = parts[i]
        for j in range(i, n):
            B = parts[j]
            # wrapped objects only against objects of the same wrapper kind
            if A.data.get("wrap") != B.data.get("wrap"):
                continue
            r = judge(ctx, A, B, eqm, i, j)
            if i == j or r is None:
                continue
            diff = [k for k in set(A.data) | set(B.data) if A.data.get(k) != B.data.get(k)]
            same_cls = type(A.o) is type(B.o)
            if same_cls and len(diff) == 1 and A.can != B.can:
                ctx.count("near_miss_pairs")
                ctx.add_distinct(("nm", F.name, clsname(A.o), tuple(sorted(A.data.items())), tuple(sorted(B.data.items()))))
                if r is False:
                    ctx.count("near_miss_unequal_ok")
                if (i * 31 + j) % 211 == 7:
                    ctx.sample({"family": F.name, "a": A.label(), "b": B.label(), "a==b": r, "same_data": False}, limit=3)
            elif len(diff) == 0:
                ctx.add_distinct(("id", F.name, clsname(A.o), tuple(sorted(A.data.items()))))
    transitivity(ctx, parts, eqm, F.name)
    # comparisons through containers
    try:
        s = set()
        d = {}
        for P in parts:
            s.add(P.o)
            d[P.o] = d.get(P.o, 0) + 1
        for P in parts:
            ctx.count("container_lookups")
            if P.o not in s or P.o not in d:
                viol(ctx, f"C13/container-lookup-fails/{clsname(P.o)}", f"{P.label()} is not found in a set/dict that contains it", {"a": P.rep[:400]})
    except Exception as ex:
        viol(ctx, f"C13/eq-raises/container/{F.name}", f"set/dict of the family raises {type(ex).__name__}: {str(ex)[:160]}")
    # round trips
    for P in parts:
        if P.twin == 0 and ("wrap" not in P.data or (P.tag and P.data["wrap"] == "listtensor")):
            has_sd = "SD(" in P.rep
            roundtrips(ctx, P, do_eval=F.evalrepr and not has_sd)
            if has_sd or not F.evalrepr:
                ctx.count("evalrepr_skipped_non_ufl_payload")
    recheck(ctx, parts, "family")


# ====================================================================== cross-process pickle history


def xproc(ctx, tag, seed_a, seed_b, nobj):
    tmp = tempfile.mkdtemp(prefix="c13_")
    try:
        env = dict(os.environ)
        env["PYTHONPATH"] = VERIF_DIR + os.pathsep + env.get("PYTHONPATH", "")
        path = os.path.join(tmp, "corpus.pkl")
        env["PYTHONHASHSEED"] = str(seed_a)
        ra = subprocess.run(
            [sys.executable, "-B", "-m", "vf.c13_child", "dump", path, str(ctx.seed), str(nobj)],
            env=env, cwd=VERIF_DIR, capture_output=True, timeout=240,
        )
        if ra.returncode != 0:
            raise RuntimeError("c13_child dump failed: " + ra.stderr.decode(errors="replace")[-1500:])
        env["PYTHONHASHSEED"] = str(seed_b)
        rb = subprocess.run(
            [sys.executable, "-B", "-m", "vf.c13_child", "load", path],
            env=env, cwd=VERIF_DIR, capture_output=True, timeout=240,
        )
        if rb.returncode != 0:
            raise RuntimeError("c13_child load failed: " + rb.stderr.decode(errors="replace")[-1500:])
        recs = json.loads(rb.stdout.decode())
    finally:
        shutil.rmtree(tmp, ignore_errors=True)
    for r in recs:
        ctx.count("xproc_objects")
        ctx.count("xproc_objects_" + tag)
        ctx.add_distinct(("xproc", tag, r["digest"]))
        if r.get("error"):
            viol(ctx, 
                f"C13/pickle-cross-process/raises/{tag}/{r['cls']}",
                f"reading a pickle written by another interpreter ({tag}) raises {r['error'][:200]}",
                {"repr": r["repr"][:400]},
            )
            continue
        how = "used as dict key before the dump" if r["hashed"] else "not used as dict key before the dump"
        if not r["same_data"] or not r["same_repr"]:
            viol(ctx, 
                f"C13/pickle-cross-process/different-data/{tag}/{r['cls']}",
                "object read from a pickle written by another interpreter carries other data than the original",
                {"repr": r["repr"][:400]},
            )
            continue
        if not (r["eq_lf"] and r["eq_fl"]):
            viol(ctx, 
                f"C13/pickle-cross-process/unequal-to-identical-object/{tag}",
                f"unpickled in another interpreter ({tag}), the object is != an identical object built there "
                f"(eq {r['eq_lf']}/{r['eq_fl']}, hash equal: {r['hash_equal']}, found in dict: {r['in_dict']}; {how})",
                {"repr": r["repr"][:400], "cls": r["cls"]},
            )
        elif not r["hash_equal"] or not r["in_dict"]:
            viol(ctx, 
                f"C13/pickle-cross-process/equal-but-different-hash/{tag}",
                f"unpickled in another interpreter ({tag}), the object is == an identical object built there but "
                f"hash equal: {r['hash_equal']}, found in dict: {r['in_dict']} ({how})",
                {"repr": r["repr"][:400], "cls": r["cls"]},
            )


# ====================================================================== entry points


def once(ctx):
    W = World()
    fams = all_families(W)
    for k, mk in enumerate(fams):
        if ctx.nsub > 1 and k % ctx.nsub != ctx.sub:
            continue
        run_family(ctx, mk)
    nobj = 40 if ctx.tier == "quick" else 120
    if ctx.nsub == 1 or ctx.sub == ctx.nsub - 1:
        xproc(ctx, "other-hashseed", 101, 202, nobj)
    if ctx.nsub == 1 or ctx.sub == ctx.nsub - 2:
        xproc(ctx, "same-hashseed", 101, 101, nobj)


CONFIGS = [
    ("triangle", 2, "cell", False),
    ("triangle", 2, "interior_facet", False),
    ("tetrahedron", 3, "cell", False),
    ("triangle", 3, "exterior_facet", False),
    ("interval", 1, "cell", False),
    ("triangle", 2, "cell", True),
    ("tetrahedron", 3, "interior_facet", False),
    ("interval", 2, "exterior_facet", True),
]


def subnodes(e, out, limit=60):
    if len(out) >= limit:
        return
    out.append(e)
    for x in e.ufl_operands:
        subnodes(x, out, limit)


def terminal_paths(e, path, out):
    if e._ufl_is_terminal_:
        out.append(path)
        return
    for k, x in enumerate(e.ufl_operands):
        terminal_paths(x, path + (k,), out)


def restricted_paths(e, path, out):
    if isinstance(e, (UC.PositiveRestricted, UC.NegativeRestricted)):
        out.append(path)
    for k, x in enumerate(e.ufl_operands):
        restricted_paths(x, path + (k,), out)


MUTABLE = (Coefficient, Argument, Constant, IntValue, FloatValue, ComplexValue, GeometricQuantity, Label)
SWAPPABLE = ("Division", "Power", "LT", "GT", "LE", "GE", "Atan2", "Outer", "Cross", "ListTensor", "Conditional", "Dot", "MinValue", "MaxValue")
RENAME = {"Sin": "Cos", "Cos": "Sin", "Exp": "Tanh", "Tanh": "Atan", "Atan": "Erf", "Erf": "Sin", "Sinh": "Cosh", "Cosh": "Sinh",
          "LT": "LE", "GT": "GE", "LE": "LT", "GE": "GT", "EQ": "NE", "NE": "EQ", "MinValue": "MaxValue", "MaxValue": "MinValue",
          "Real": "Imag", "Imag": "Real", "Grad": "NablaGrad", "Div": "NablaDiv", "Sym": "Skew", "Skew": "Sym",
          "AndCondition": "OrCondition", "OrCondition": "AndCondition", "BesselJ": "BesselY", "BesselI": "BesselK",
          "CellAvg": "FacetAvg", "FacetAvg": "CellAvg"}


def operator_paths(e, path, out):
    if e._ufl_is_terminal_:
        return
    out.append(path)
    for k, x in enumerate(e.ufl_operands):
        operator_paths(x, path + (k,), out)


def operator_mutant(t0, rng):
    """Same tree with one operator node changed: two operands swapped or the node class replaced."""
    ops = []
    operator_paths(t0, (), ops)
    rng.shuffle(ops)
    for p in ops[:12]:
        nd = node_at(t0, p)
        cn = clsname(nd)
        o = nd.ufl_operands
        if cn in RENAME and rng.random() < 0.6:
            new = getattr(UC, RENAME[cn])(*o)
            if type(new).__name__ == RENAME[cn]:
                return rebuild(t0, p, new)
        if cn in SWAPPABLE and len(o) >= 2:
            a, b = (1, 2) if cn == "Conditional" else rng.sample(range(len(o)), 2)
            if shapeinfo(o[a]) == shapeinfo(o[b]) and o[a] is not o[b]:
                lst = list(o)
                lst[a], lst[b] = lst[b], lst[a]
                return rebuild(t0, p, nd._ufl_expr_reconstruct_(*lst))
    return None


def node_at(e, path):
    for k in path:
        e = e.ufl_operands[k]
    return e


def rebuild(e, path, new):
    if not path:
        return new
    ops = list(e.ufl_operands)
    ops[path[0]] = rebuild(ops[path[0]], path[1:], new)
    return e._ufl_expr_reconstruct_(*ops)


def near_miss_terminal(t, U, rng, other_mesh):
    """A terminal with the same value shape that differs from t in one datum (or None)."""
    if isinstance(t, Coefficient):
        k = rng.randrange(4)
        V = t.ufl_function_space()
        if k == 0:
            return Coefficient(V, count=t.count() + 1000)
        if k == 1:
            names = [n for n in U.spaces_with_shape(t.ufl_shape) if U.spaces[n] != V]
            if names:
                return Coefficient(U.spaces[rng.choice(names)], count=t.count())
            return Coefficient(V, count=t.count() + 1000)
        if k == 2:
            return Coefficient(FunctionSpace(V.ufl_domain(), V.ufl_element(), label="lbl"), count=t.count())
        return Coefficient(FunctionSpace(other_mesh, V.ufl_element()), count=t.count())
    if isinstance(t, Argument):
        V = t.ufl_function_space()
        k = rng.randrange(3)
        if k == 0:
            return Argument(V, t.number() + 1, t.part())
        if k == 1:
            return Argument(V, t.number(), 0 if t.part() is None else None)
        return Argument(FunctionSpace(other_mesh, V.ufl_element()), t.number(), t.part())
    if isinstance(t, Constant):
        if rng.random() < 0.5:
            return Constant(t._ufl_domain, t.ufl_shape, count=t.count() + 1000)
        return Constant(other_mesh, t.ufl_shape, count=t.count())
    if isinstance(t, IntValue):
        return IntValue(int(t) + rng.choice([1, -1, 100, 1000]))
    if isinstance(t, FloatValue):
        v = float(t)
        return FloatValue(rng.choice([np.nextafter(v, 1e308).item(), -v, v + 1.0]))
    if isinstance(t, ComplexValue):
        return ComplexValue(complex(t) + rng.choice([1, 1j]))
    if isinstance(t, GeometricQuantity):
        return type(t)(other_mesh)
    if isinstance(t, Label):
        return Label(t.count() + 1000)
    return None


def case(ctx, i, rng):
    cell, gdim, itype, cplx = rng.choice(CONFIGS)
    U = Universe(rng, cell, gdim, itype, cplx)
    other_mesh = Mesh(U.mesh.ufl_coordinate_element(), ufl_id=U.mesh.ufl_id() + 100000)
    kind = "form" if rng.random() < 0.25 else "expr"
    depth = rng.choice([1, 2, 2, 3, 3, 4]) if kind == "expr" else rng.choice([1, 2, 2, 3])
    shape = rng.choice([(), (), (), (gdim,), (2,), (3,), (2, 2), (gdim, gdim), (2, 3)])
    arity = rng.choice([0, 1, 2])
    sid = rng.choice([None, 1, 2, (1, 2)])
    md = rng.choice([None, {"quadrature_degree": 2}, {"quadrature_rule": "vertex"}])
    deg = rng.choice([None, None, 3])
    state = rng.getstate()

    def build():
        G = Gen(U, rng, cplx=cplx)
        if kind == "expr":
            return G.expr(shape, depth)
        integrand, _ = G.integrand(arity, depth)
        F = integrand * U.measure(sid, md, deg)
        return F

    try:
        e = build()
    except Exception as ex:
        ctx.count("generator_rejected")
        return
    rng.setstate(state)
    try:
        e2 = build()
    except Exception:
        e2 = None
    parts = [Obs(e, "case", {}, 0, take_hash=(i % 2 == 0))]
    root = parts[0]
    ctx.count("case_forms" if kind == "form" else "case_exprs")
    nontrivial = kind == "form" or not e._ufl_is_terminal_
    if nontrivial:
        ctx.add_distinct(("case", kind, root.can))
    ctx.covered("root_classes", clsname(e))
    if e2 is not None:
        P2 = Obs(e2, "case", {}, 1, take_hash=False)
        if P2.can != root.can:
            ctx.count("regenerated_twin_differs")
        elif e2 is not e:
            ctx.count("regenerated_twins")
        parts.append(P2)
    # round-trip twins (violations are reported inside)
    has_sd = False
    for r in roundtrips(ctx, root, do_eval=True):
        parts.append(Obs(r, "case", {}, 2, take_hash=False))
    # mutants
    integrand_of = (lambda x: x) if kind == "expr" else None
    if kind == "expr":
        targets = [e]
    else:
        targets = [itg.integrand() for itg in e.integrals()]
    for _ in range(3):
        if not targets:
            break
        t0 = rng.choice(targets)
        tp, rp = [], []
        terminal_paths(t0, (), tp)
        restricted_paths(t0, (), rp)
        try:
            if rp and rng.random() < 0.25:
                p = rng.choice(rp)
                nd = node_at(t0, p)
                flip = UC.NegativeRestricted if isinstance(nd, UC.PositiveRestricted) else UC.PositiveRestricted
                m = rebuild(t0, p, flip(nd.ufl_operands[0]))
            elif rng.random() < 0.3:
                m = operator_mutant(t0, rng)
                if m is None:
                    ctx.count("mutant_no_variant")
                    continue
                ctx.count("mutants_operator")
            else:
                tp = [q for q in tp if isinstance(node_at(t0, q), MUTABLE)]
                if not tp:
                    ctx.count("mutant_no_variant")
                    continue
                p = rng.choice(tp)
                new = near_miss_terminal(node_at(t0, p), U, rng, other_mesh)
                if new is None:
                    ctx.count("mutant_no_variant")
                    continue
                m = rebuild(t0, p, new)
                ctx.covered("mutated_terminals", clsname(new))
        except Exception:
            ctx.count("mutants_rejected")
            continue
        if kind == "form":
            itgs = list(e.integrals())
            k = [x.integrand() is t0 for x in itgs].index(True)
            itgs[k] = itgs[k].reconstruct(integrand=m)
            m = Form(itgs)
        ctx.count("mutants")
        parts.append(Obs(m, "case", {}, 3, take_hash=False))
    if kind == "form":
        # measure-level near misses and algebra on forms
        try:
            itg0 = e.integrals()[0]
            alt = [
                Form([itg0.reconstruct(subdomain_id=7)] + list(e.integrals()[1:])),
                Form([itg0.reconstruct(metadata={"quadrature_degree": 5})] + list(e.integrals()[1:])),
                Form([itg0.reconstruct(domain=other_mesh)] + list(e.integrals()[1:])),
                -e,
                2 * e,
                e + e,
                Form(list(reversed(e.integrals()))),
            ]
            for m in alt:
                ctx.count("mutants")
                parts.append(Obs(m, "case", {}, 3, take_hash=False))
            for itg in e.integrals()[:2]:
                parts.append(Obs(itg, "case", {}, 0, take_hash=False))
            if e2 is not None:
                for itg in e2.integrals()[:2]:
                    parts.append(Obs(itg, "case", {}, 1, take_hash=False))
        except Exception:
            ctx.count("mutants_rejected")
    else:
        # sub-expressions at the same positions of the original and the regenerated twin
        subs = []
        subnodes(e, subs)
        picks = rng.sample(range(len(subs)), k=min(4, len(subs)))
        subs2 = []
        if e2 is not None and len(parts) > 1 and parts[1].can == root.can:
            subnodes(e2, subs2)
        for k in picks:
            parts.append(Obs(subs[k], "case", {}, 0, take_hash=False))
            if len(subs2) == len(subs) and subs2[k] is not subs[k]:
                parts.append(Obs(subs2[k], "case", {}, 1, take_hash=False))
    n = len(parts)
    eqm = [[None] * n for _ in range(n)]
    for a in range(n):
        for b in range(a, n):
            judge(ctx, parts[a], parts[b], eqm, a, b)
    transitivity(ctx, parts, eqm, "case")
    # a random sequence of comparisons, also through containers
    objs = [P.o for P in parts]
    try:
        for _ in range(3 * n):
            a, b = rng.choice(objs), rng.choice(objs)
            k = rng.randrange(4)
            ctx.count("sequence_comparisons")
            if k == 0:
                bool(a == b)
            elif k == 1:
                bool(a != b)
            elif k == 2:
                a in {b: 1}
            else:
                a in set(objs[: rng.randrange(1, n + 1)])
    except Exception as ex:
        viol(ctx, f"C13/eq-raises/sequence/{clsname(e)}", f"comparison sequence raises {type(ex).__name__}: {str(ex)[:160]}", {"root": root.rep[:400]})
    recheck(ctx, parts, "case")
    if i % 97 == 5:
        ctx.sample({"case": i, "kind": kind, "root": clsname(e), "participants": n, "repr_len": len(root.rep)}, limit=3)
