"""C21 - replace substitutes exactly the mapped subexpressions.

Events: ufl.replace(e, mapping) / ufl.algorithms.replace(e, mapping) on generated expressions and forms that
contain the mapped terminals many times (under Grad/Div/Curl/.dx, restrictions on interior facets, variables
and diff, conj/real/imag, conditionals, index notation, list tensors), with mappings coefficient -> coefficient
(same / other space of the same shape), terminal -> expression (also expressions that contain the key itself or
other keys), constant -> constant / literal / Python number / expression, argument -> coefficient / argument,
swaps {f: g, g: f}, chains {f: g, g: h}, equal-but-distinct key objects, keys that do not occur, non-terminal
keys (grad(f), f*g, variables, ...), shape-changing mappings, and on the result of derivative().

Oracle (value level, vf.seval): S(replace(e, m)) == S(e) evaluated with world.subst = {key: image}: ONE
simultaneous, non-recursive substitution of the terminals' fields in the same frames and on the same side, so
spatial derivatives, restrictions, variables and diff follow by definition (no substitution is performed on the
expression by the oracle).  Shape-changing mappings must raise.  A mapping none of whose keys occurs must
return an expression/form that is == and canon-equal to the input.  Forms are compared per (integral type,
subdomain id, metadata) group.  Non-terminal keys: e_K = replace(e_p, {p: K}) for a placeholder coefficient p
(itself checked against subst {p: K}), then S(replace(e_K, {K: G})) == S(e_p) under subst {p: G}.
derivative(): when neither a key is a differentiation variable nor an image depends on one, 'differentiate then
substitute' and 'substitute then differentiate' coincide and S(CoefficientDerivative node) under subst is the
expectation; otherwise the documented reading (replace acts on the evaluated derivative) is asserted by
comparing with S(expand_derivatives(dF)) under subst.
Deterministic part (once): every scalar operator applied to a coefficient, the coefficient replaced by int / float /
zero / complex literals (the re-constructed operators fold constants); replay index -1.
"""

import math

import ufl
from ufl.algorithms import expand_derivatives
from ufl.algorithms.replace import replace as replace_alg

from .. import oracle
from ..canon import canon
from ..gen import Gen, Universe
from ..passcheck import count_verdicts, node_classes, safe_str, skeleton, subexpressions
from ..phi import WorldSet, phi
from ..seval import S
from ..world import Unsupported, World

LEVEL = "exploration"
ENGINE = "seval"
TECHNIQUE = (
    "differential runtime monitoring of ufl.replace: value of the output against the reference interpreter's value of the input "
    "with the mapped terminals' fields overridden (simultaneous, non-recursive), plus must-raise and must-be-unchanged monitors"
)
LEVEL_TEXT = (
    "The real replace is run on generated expressions and forms that contain the mapped coefficients / arguments / constants many "
    "times under derivatives, restrictions, variables, conditionals and index notation, for mappings to terminals, expressions "
    "(also containing keys), literals, swaps, chains, equal-but-distinct and absent keys, non-terminal keys and on derivative() "
    "results; the output's value is compared at random points of random cells (cell pairs on interior facets, 50-digit "
    "confirmation) with the interpreter's value of the input under a field override of the mapped terminals; shape-changing "
    "mappings must raise; key-free inputs must come back == and canon-equal.  Exploration over generated cases."
)
LEVEL_NOTE = (
    "trusted: vf/seval.py (incl. world.subst field override), vf/world.py, vf/canon.py; for mappings that touch a differentiation "
    "variable of derivative() the expectation is S(expand_derivatives(dF)) under the override (expand_derivatives trusted there); "
    "affine simplex cells, single mesh, no base form operators / coarguments"
)
RULE = (
    "deterministic part: 41 scalar operators x 6 real (+3 complex) literal images in a real and a complex world; "
    "case i = (family: expr | form | derivative | nonterminal-key | shape-changing | no-key, expression recipe from the seeded generator "
    "with the keys as extra leaves, mapping style and image kinds, cell, integral type, real/complex); distinct = (family, mapping style, "
    "image kinds, skeleton depth 2 of the input, cell, integral type); non-trivial = at least one mapped key occurs in the input and the "
    "override changes the input's value in the first world (value families), a mismatching pair is present (shape-changing), "
    "the input contains other terminals of the keys' classes (no-key)"
)
ASSUMPTIONS = [
    "replace is one simultaneous substitution: images are not substituted again (swap and chain mappings, images containing their own key)",
    "a key occurring in the differentiation slot of diff(., coefficient) has no well-defined field-override meaning and is not generated; "
    "variables are differentiated by label, so replacing inside a variable keeps diff(., v) meaningful",
    "for derivative(F, u, du) the statement is read as: the value of the (evaluated) derivative with the fields overridden; when a key is "
    "u (or a coefficient_derivatives key) or an image depends on it this is 'differentiate first' (the reading documented in replace.py)",
    "when no key is a differentiation variable and no image depends on one, S(derivative node) under the override is the expectation "
    "(Gateaux derivative by definition, spatial derivatives of the images included); a disagreement is attributed to replace only if "
    "expand_derivatives agrees with the definition on the input itself (otherwise it is noted as an expand_derivatives suspect and skipped); "
    "the targeted workload 'cellwise-constant-key' maps a Constant / DG0 coefficient under grad inside derivative() to a varying image",
    "replace(e, m) on an input containing CoefficientDerivative returns the expanded derivative even when no key occurs; only value "
    "equality is asserted there",
    "replace(form, m) drops integrals whose integrand is the literal Zero (map_integrands); the no-key monitor compares the remaining "
    "integrals one by one (== and canon-equal, same order)",
    "non-terminal keys mean: every occurrence of that subexpression (as built, compared with ==) is replaced by the image",
    "if replace raises on a shape-compatible mapping although the overridden input has a finite value in two worlds, that is a violation "
    "(literal division by zero and the like give non-finite expectations and count as rejected)",
]
BUDGET = {"quick": 45, "thorough": 420}
NCASES = {"quick": 8000, "thorough": 120000}
CASE_TIMEOUT = 40.0
EVAL_COUNTER = "cases"
FLOORS = {'quick': {'case_held': 1500, 'effective': 1300, 'rejected_as_required': 170, 'identity_checks': 170, 'form_groups_held': 650, 'deriv_held': 200, 'nonterminal_held': 170, 'literal_sweep_held': 350, 'formsum_held': 100}, 'thorough': {'case_held': 25000, 'effective': 22000, 'rejected_as_required': 3000, 'identity_checks': 3000, 'form_groups_held': 11000, 'deriv_held': 3600, 'nonterminal_held': 3000, 'literal_sweep_held': 350, 'formsum_held': 1500, 'suite:replace:held': 150}}
COVER_FLOORS = {
    "quick": {"families_held": ["expr", "form", "deriv", "nonterminal"], "itypes_held": ["cell", "exterior_facet", "interior_facet"]},
    "thorough": {"families_held": ["expr", "form", "deriv", "nonterminal"], "itypes_held": ["cell", "exterior_facet", "interior_facet"]},
}

CELLS = [("interval", 1), ("triangle", 2), ("triangle", 2), ("triangle", 2), ("tetrahedron", 3), ("triangle", 3), ("interval", 2)]
ITYPES = ["cell", "cell", "exterior_facet", "interior_facet", "interior_facet"]
FAMILIES = ["expr", "expr", "expr", "expr", "expr", "form", "form", "shape", "identity", "deriv", "deriv", "nonterminal"]
KEYCLASSES = ("Coefficient", "Argument", "Constant")


# ----------------------------------------------------------------------------------------- DAG helpers


def occurrences(e):
    """[(terminal, under_restriction)] for every Coefficient / Argument / Constant occurrence class (deduplicated by identity)."""
    out = {}
    seen = set()
    stack = [(e, False)]
    while stack:
        o, r = stack.pop()
        if (id(o), r) in seen:
            continue
        seen.add((id(o), r))
        name = type(o).__name__
        if o._ufl_is_terminal_:
            if name in KEYCLASSES:
                out[(id(o), r)] = (o, r)
            continue
        rr = r or name in ("PositiveRestricted", "NegativeRestricted")
        for c in o.ufl_operands:
            stack.append((c, rr))
    return list(out.values())


def integrands_of(x):
    if hasattr(x, "integrals"):
        return [itg.integrand() for itg in x.integrals()]
    return [x]


def occurs(x, t):
    for e in integrands_of(x):
        for o, _ in occurrences(e):
            if o is t or o == t:
                return True
    return False


def occurs_unrestricted(x, t):
    for e in integrands_of(x):
        for o, r in occurrences(e):
            if not r and (o is t or o == t):
                return True
    return False


def has_class(x, names):
    for e in integrands_of(x):
        if node_classes(e) & set(names):
            return True
    return False


# ----------------------------------------------------------------------------------------- keys and images


class Key:
    def __init__(self, obj, kind, name):
        self.obj = obj
        self.kind = kind  # coef | arg | const
        self.name = name  # space name, or shape for constants
        self.shape = tuple(obj.ufl_shape)


def new_key(rng, U, shape=None, kinds=("coef", "coef", "coef", "const", "arg")):
    g = U.gdim
    if shape is None:
        shape = rng.choice([(), (), (), (), (g,), (g,), (2,), (g, g), (g + 1,)])
    names = U.spaces_with_shape(shape)
    kind = rng.choice(kinds)
    if kind == "const" or not names:
        if math.prod(shape) > 9:
            shape = ()
        return Key(U.const(shape, rng.randrange(2)), "const", shape)
    name = rng.choice(names)
    if kind == "arg":
        return Key(U.arg(name, rng.randrange(2)), "arg", name)
    return Key(U.coef(name, rng.randrange(2)), "coef", name)


def pick_keys(rng, U, n, kinds=("coef", "coef", "coef", "const", "arg")):
    keys = []
    for _ in range(8 * n):
        if len(keys) >= n:
            break
        shape = None
        if keys and rng.random() < 0.5:
            shape = rng.choice(keys).shape
        k = new_key(rng, U, shape, kinds)
        if all(k.obj is not q.obj for q in keys):
            keys.append(k)
    return keys


def clone_equal(key, U):
    """A distinct object that compares equal to the key."""
    o = key.obj
    if key.kind == "coef":
        return ufl.Coefficient(o.ufl_function_space(), count=o.count())
    if key.kind == "arg":
        return ufl.Argument(o.ufl_function_space(), o.number(), o.part())
    return ufl.Constant(U.mesh, key.shape, count=o.count())


def literal_tensor(rng, shape, cplx):
    vals = [0.5, 1.5, -0.25, 2.75, 2, 3, -2, 1, -1.5]
    if cplx:
        vals = vals + [1j, 0.5 + 0.5j, 2 - 1j]

    def nest(sh):
        if not sh:
            return rng.choice(vals)
        return [nest(sh[1:]) for _ in range(sh[0])]

    return nest(shape)


def make_image(rng, U, Gimg, key, keys, safe_only, cplx):
    """(image, kind).  The image is a UFL expression or a Python number of the key's shape, unrestricted."""
    sh = key.shape
    g = U.gdim
    names = U.spaces_with_shape(sh)
    kinds = ["const", "literal"]
    if not safe_only:
        kinds += ["gen", "gen", "self", "lincomb", "list"]
        if names:
            kinds += ["coef-same", "coef-other", "coef-other", "arg"]
        if sh == (g,) or sh == (g, g):
            kinds += ["grad"]
        if rng.random() < 0.15:
            kinds += ["zero"]
        if len(sh) == 1:
            kinds += ["indexsum", "indexsum"]
    kind = rng.choice(kinds)
    k = rng.choice([2, 3])
    if kind == "coef-same":
        return U.coef(key.name if key.kind != "const" else rng.choice(names), k), kind
    if kind == "coef-other":
        return U.coef(rng.choice(names), k), kind
    if kind == "arg":
        return U.arg(rng.choice(names), rng.choice([0, 1, 2])), kind
    if kind == "const":
        if math.prod(sh) > 9:
            return ufl.zero(*sh) if sh else 0, "zero"
        return U.const(sh, rng.choice([2, 3])), kind
    if kind == "literal":
        if sh == ():
            v = literal_tensor(rng, (), cplx)
            return (v, "pynumber") if rng.random() < 0.7 else (ufl.as_ufl(v), kind)
        if len(sh) == 2 and sh[0] == sh[1] and rng.random() < 0.3:
            return ufl.Identity(sh[0]), "identity"
        return ufl.as_tensor(literal_tensor(rng, sh, cplx)), kind
    if kind == "zero":
        return (0 if rng.random() < 0.5 else 0.0, "pyzero") if sh == () else (ufl.zero(*sh), kind)
    if kind == "indexsum":
        # a vector valued sum that binds one of the index objects the surrounding expression uses as well: when the
        # replaced coefficient is indexed with that very index, the image's own sum must not capture it
        m_ = rng.choice([2, 3])
        kk = rng.choice(U.idx)
        return U.const((sh[0], m_), k)[:, kk] * U.const((m_,), k)[kk], kind
    if kind == "grad":
        if sh == (g,):
            return ufl.grad(U.coef(rng.choice(["P2", "P3", "P1"]), k)), kind
        return ufl.grad(U.coef(rng.choice(U.spaces_with_shape((g,))), k)), kind
    if kind == "self":
        # contains the key itself: must not be replaced again
        a = U.coef(rng.choice(["P1", "P2", "DG1"]), k)
        r = rng.random()
        if r < 0.4:
            return ufl.sin(a) * key.obj, kind
        if r < 0.7:
            return 2 * key.obj + (key.obj if sh else key.obj * key.obj), kind
        return key.obj * (1.5 + a * a) - key.obj / (3 + a * a), kind
    if kind == "lincomb":
        cands = [q.obj for q in keys if q.shape == sh and q.obj is not key.obj]
        a = rng.choice(cands) if cands and rng.random() < 0.6 else (U.coef(rng.choice(names), k) if names else U.const(sh, 2))
        b = U.coef(rng.choice(names), 5 - k) if names else U.const(sh, 3)
        return 2 * a + b, kind
    if kind == "list" and sh:
        def comp(idx):
            r = rng.random()
            if r < 0.35:
                other = tuple(rng.randrange(d) for d in sh)
                return key.obj[other]  # permuted components of the key itself
            if r < 0.7:
                return Gimg.expr((), 1)
            return literal_tensor(rng, (), cplx)

        def nest(prefix, rest):
            if not rest:
                return comp(prefix)
            return [nest(prefix + (i,), rest[1:]) for i in range(rest[0])]

        return ufl.as_tensor(nest((), sh)), kind
    return Gimg.expr(sh, rng.choice([1, 1, 2])), "gen"


def image_shape(v):
    return tuple(getattr(v, "ufl_shape", ()))


# ----------------------------------------------------------------------------------------- workloads


def setup_universe(rng, itype=None):
    cell, gdim = rng.choice(CELLS)
    itype = itype or rng.choice(ITYPES)
    cplx = rng.random() < 0.2
    U = Universe(rng, cell, gdim, itype, cplx)
    return U, cell, gdim, itype, cplx


def hostile_terms(rng, U, keys, restrict, cplx):
    """Scalar terms that contain the keys many times under derivatives / restrictions / conditionals / index notation."""
    g = U.gdim
    i, j = U.idx[0], U.idx[1]

    def rs(x):
        return x(rng.choice("+-")) if restrict else x

    def re(x):
        return ufl.real(x) if cplx else x

    terms = []
    for q in keys:
        f = q.obj
        sh = q.shape
        smooth = q.kind != "const"
        if sh == ():
            opts = ["sq", "cond", "idx"]
            if smooth:
                opts += ["grad", "lap", "dx"]
            if restrict and smooth:
                opts += ["jump", "jump"]
            if cplx:
                opts += ["conj"]
            o = rng.choice(opts)
            if o == "sq":
                terms.append(rs(f) * rs(f) + ufl.sin(rs(f)))
            elif o == "cond":
                terms.append(ufl.conditional(ufl.lt(re(rs(f)), 0.25), rs(f), 2 * rs(f)) * ufl.max_value(re(rs(f)), 0.5))
            elif o == "idx":
                terms.append(ufl.as_vector([rs(f), 2 * rs(f), rs(f) * rs(f)])[i] * ufl.as_vector([1.5, rs(f), 3])[i])
            elif o == "grad":
                terms.append(rs(f) * rs(ufl.grad(f))[rng.randrange(g)] + ufl.inner(rs(ufl.grad(f)), rs(ufl.grad(f))))
            elif o == "lap":
                terms.append(rs(ufl.div(ufl.grad(f))) * rs(f))
            elif o == "dx":
                terms.append(rs(f.dx(rng.randrange(g))) * rs(f) ** 2)
            elif o == "jump":
                terms.append(ufl.jump(f) * ufl.avg(f) + f("+") * f("-") + ufl.grad(f)("+")[0] * ufl.grad(f)("-")[0])
            elif o == "conj":
                terms.append(ufl.conj(rs(f)) * rs(f) + ufl.imag(rs(f)) * ufl.real(rs(f)))
        elif len(sh) == 1:
            n = sh[0]
            opts = ["inner", "idx", "cond"]
            if smooth and n == g:
                opts += ["div", "gradinner", "curl"]
            if restrict and smooth:
                opts += ["jump"]
            o = rng.choice(opts)
            if o == "inner":
                terms.append(ufl.inner(rs(f), rs(f)) + rs(f)[0] * rs(f)[n - 1])
            elif o == "idx":
                terms.append(rs(f)[i] * rs(f)[i] + ufl.as_tensor(rs(f)[i] * rs(f)[j], (i, j))[j, j])
            elif o == "cond":
                terms.append(ufl.conditional(ufl.gt(re(rs(f)[0]), 0.125), rs(f), -rs(f))[n - 1])
            elif o == "div":
                terms.append(rs(ufl.div(f)) * rs(f)[0] + rs(ufl.nabla_div(f)))
            elif o == "gradinner":
                terms.append(ufl.inner(rs(ufl.grad(f)), rs(ufl.nabla_grad(f))) + rs(f[0].dx(g - 1)))
            elif o == "curl":
                if g == 3:
                    terms.append(ufl.inner(rs(ufl.curl(f)), rs(f)))
                elif g == 2:
                    terms.append(rs(ufl.curl(f)) * rs(f)[1])
                else:
                    terms.append(rs(f)[0])
            elif o == "jump":
                terms.append(ufl.inner(ufl.jump(f), ufl.avg(f)))
        elif len(sh) == 2:
            o = rng.choice(["inner", "idx", "tr"] + (["div"] if smooth and sh[1] == g else []))
            if o == "inner":
                terms.append(ufl.inner(rs(f), rs(f)))
            elif o == "idx":
                terms.append(rs(f)[i, j] * rs(f)[i, j] if sh[0] != sh[1] else rs(f)[i, j] * rs(f)[j, i])
            elif o == "tr":
                terms.append(ufl.tr(rs(f) * rs(f).T) if True else 0)
            elif o == "div":
                terms.append(rs(ufl.div(f))[0] * rs(f)[0, 0])
    return terms


def variable_terms(rng, U, keys, restrict):
    """Scalar terms with variables that contain keys, differentiated by diff."""
    terms = []

    def rs(x):
        return x(rng.choice("+-")) if restrict else x

    for q in keys:
        if q.kind == "const" and rng.random() < 0.5:
            continue
        f = q.obj
        if q.shape == ():
            other = U.coef("P2", rng.randrange(2))
            v = ufl.variable(f * f + other if rng.random() < 0.5 else f)
            e2 = v**2 * f + ufl.sin(v) * other + v
            terms.append(rs(ufl.diff(e2, v)) + rs(v))
        elif len(q.shape) == 1:
            v = ufl.variable(f)
            e2 = ufl.inner(v, v) * v[0] + ufl.inner(v, f)
            terms.append(rs(ufl.diff(e2, v))[q.shape[0] - 1])
        if len(terms) >= 2:
            break
    return terms


def make_expr(rng, U, keys, cplx, tier, deriv=None, depth=None, want_scalar=False, hostile=True):
    g = U.gdim
    G = Gen(U, rng, cplx=cplx, deriv=rng.choice([0, 1, 1, 2]) if deriv is None else deriv, cond=rng.random() < 0.35,
            math=rng.random() < 0.5, geom=rng.random() < 0.25)
    G.extra = [q.obj for q in keys]
    G.extra_prob = rng.choice([0.4, 0.6, 0.8])
    shape = () if want_scalar else rng.choice([(), (), (), (g,), (2,), (g, g)])
    if depth is None:
        depth = rng.choice([1, 2, 2, 3] if tier == "quick" else [1, 2, 2, 3, 3, 4])
    e = G.expr(shape, depth)
    restrict = U.interior
    extra = []
    if hostile and rng.random() < 0.7:
        extra += rng.sample(hostile_terms(rng, U, keys, restrict, cplx), k=min(len(keys), rng.choice([1, 2])))
    if hostile and rng.random() < 0.3:
        extra += variable_terms(rng, U, keys, restrict)
    if extra:
        s = extra[0]
        for t in extra[1:]:
            s = s + t
        e = e + s if shape == () else e * (1 + s)
    if shape and not want_scalar and rng.random() < 0.2:
        # leave free indices at the top
        idx = tuple(rng.sample(U.idx, len(shape)))
        e = e[idx]
    return e, G


def build_mapping(rng, U, keys, target, cplx, force_style=None, forbid=(), two_sided=None):
    """Returns (mapping for replace, subst for the oracle, style, image kinds) or None.

    `forbid`: terminals that must not occur in images; `two_sided`: the expressions that are evaluated in two-cell
    worlds (a key that occurs unrestricted there only gets side-independent images)."""
    if two_sided is None:
        two_sided = integrands_of(target) if U.interior else []
    Gimg = Gen(U, rng, cplx=cplx, deriv=1, cond=False, math=rng.random() < 0.6, geom=False, restrict=False)
    Gimg.extra = [q.obj for q in keys if all(q.obj is not x for x in forbid)]
    Gimg.extra_prob = 0.35
    present = [q for q in keys if occurs(target, q.obj)]
    if not present:
        return None
    style = force_style or rng.choice(["single", "multi", "multi", "all", "swap", "chain", "eqdistinct", "absent"])
    pairs = []  # (key object used in the mapping, key object in e, image, kind)

    def safe(q):
        return any(occurs_unrestricted(x, q.obj) for x in two_sided)

    def ok(img):
        return not any(occurs(img, x) for x in forbid) if hasattr(img, "ufl_shape") else True

    def image(q):
        for _ in range(6):
            img, kind = make_image(rng, U, Gimg, q, keys, safe(q), cplx)
            if ok(img):
                return img, kind
        return U.const(q.shape, 3) if math.prod(q.shape) <= 9 else ufl.zero(*q.shape), "const"

    if style in ("swap", "chain"):
        cands = [(a, b) for a in present for b in keys if a is not b and a.shape == b.shape and not safe(a) and not safe(b)]
        if not cands:
            style = "multi"
        else:
            a, b = rng.choice(cands)
            if style == "swap":
                pairs = [(a.obj, a.obj, b.obj, "swap"), (b.obj, b.obj, a.obj, "swap")]
            else:
                c, kind = image(b)
                pairs = [(a.obj, a.obj, b.obj, "chain"), (b.obj, b.obj, c, "chain-" + kind)]
            rest = [q for q in keys if q is not a and q is not b]
            for q in rest:
                if rng.random() < 0.4:
                    img, kind = image(q)
                    pairs.append((q.obj, q.obj, img, kind))
    if style == "single":
        q = rng.choice(present)
        img, kind = image(q)
        pairs = [(q.obj, q.obj, img, kind)]
    elif style in ("multi", "all", "absent", "eqdistinct"):
        chosen = list(keys) if style == "all" else [q for q in keys if rng.random() < 0.6]
        if not any(q in present for q in chosen):
            chosen.append(rng.choice(present))
        for q in chosen:
            img, kind = image(q)
            kobj = q.obj
            if style == "eqdistinct" and rng.random() < 0.7:
                kobj = clone_equal(q, U)
                kind = "eq-" + kind
            pairs.append((kobj, q.obj, img, kind))
        if style == "absent":
            for _ in range(rng.choice([1, 2])):
                q = new_key(rng, U)
                fresh = {"coef": lambda: U.coef(q.name, 7), "arg": lambda: U.arg(q.name, 5), "const": lambda: U.const(q.shape, 7)}[q.kind]()
                q2 = Key(fresh, q.kind, q.name)
                img, kind = image(q2)
                pairs.append((fresh, fresh, img, "absent-" + kind))
    rng.shuffle(pairs)
    mapping = {}
    subst = {}
    for kobj, eobj, img, kind in pairs:
        mapping[kobj] = img
        subst[eobj] = ("expr", ufl.as_ufl(img) if not hasattr(img, "ufl_shape") else img)
    return mapping, subst, style, tuple(sorted(kind for *_, kind in pairs))


# ----------------------------------------------------------------------------------------- comparison


def compare_values(e, out, subst, worlds):
    """Verdicts: S(e) under the field override against S(out)."""

    def fin(w, B):
        w.subst = subst
        try:
            return S(e, w, B)
        finally:
            w.subst = {}

    def fout(w, B):
        return S(out, w, B)

    return [oracle.compare_once(fin, fout, w) for w in worlds]


def summarise(ctx, vs):
    """held | violated | inconclusive | skipped from sample verdicts (counts them)."""
    count_verdicts(ctx, vs)
    kinds = [v.kind for v in vs]
    if any(k in ("input-structure", "input-ambiguous") for k in kinds):
        ctx.count("input_not_evaluable")
        return "skipped"
    v = oracle.decide(vs)
    if "output-ambiguous" in kinds and v != "violated":
        v = "violated"
    return v


def is_effective(e, subst, w):
    """Does the override change the input's value in world w?"""
    try:
        a = S(e, w).arr
        w.subst = subst
        try:
            b = S(e, w).arr
        finally:
            w.subst = {}
    except Exception:
        return False
    if a.shape != b.shape:
        return True
    import numpy as np

    return bool(np.max(np.abs(a - b), initial=0.0) > 1e-9 * max(1.0, float(np.max(np.abs(a), initial=0.0))))


def expectation_defined(e, subst, worlds):
    n = 0
    for w in worlds:
        w.subst = subst
        try:
            r = S(e, w)
            import numpy as np

            if np.all(np.isfinite(r.arr)) and not r.flags:
                n += 1
        except Exception:
            pass
        finally:
            w.subst = {}
    return n >= 2


def localise(e, mapping, subst, worlds, fn):
    """Smallest sub-expression of e on which replace already disagrees with the override."""
    n = 0
    for sub in subexpressions(e):
        name = type(sub).__name__
        if name in ("MultiIndex", "Label", "ExprList", "ExprMapping") or name.endswith("Condition") or name in ("EQ", "NE", "LT", "GT", "LE", "GE"):
            continue
        n += 1
        if n > 300:
            break
        try:
            out = fn(sub, mapping)
            vs = compare_values(sub, out, subst, worlds[:2])
        except Exception:
            continue
        if any(v.kind in ("disagree", "output-ambiguous") for v in vs):
            return sub
    return None


def culprit_key(culprit):
    """Mechanism key part: class of the smallest sub-expression on which replace already disagrees."""
    return type(culprit).__name__


def joint_only(e, mapping, subst, worlds, fn):
    """True when every single pair of the mapping is handled correctly on e and only the joint mapping is not
    (the pairs interact: substitution is not simultaneous / not single-pass)."""
    if len(mapping) < 2:
        return False
    for k, v in mapping.items():
        sub1 = {}
        for t, spec in subst.items():
            if t is k or t == k:
                sub1[t] = spec
        if not sub1:
            continue
        try:
            out = fn(e, {k: v})
            vs = compare_values(e, out, sub1, worlds[:2])
        except Exception:
            return False
        if any(x.kind in ("disagree", "output-ambiguous") for x in vs) or not any(x.kind == "agree" for x in vs):
            return False
    return True


def still_contains(x, K):
    for e in integrands_of(x):
        for o in subexpressions(e):
            if o is K or (type(o) is type(K) and o == K):
                return True
    return False


def describe_mapping(mapping):
    return {safe_str(k, 80) + " #" + type(k).__name__: safe_str(v, 200) for k, v in mapping.items()}


def make_worlds(ctx, rng, cell, gdim, itype, cplx, n=3):
    try:
        return [World(rng, cell, gdim, itype, cplx) for _ in range(n)]
    except Unsupported:
        ctx.count("world_unsupported")
        return None


def pick_fn(rng):
    return (ufl.replace, "ufl.replace") if rng.random() < 0.7 else (replace_alg, "ufl.algorithms.replace.replace")


def check_structure(ctx, family, e, out):
    try:
        same = (tuple(out.ufl_shape) == tuple(e.ufl_shape) and tuple(out.ufl_free_indices) == tuple(e.ufl_free_indices)
                and tuple(out.ufl_index_dimensions) == tuple(e.ufl_index_dimensions))
    except Exception:
        same = False
    if not same:
        ctx.violation(f"C21/declared-structure-changed/{family}/{skeleton(e, 1)}",
                      f"replace changed the declared shape / free indices: {e.ufl_shape}/{e.ufl_free_indices} -> "
                      f"{getattr(out, 'ufl_shape', None)}/{getattr(out, 'ufl_free_indices', None)}", {"input": safe_str(e, 800), "output": safe_str(out, 800)})
    return same


def raise_site(ex):
    """Innermost ufl function that raised, e.g. 'Erf.__new__' (names the mechanism of a raise)."""
    tb = ex.__traceback__
    site = None
    while tb is not None:
        code = tb.tb_frame.f_code
        if "/ufl/" in code.co_filename:
            site = getattr(code, "co_qualname", code.co_name)
        tb = tb.tb_next
    return (site or "unknown").replace("<locals>.", "")


def run_replace(ctx, family, fn, e, mapping, subst, worlds, expr_for_expectation=None):
    """Call the real replace; a raise on a valid mapping is judged against the expectation."""
    try:
        return True, fn(e, mapping)
    except Exception as ex:
        ctx.count("replace_raised")
        ctx.covered("replace_raised_with", type(ex).__name__ + ": " + str(ex)[:70])
        tgt = expr_for_expectation if expr_for_expectation is not None else e
        if hasattr(tgt, "ufl_shape") and worlds and expectation_defined(tgt, subst, worlds):
            ctx.violation(f"C21/raises-on-valid-mapping/{raise_site(ex)}/{type(ex).__name__}",
                          f"replace raised {type(ex).__name__} in {raise_site(ex)}: {str(ex)[:200]} although the mapping is shape compatible and the overridden input has a finite value",
                          {"input": safe_str(e, 1200), "mapping": describe_mapping(mapping)})
        else:
            ctx.count("rejected_undefined")
        return False, None


# ----------------------------------------------------------------------------------------- families


def family_expr(ctx, i, rng):
    U, cell, gdim, itype, cplx = setup_universe(rng)
    keys = pick_keys(rng, U, rng.choice([1, 2, 2, 3, 4]))
    try:
        e, G = make_expr(rng, U, keys, cplx, ctx.tier)
        if rng.random() < 0.12 and not U.interior and keys[0].kind in ("coef", "const"):
            # history: a variable whose expression was replaced before keeps its label, so one expression can hold two
            # Variable nodes with the SAME label and DIFFERENT operands; a later replace must treat them separately
            k0 = keys[0]
            twin = U.coef(k0.name, 8) if k0.kind == "coef" else U.const(k0.shape, 8)
            sc = ufl.inner(k0.obj, k0.obj) if k0.shape else k0.obj
            if cplx and k0.shape:
                sc = ufl.real(sc)
            sv = ufl.variable(sc + 1.25)
            t = sv * sv + 2 * sv
            t_old = ufl.replace(t, {k0.obj: twin})
            extra = 2 * t + 3 * t_old
            if tuple(e.ufl_shape) == () and not e.ufl_free_indices:
                e = e + extra
            else:
                e = extra
            keys = keys + [Key(twin, k0.kind, k0.name)]
            ctx.count("twin_label_variables")
        built = build_mapping(rng, U, keys, e, cplx)
    except Exception as ex:
        ctx.count("build_rejected")
        ctx.covered("build_rejected_with", type(ex).__name__ + ": " + str(ex)[:60])
        return
    if built is None:
        ctx.count("no_key_in_expression")
        return
    mapping, subst, style, kinds = built
    worlds = make_worlds(ctx, rng, cell, gdim, itype, cplx)
    if worlds is None:
        return
    fn, fname = pick_fn(rng)
    ok, out = run_replace(ctx, "expr", fn, e, mapping, subst, worlds)
    if not ok:
        return
    ctx.count("accepted")
    for c in node_classes(e):
        ctx.covered("input_node_classes", c)
    if not check_structure(ctx, "expr", e, out):
        return
    vs = compare_values(e, out, subst, worlds)
    v = summarise(ctx, vs)
    ctx.count("case_" + v)
    if v == "violated":
        bad = next(x for x in vs if x.kind in ("disagree", "output-ambiguous"))
        culprit = localise(e, mapping, subst, worlds, fn) or e
        joint = joint_only(e, mapping, subst, worlds, fn)
        ctx.violation("C21/value-differs/" + ("pairs-interact" if joint else culprit_key(culprit)),
                      f"replace output differs from the input under the field override ({bad.kind}, rel. err {bad.err}, {bad.why}); "
                      + ("every single pair alone is handled correctly, only the joint mapping is not; " if joint else "")
                      + f"smallest sub-expression: {safe_str(culprit, 300)}",
                      {"input": safe_str(e, 1500), "output": safe_str(out, 1500), "mapping": describe_mapping(mapping), "style": style,
                       "culprit": safe_str(culprit, 600), "world": worlds[0].describe(), "entry": fname})
        return
    if v == "held":
        ctx.covered("families_held", "expr")
        ctx.covered("itypes_held", itype)
        ctx.covered("styles_held", style)
        for kd in kinds:
            ctx.covered("image_kinds_held", kd)
        for q in keys:
            ctx.covered("key_kinds_held", q.kind + ":" + str(len(q.shape)))
        if is_effective(e, subst, worlds[0]):
            ctx.count("effective")
            ctx.add_distinct(("expr", style, kinds, skeleton(e, 2), cell, gdim, itype))
            ctx.sample({"family": "expr", "style": style, "image_kinds": list(kinds), "cell": [cell, gdim], "itype": itype,
                        "input": safe_str(e, 220), "mapping": describe_mapping(mapping)})


def form_pieces(rng, cell, gdim, cplx, keys_fn, nint, tier):
    """A form with nint integrals over several integral types that share spaces, coefficients and keys."""
    base = Universe(rng, cell, gdim, "cell", cplx)
    keys = keys_fn(base)
    unis = {}
    form = None
    for _ in range(nint):
        it = rng.choice(["cell", "exterior_facet", "interior_facet"])
        U = unis.get(it)
        if U is None:
            U = Universe(rng, cell, gdim, it, cplx)
            U.mesh, U.spaces, U._coefs, U._consts, U._args, U.x, U.idx = base.mesh, base.spaces, base._coefs, base._consts, base._args, base.x, base.idx
            unis[it] = U
        e, _ = make_expr(rng, U, keys, cplx, tier, want_scalar=True, depth=rng.choice([1, 2, 2]))
        sid = rng.choice([None, None, 1, 2, (1, 3)])
        md = rng.choice([None, None, {"quadrature_degree": 2}])
        piece = e * U.measure(sid, md)
        form = piece if form is None else form + piece
    return base, unis, keys, form


def group_key(itg):
    md = itg.metadata()
    return (itg.integral_type(), repr(itg.subdomain_id()), repr(sorted(md.items())) if md else "")


def groups_of(form):
    out = {}
    for itg in form.integrals():
        out.setdefault(group_key(itg), []).append((itg.integral_type(), itg.integrand()))
    return out


def family_form(ctx, i, rng):
    cell, gdim = rng.choice(CELLS)
    cplx = rng.random() < 0.2
    try:
        base, unis, keys, form = form_pieces(rng, cell, gdim, cplx, lambda U: pick_keys(rng, U, rng.choice([1, 2, 3])), rng.choice([1, 2, 2, 3]), ctx.tier)
        Uany = unis.get("interior_facet") or next(iter(unis.values()))
        built = build_mapping(rng, Uany, keys, form, cplx,
                              two_sided=[itg.integrand() for itg in form.integrals() if itg.integral_type() == "interior_facet"])
    except Exception as ex:
        ctx.count("build_rejected")
        ctx.covered("build_rejected_with", type(ex).__name__ + ": " + str(ex)[:60])
        return
    if built is None:
        ctx.count("no_key_in_expression")
        return
    mapping, subst, style, kinds = built
    fn, fname = pick_fn(rng)
    single_integral = rng.random() < 0.12
    try:
        if single_integral:
            # an Integral is accepted as well; judge it as the one-integral form
            itg0 = form.integrals()[0]
            form = ufl.Form([itg0])
            out = fn(itg0, mapping)
            ctx.count("integral_inputs")
            if type(out).__name__ == "Integral":
                out = ufl.Form([out])
        else:
            out = fn(form, mapping)
    except Exception as ex:
        ctx.count("replace_raised")
        ctx.covered("replace_raised_with", type(ex).__name__ + ": " + str(ex)[:70])
        # judge on the integrands separately: the raise is only held against replace when EVERY integrand has a
        # defined value after the substitution and is accepted alone (one integrand that is undefined at the
        # substituted value, e.g. atan(1j), makes the raise a legitimate refusal of the whole form)
        every = True
        for itg in form.integrals():
            ws = make_worlds(ctx, rng, cell, gdim, itg.integral_type(), cplx)
            if not (ws and expectation_defined(itg.integrand(), subst, ws)):
                every = False
                break
            try:
                fn(itg.integrand(), mapping)
            except Exception:
                every = False
                break
        if every:
            ctx.violation(f"C21/raises-on-valid-mapping/form-only/{raise_site(ex)}/{type(ex).__name__}", f"replace(form) raised {type(ex).__name__}: {str(ex)[:200]} but accepts each integrand",
                          {"form": safe_str(form, 1200), "mapping": describe_mapping(mapping)})
            return
        ctx.count("rejected_undefined")
        return
    ctx.count("accepted")
    if not hasattr(out, "integrals"):
        ctx.violation("C21/form/result-is-not-a-form", f"replace(form) returned {type(out).__name__}", {"form": safe_str(form, 800)})
        return
    gin, gout = groups_of(form), groups_of(out)
    extra = set(gout) - set(gin)
    if extra:
        ctx.violation("C21/form/integral-moved", f"replace produced integrals in groups that the input does not have: {sorted(extra)}",
                      {"form": safe_str(form, 1200), "output": safe_str(out, 1200), "mapping": describe_mapping(mapping)})
        return
    try:
        wsets = [WorldSet(rng, cell, gdim, cplx, conforming=True) for _ in range(3)]
    except Unsupported:
        ctx.count("world_unsupported")
        return
    verdicts = []
    for gk in sorted(gin):
        ins, outs = gin[gk], gout.get(gk, [])
        vs = [oracle.compare_once(lambda w, B: phi(ins, w, B, subst=subst), lambda w, B: phi(outs, w, B), ws) for ws in wsets]
        v = summarise(ctx, vs)
        verdicts.append(v)
        if v == "violated":
            bad = next(x for x in vs if x.kind in ("disagree", "output-ambiguous"))
            culprit = None
            worlds = [wsets[0].worlds[gk[0]], wsets[1].worlds[gk[0]]]
            for _, integrand in ins:
                culprit = localise(integrand, mapping, subst, worlds, fn)
                if culprit is not None:
                    break
            ctx.count("case_violated")
            joint = culprit is not None and any(joint_only(x, mapping, subst, worlds, fn) for _, x in ins)
            ctx.violation("C21/value-differs/" + ("pairs-interact" if joint else culprit_key(culprit)) if culprit is not None else "C21/form/value-differs/form-level",
                          f"replace(form) changed group {gk}: {bad.kind}, rel. err {bad.err}, {bad.why}",
                          {"form": safe_str(form, 1500), "output": safe_str(out, 1500), "mapping": describe_mapping(mapping), "group": list(gk),
                           "culprit": safe_str(culprit, 500) if culprit is not None else None, "entry": fname})
            return
        if v == "held":
            ctx.count("form_groups_held")
    if verdicts and "held" in verdicts and all(v in ("held", "skipped") for v in verdicts):
        ctx.count("case_held")
        ctx.covered("families_held", "form")
        ctx.covered("styles_held", style)
        for gk in gin:
            ctx.covered("itypes_held", gk[0])
        eff = False
        for gk in sorted(gin):
            for it, integrand in gin[gk]:
                eff = eff or is_effective(integrand, subst, wsets[0].worlds[it])
        if eff:
            ctx.count("effective")
            ctx.add_distinct(("form", style, kinds, tuple(sorted(gin)), skeleton(form.integrals()[0].integrand(), 2), cell, gdim))
            ctx.sample({"family": "form", "style": style, "image_kinds": list(kinds), "cell": [cell, gdim], "groups": [list(g) for g in sorted(gin)],
                        "form": safe_str(form, 220), "mapping": describe_mapping(mapping)})
    else:
        ctx.count("case_undecided")


def mismatching_image(rng, U, key, cplx):
    g = U.gdim
    sh = key.shape
    cands = []
    for s in [(), (g,), (2,), (3,), (g + 1,), (g, g), (2, 3), (3, 2), (4,)]:
        if s != sh:
            cands.append(s)
    s = rng.choice(cands)
    r = rng.random()
    names = U.spaces_with_shape(s)
    if r < 0.35 and names:
        return U.coef(rng.choice(names), 2), s, "coefficient"
    if r < 0.5 and names:
        return U.arg(rng.choice(names), 1), s, "argument"
    if r < 0.7:
        return U.const(s, 2), s, "constant"
    if s == ():
        return literal_tensor(rng, (), cplx), s, "pynumber"
    if r < 0.85:
        return ufl.as_tensor(literal_tensor(rng, s, cplx)), s, "literal"
    if s == (g,):
        return ufl.grad(U.coef("P2", 2)), s, "grad"
    return 2 * U.const(s, 2) + ufl.as_tensor(literal_tensor(rng, s, cplx)), s, "expression"


def family_shape(ctx, i, rng):
    U, cell, gdim, itype, cplx = setup_universe(rng)
    keys = pick_keys(rng, U, rng.choice([1, 2, 3]))
    try:
        e, G = make_expr(rng, U, keys, cplx, ctx.tier, depth=rng.choice([1, 2]), want_scalar=rng.random() < 0.5)
        target = e
        as_form = not e.ufl_shape and not e.ufl_free_indices and rng.random() < 0.35
        if as_form:
            target = e * U.measure(rng.choice([None, 1]))
        # valid pairs plus exactly one or two mismatching pairs, in random order
        Gimg = Gen(U, rng, cplx=cplx, deriv=1, cond=False, math=False, geom=False, restrict=False)
        pairs = []
        bad = rng.sample(keys, k=min(len(keys), rng.choice([1, 1, 2])))
        if rng.random() < 0.25:
            q = new_key(rng, U)
            fresh = {"coef": lambda: U.coef(q.name, 7), "arg": lambda: U.arg(q.name, 5), "const": lambda: U.const(q.shape, 7)}[q.kind]()
            bad = [Key(fresh, q.kind, q.name)]  # a mismatching pair whose key does not even occur
        what = []
        for q in keys + [b for b in bad if b not in keys]:
            if q in bad:
                img, s, kind = mismatching_image(rng, U, q, cplx)
                pairs.append((q.obj, img))
                what.append(f"{q.kind}{q.shape}->{kind}{s}")
            elif rng.random() < 0.6:
                img, kind = make_image(rng, U, Gimg, q, keys, False, cplx)
                pairs.append((q.obj, img))
        rng.shuffle(pairs)
        mapping = dict(pairs)
    except Exception as ex:
        ctx.count("build_rejected")
        ctx.covered("build_rejected_with", type(ex).__name__ + ": " + str(ex)[:60])
        return
    # independent confirmation that the mapping really changes a shape
    if all(tuple(k.ufl_shape) == image_shape(v) for k, v in mapping.items()):
        ctx.count("shape_case_degenerate")
        return
    fn, fname = pick_fn(rng)
    ctx.count("shape_changing_mappings")
    try:
        out = fn(target, mapping)
    except Exception as ex:
        ctx.count("rejected_as_required")
        ctx.covered("shape_rejected_with", type(ex).__name__)
        ctx.covered("shape_kinds_rejected", "|".join(sorted(w.split("(")[0] + "->" + w.split("->")[1].split("(")[0] for w in what)))
        ctx.add_distinct(("shape", tuple(sorted(what)), len(mapping), as_form, any(occurs(target, k) for k in mapping), cell, gdim))
        ctx.sample({"family": "shape", "pairs": what, "n_pairs": len(mapping), "on_form": as_form, "raised": type(ex).__name__ + ": " + str(ex)[:80]}, limit=5)
        return
    ranks = sorted({"same-rank" if len(tuple(k.ufl_shape)) == len(image_shape(v)) else "rank-changing" for k, v in mapping.items() if tuple(k.ufl_shape) != image_shape(v)})
    ctx.violation("C21/shape-changing-accepted/" + "+".join(ranks),
                  f"replace accepted a shape-changing mapping ({what}) and returned {safe_str(out, 200)}",
                  {"input": safe_str(target, 1000), "mapping": describe_mapping(mapping), "pairs": what, "entry": fname,
                   "key_occurs": any(occurs(target, k) for k in mapping)})


def family_identity(ctx, i, rng):
    U, cell, gdim, itype, cplx = setup_universe(rng)
    keys = pick_keys(rng, U, rng.choice([1, 2, 3]))
    try:
        as_form = rng.random() < 0.4
        if as_form:
            base, unis, keys, target = form_pieces(rng, cell, gdim, cplx, lambda UU: pick_keys(rng, UU, 2), rng.choice([1, 2, 3]), ctx.tier)
            U = next(iter(unis.values()))
        else:
            target, G = make_expr(rng, U, keys, cplx, ctx.tier)
        Gimg = Gen(U, rng, cplx=cplx, deriv=1, cond=False, math=False, geom=False, restrict=False)
        Gimg.extra = [q.obj for q in keys]
        mapping = {}
        style = rng.choice(["empty", "absent", "absent", "near-miss", "fresh"])
        kinds = []
        if style != "empty":
            for _ in range(rng.choice([1, 2, 3])):
                q = new_key(rng, U)
                if style == "near-miss" and q.kind == "coef":
                    # same count as an occurring coefficient, other function space (a different coefficient)
                    occ = [o for e in integrands_of(target) for o, _ in occurrences(e) if type(o).__name__ == "Coefficient"]
                    others = [n for n in U.spaces_with_shape(q.shape) if n != q.name]
                    if occ and others:
                        o = rng.choice(occ)
                        names2 = [n for n in U.spaces_with_shape(tuple(o.ufl_shape)) if U.spaces[n] != o.ufl_function_space()]
                        if names2:
                            n2 = rng.choice(names2)
                            fresh = ufl.Coefficient(U.spaces[n2], count=o.count())
                            q2 = Key(fresh, "coef", n2)
                            img, kind = make_image(rng, U, Gimg, q2, keys, False, cplx)
                            mapping[fresh] = img
                            kinds.append("near-miss-" + kind)
                            continue
                if style == "fresh":
                    fresh = {"coef": lambda: ufl.Coefficient(U.spaces[q.name]), "arg": lambda: ufl.Argument(U.spaces[q.name], 7),
                             "const": lambda: ufl.Constant(U.mesh, q.shape)}[q.kind]()
                else:
                    fresh = {"coef": lambda: U.coef(q.name, 7), "arg": lambda: U.arg(q.name, 5), "const": lambda: U.const(q.shape, 7)}[q.kind]()
                q2 = Key(fresh, q.kind, q.name)
                img, kind = make_image(rng, U, Gimg, q2, keys, False, cplx)
                mapping[fresh] = img
                kinds.append(kind)
    except Exception as ex:
        ctx.count("build_rejected")
        ctx.covered("build_rejected_with", type(ex).__name__ + ": " + str(ex)[:60])
        return
    if any(occurs(target, k) for k in mapping):
        ctx.count("identity_case_degenerate")
        return
    fn, fname = pick_fn(rng)
    try:
        out = fn(target, mapping)
    except Exception as ex:
        ctx.count("replace_raised")
        ctx.violation(f"C21/identity/raises/{raise_site(ex)}/{type(ex).__name__}", f"replace with a mapping none of whose keys occurs raised {type(ex).__name__}: {str(ex)[:200]}",
                      {"input": safe_str(target, 1000), "mapping": describe_mapping(mapping)})
        return
    ctx.count("identity_checks")
    try:
        if hasattr(target, "integrals"):
            # map_integrands drops integrals whose integrand is the literal Zero (value neutral): compare the others one by one
            want = [itg for itg in target.integrals() if type(itg.integrand()).__name__ != "Zero"]
            if len(want) != len(target.integrals()):
                ctx.count("identity_input_had_zero_integrals")
            got = list(out.integrals()) if hasattr(out, "integrals") else None
            eq = got is not None and len(got) == len(want) and all(bool(a == b) for a, b in zip(got, want))
            same_canon = got is not None and [canon(a, "abs") for a in got] == [canon(b, "abs") for b in want]
        else:
            eq = bool(out == target)
            same_canon = canon(out, "abs") == canon(target, "abs")
    except Exception as ex:
        ctx.covered("identity_compare_raised", type(ex).__name__ + ": " + str(ex)[:60])
        eq = same_canon = False
    if not (eq and same_canon):
        ctx.violation(f"C21/identity/{'changed-by-near-miss-key' if style == 'near-miss' else 'changed'}/{'form' if as_form else 'expr'}",
                      f"replace with a mapping none of whose keys occurs returned something else (==: {eq}, canon-equal: {same_canon})",
                      {"input": safe_str(target, 1200), "output": safe_str(out, 1200), "mapping": describe_mapping(mapping), "entry": fname})
        return
    ctx.count("identity_held")
    ctx.covered("identity_styles_held", style + (":form" if as_form else ":expr"))
    if not as_form and out is target:
        ctx.count("identity_same_object")
    n_other = sum(1 for e in integrands_of(target) for _ in occurrences(e))
    if n_other and mapping:
        first = integrands_of(target)[0]
        ctx.add_distinct(("identity", style, tuple(sorted(kinds)), as_form, skeleton(first, 2), cell, gdim, itype))
        ctx.sample({"family": "identity", "style": style, "on_form": as_form, "input": safe_str(target, 200), "mapping": describe_mapping(mapping)}, limit=5)


def family_deriv(ctx, i, rng):
    U, cell, gdim, itype, cplx = setup_universe(rng)
    if cplx and rng.random() < 0.6:
        cplx = False
        U.complex_mode = False
    g = gdim
    try:
        uname = rng.choice(U.spaces_with_shape(rng.choice([(), (), (g,)])))
        u = U.coef(uname, 0)
        ukey = Key(u, "coef", uname)
        du = U.arg(uname, 0) if rng.random() < 0.6 else U.coef(uname, 4)
        dukey = Key(du, "arg" if type(du).__name__ == "Argument" else "coef", uname)
        others = pick_keys(rng, U, rng.choice([1, 2]), kinds=("coef", "coef", "const"))
        others = [q for q in others if q.obj is not u and q.obj is not du]
        keys = [ukey] + others
        F, G = make_expr(rng, U, keys, cplx, ctx.tier, deriv=rng.choice([0, 1, 1]), depth=rng.choice([1, 2, 2]), want_scalar=True)
        if not occurs(F, u):
            rs = (lambda x: x(rng.choice("+-"))) if U.interior else (lambda x: x)
            F = F + (rs(u) * rs(u) if not u.ufl_shape else ufl.inner(rs(u), rs(u)))
        cd = None
        if others and rng.random() < 0.2 and others[0].kind == "coef":
            # others[0] depends on u with a given derivative (only value occurrences are differentiable by the chain rule hook)
            gk = others[0]
            cdv = U.coef(rng.choice(U.spaces_with_shape(gk.shape + ukey.shape)), 6) if U.spaces_with_shape(gk.shape + ukey.shape) else None
            if cdv is not None:
                cd = {gk.obj: cdv}
        const_under_grad = None
        if cd is None and rng.random() < 0.15:
            # a cellwise constant key (Constant / DG0 coefficient) under a spatial derivative, to be mapped to a varying image
            ck = Key(U.const((), rng.randrange(2)), "const", ()) if rng.random() < 0.6 else Key(U.coef("DG0", rng.randrange(2)), "coef", "DG0")
            uu = u if not u.ufl_shape else u[rng.randrange(u.ufl_shape[0])]
            rs = (lambda x: x(rng.choice("+-"))) if U.interior else (lambda x: x)
            F = F + rs(ufl.grad(ck.obj * uu)[rng.randrange(g)]) * rs(ck.obj)
            const_under_grad = ck
        as_form = rng.random() < 0.4
        target = F * U.measure(rng.choice([None, 1])) if as_form else F
        dF = ufl.derivative(target, u, du, cd) if cd else ufl.derivative(target, u, du)
        second = rng.random() < 0.2
        if second:
            du2 = U.arg(uname, 1) if rng.random() < 0.6 else U.coef(uname, 5)
            dF = ufl.derivative(dF, u, du2)
        if rng.random() < 0.35:
            # the lazy derivative node below another operator instead of at the integrand root
            dF = rng.choice([2, -1, 0.5]) * dF
            if not as_form and rng.random() < 0.5:
                dF = dF + F
            ctx.count("deriv_nested_below_operator")
        # mapping
        mode = rng.choice(["other", "other", "direction", "variable", "image-has-u", "mixed", "absent"])
        if const_under_grad is not None:
            mode = "cellwise-constant-key"
            ctx.count("deriv_cellwise_constant_key_cases")
        diffvars = [u] + (list(cd) if cd else [])
    except Exception as ex:
        ctx.count("build_rejected")
        ctx.covered("build_rejected_with", type(ex).__name__ + ": " + str(ex)[:60])
        return
    try:
        expanded = expand_derivatives(dF)
    except Exception as ex:
        ctx.count("rejected_by_expand_derivatives")
        ctx.covered("expand_derivatives_raised", type(ex).__name__ + ": " + str(ex)[:60])
        return
    try:
        two_sided = integrands_of(expanded) if U.interior else []
        if mode == "cellwise-constant-key":
            ck = const_under_grad
            a, b = U.coef("P2", 2), U.coef("P1", 3)
            img = rng.choice([a, a * ck.obj + b, ufl.sin(a) + 2, 2 * b - a * a])
            mapping, subst, style, kinds = {ck.obj: img}, {ck.obj: ("expr", img)}, "single", ("varying",)
        elif mode == "absent" or (mode == "other" and not others):
            mode = "absent"
            q = new_key(rng, U)
            fresh = {"coef": lambda: U.coef(q.name, 7), "arg": lambda: U.arg(q.name, 5), "const": lambda: U.const(q.shape, 7)}[q.kind]()
            Gimg = Gen(U, rng, cplx=cplx, deriv=1, cond=False, math=False, geom=False, restrict=False)
            img, kind = make_image(rng, U, Gimg, Key(fresh, q.kind, q.name), [], False, cplx)
            mapping, subst, style, kinds = {fresh: img}, {fresh: ("expr", ufl.as_ufl(img))}, "absent", (kind,)
        elif mode == "image-has-u":
            q = rng.choice(others or [dukey])
            usq = u * u if not u.ufl_shape else ufl.inner(u, u)
            img = q.obj * (1 + usq) if rng.random() < 0.6 else 2 * q.obj - q.obj * ufl.sin(usq)
            mapping, subst, style, kinds = {q.obj: img}, {q.obj: ("expr", img)}, "single", ("has-u",)
            rest = [x for x in others if x is not q]
            if rest and rng.random() < 0.5:
                built = build_mapping(rng, U, rest, expanded, cplx, force_style="multi", two_sided=two_sided)
                if built is not None:
                    mapping.update(built[0])
                    subst.update(built[1])
        else:
            pool = {"other": others, "direction": [dukey], "variable": [ukey], "mixed": [ukey, dukey] + others}[mode]
            forbid = () if mode in ("variable", "mixed") else tuple(diffvars)
            built = build_mapping(rng, U, pool, expanded, cplx, force_style=rng.choice(["single", "multi", "all"]), forbid=forbid, two_sided=two_sided)
            if built is None:
                ctx.count("no_key_in_expression")
                return
            mapping, subst, style, kinds = built
    except Exception as ex:
        ctx.count("build_rejected")
        ctx.covered("build_rejected_with", type(ex).__name__ + ": " + str(ex)[:60])
        return
    touches = any(any(k == x for x in diffvars) for k in mapping) or any(hasattr(v, "ufl_shape") and any(occurs(v, x) for x in diffvars) for v in mapping.values())
    fn, fname = pick_fn(rng)
    try:
        out = fn(dF, mapping)
    except Exception as ex:
        ctx.count("replace_raised")
        ctx.covered("replace_raised_with", type(ex).__name__ + ": " + str(ex)[:70])
        # the derivative can be evaluated (expand_derivatives succeeded): judge through the expanded derivative
        ok = False
        for e2 in integrands_of(expanded):
            ws = make_worlds(ctx, rng, cell, gdim, itype, cplx)
            ok = ok or bool(ws and expectation_defined(e2, subst, ws))
        if ok:
            ctx.violation(f"C21/raises-on-valid-mapping/{raise_site(ex)}/{type(ex).__name__}", f"replace on a derivative() result raised {type(ex).__name__}: {str(ex)[:200]}",
                          {"input": safe_str(dF, 1200), "mapping": describe_mapping(mapping)})
        else:
            ctx.count("rejected_undefined")
        return
    ctx.count("accepted")
    if has_class(out, ["CoefficientDerivative"]):
        ctx.count("deriv_output_still_lazy")
    worlds = make_worlds(ctx, rng, cell, gdim, itype, cplx)
    if worlds is None:
        return
    ins_native, ins_expanded, outs = integrands_of(dF), integrands_of(expanded), integrands_of(out)

    def total(exprs, w, B, sub):
        from ..seval import Result

        tot, flags, mx, rank, fi = None, set(), 0.0, 0, ()
        w.subst = sub
        try:
            for x in exprs:
                r = S(x, w, B)
                tot = r.arr if tot is None else tot + r.arr
                flags |= r.flags
                mx = max(mx, r.maxabs)
                rank, fi = r.rank, r.fi
        finally:
            w.subst = {}
        if tot is None:
            tot = B.zeros(())
        return Result(tot, rank, fi, flags, mx)

    def cmp(ins):
        return [oracle.compare_once(lambda w, B: total(ins, w, B, subst), lambda w, B: total(outs, w, B, {}), w) for w in worlds]

    if touches:
        ctx.count("deriv_diff_first_checks")
        vs = cmp(ins_expanded)
        v = summarise(ctx, vs)
        how = "differentiate-first"
    else:
        ctx.count("deriv_native_checks")
        vs = cmp(ins_native)
        v = summarise(ctx, vs)
        how = "native"
        if v == "violated":
            # is it replace or expand_derivatives that disagrees with the definition?
            v2 = oracle.decide(cmp(ins_expanded))
            if v2 == "held":
                # replace did substitute correctly in the expanded derivative.  Is the expansion right for the input as it stands?
                v3 = oracle.decide([oracle.compare_once(lambda w, B: total(ins_native, w, B, {}), lambda w, B: total(ins_expanded, w, B, {}), w) for w in worlds])
                if v3 != "held":
                    ctx.count("deriv_expand_derivatives_suspect")
                    ctx.notes.append(f"native S and expand_derivatives disagree (not judged here): case {i}, input {safe_str(dF, 300)}")
                    ctx.covered("expand_derivatives_suspect", skeleton(ins_native[0], 2))
                    ctx.count("case_skipped")
                    return
                # the expansion is right for the input but not invariant under the substitution: it used a property of a key
                # (e.g. grad(Constant) = 0) that the image does not have
                bad = next(x for x in vs if x.kind in ("disagree", "output-ambiguous"))
                kcls = "+".join(sorted({type(k).__name__ for k in mapping if occurs(dF, k)}))
                ctx.count("case_violated")
                ctx.violation(f"C21/derivative-expanded-before-substitution/{kcls}-key",
                              "replace on a derivative() result expands ALL derivatives before substituting: the result equals the expanded derivative "
                              "with the keys replaced, but not the derivative's value with the keys' fields overridden (a spatial derivative of a key was "
                              f"simplified with a property the image does not have); {bad.kind}, rel. err {bad.err}, {bad.why}",
                              {"input": safe_str(dF, 1500), "expanded": safe_str(expanded, 1200), "output": safe_str(out, 1500), "mapping": describe_mapping(mapping),
                               "mode": mode, "entry": fname})
                return
    ctx.count("case_" + v)
    if v == "violated":
        bad = next(x for x in vs if x.kind in ("disagree", "output-ambiguous"))
        culprit = None
        for x in ins_expanded:
            culprit = localise(x, mapping, subst, worlds, fn)
            if culprit is not None:
                break
        joint = culprit is not None and any(joint_only(x, mapping, subst, worlds, fn) for x in ins_expanded)
        ctx.violation("C21/value-differs/" + ("pairs-interact" if joint else culprit_key(culprit)) if culprit is not None else f"C21/deriv/value-differs/{how}",
                      f"replace on a derivative() result differs from the {how} expectation ({bad.kind}, rel. err {bad.err}, {bad.why})",
                      {"input": safe_str(dF, 1500), "output": safe_str(out, 1500), "mapping": describe_mapping(mapping), "mode": mode,
                       "culprit": safe_str(culprit, 500) if culprit is not None else None, "entry": fname})
        return
    if v == "held":
        ctx.count("deriv_held")
        ctx.covered("families_held", "deriv")
        ctx.covered("deriv_modes_held", mode + ":" + how)
        ctx.covered("itypes_held", itype)
        eff = any(is_effective(x, subst, worlds[0]) for x in ins_expanded)
        if eff:
            ctx.count("effective")
            ctx.add_distinct(("deriv", mode, how, second, bool(cd), as_form, kinds, skeleton(integrands_of(target)[0], 2), cell, gdim, itype))
            ctx.sample({"family": "deriv", "mode": mode, "oracle": how, "second": second, "on_form": as_form, "input": safe_str(dF, 220),
                        "mapping": describe_mapping(mapping)})


def family_nonterminal(ctx, i, rng):
    U, cell, gdim, itype, cplx = setup_universe(rng, itype=rng.choice(["cell", "cell", "exterior_facet", "interior_facet"]))
    g = gdim
    try:
        f2 = U.coef(rng.choice(["P2", "P1", "DG1", "P3"]), 5)
        g2 = U.coef(rng.choice(["P2", "P1", "DG1"]), 6)
        vname = rng.choice(U.spaces_with_shape((g,)))
        v2 = U.coef(vname, 5)
        kkind = rng.choice(["grad", "grad", "product", "sum", "math", "indexed", "variable", "gradvec", "div", "conditional", "division"])
        deriv = rng.choice([0, 1, 1])
        if kkind == "grad":
            K, deriv = ufl.grad(f2), 0
        elif kkind == "gradvec":
            K, deriv = ufl.grad(v2), 0
        elif kkind == "div":
            K, deriv = ufl.div(v2), 0
        elif kkind == "product":
            K = f2 * g2
        elif kkind == "sum":
            K = 2 * f2 + 1.25
        elif kkind == "math":
            K = ufl.sin(f2) * 1.25 + f2
        elif kkind == "indexed":
            K = v2[rng.randrange(g)] * 1.75
        elif kkind == "variable":
            K = ufl.variable(f2 * g2 + 1)
        elif kkind == "conditional":
            K = ufl.conditional(ufl.lt(ufl.real(f2) if cplx else f2, 0.3), f2, g2)
        else:
            K = f2 / (3.25 + g2 * g2)
        ksh = tuple(K.ufl_shape)
        pnames = U.spaces_with_shape(ksh)
        if not pnames:
            ctx.count("build_rejected")
            return
        pname = rng.choice(pnames)
        p = U.coef(pname, 8)
        pkey = Key(p, "coef", pname)
        inner_keys = [Key(f2, "coef", "P2"), Key(v2, "coef", vname)]
        others = pick_keys(rng, U, rng.choice([0, 1, 2]), kinds=("coef", "coef", "const", "arg"))
        e_p, G = make_expr(rng, U, [pkey] + inner_keys + others, cplx, ctx.tier, deriv=deriv, hostile=False)
        if not occurs(e_p, p):
            rs = (lambda x: x(rng.choice("+-"))) if U.interior else (lambda x: x)
            extra = rs(p) * rs(p) if not ksh else ufl.inner(rs(p), rs(p))
            e_p = e_p + extra if not e_p.ufl_shape and not e_p.ufl_free_indices else e_p * (1 + extra)
        Gimg = Gen(U, rng, cplx=cplx, deriv=1, cond=False, math=True, geom=False, restrict=False)
        Gimg.extra = [f2, g2]
        Gimg.extra_prob = 0.3
        if U.interior and occurs_unrestricted(e_p, p):
            ctx.count("build_rejected")
            return
        Gexpr = Gimg.expr(ksh, rng.choice([0, 1, 2]))
        extra_map = build_mapping(rng, U, others, e_p, cplx, force_style=rng.choice(["single", "multi"])) if others and rng.random() < 0.5 else None
    except Exception as ex:
        ctx.count("build_rejected")
        ctx.covered("build_rejected_with", type(ex).__name__ + ": " + str(ex)[:60])
        return
    worlds = make_worlds(ctx, rng, cell, gdim, itype, cplx)
    if worlds is None:
        return
    fn, fname = pick_fn(rng)
    # stage 1: terminal key p -> K (an ordinary replace, checked like any other)
    sub1 = {p: ("expr", K)}
    ok, e_K = run_replace(ctx, "nonterminal-stage1", fn, e_p, {p: K}, sub1, worlds)
    if not ok:
        return
    v1 = summarise(ctx, compare_values(e_p, e_K, sub1, worlds))
    if v1 == "violated":
        culprit = localise(e_p, {p: K}, sub1, worlds, fn) or e_p
        ctx.count("case_violated")
        ctx.violation(f"C21/value-differs/{culprit_key(culprit)}", "replace output differs from the input under the field override (placeholder -> subexpression)",
                      {"input": safe_str(e_p, 1500), "output": safe_str(e_K, 1500), "mapping": describe_mapping({p: K})})
        return
    if v1 != "held":
        ctx.count("nonterminal_stage1_undecided")
        return
    ctx.count("case_held")
    # stage 2: non-terminal key K -> G
    mapping = {K: Gexpr}
    subst = {p: ("expr", Gexpr)}
    style = "K-only"
    if extra_map is not None:
        m2, s2, style2, _ = extra_map
        # other keys must not occur inside K (no overlapping keys)
        if not any(occurs(K, k) for k in m2):
            mapping.update(m2)
            subst.update(s2)
            style = "K+" + style2
    ctx.count("nonterminal_attempts")
    try:
        out = fn(e_K, mapping)
    except Exception as ex:
        ctx.count("replace_raised")
        ctx.covered("replace_raised_with", type(ex).__name__ + ": " + str(ex)[:70])
        if expectation_defined(e_p, subst, worlds):
            ctx.violation(f"C21/raises-on-valid-mapping/{raise_site(ex)}/{type(ex).__name__}", f"replace with a non-terminal key raised {type(ex).__name__}: {str(ex)[:200]}",
                          {"input": safe_str(e_K, 1200), "mapping": describe_mapping(mapping)})
        else:
            ctx.count("rejected_undefined")
        return
    if not check_structure(ctx, "nonterminal", e_K, out):
        return
    vs = compare_values(e_p, out, subst, worlds)
    v = summarise(ctx, vs)
    if v == "violated":
        bad = next(x for x in vs if x.kind in ("disagree", "output-ambiguous"))
        left = still_contains(out, K) and not still_contains(Gexpr, K)
        ctx.count("case_violated")
        ctx.violation("C21/nonterminal-key/" + ("key-left-in-place" if left else "value-differs"),
                      f"replace(e, {{K: G}}) with K = {safe_str(K, 80)} does not equal e with every K replaced by G ({bad.kind}, rel. err {bad.err}, {bad.why})",
                      {"input": safe_str(e_K, 1500), "output": safe_str(out, 1500), "mapping": describe_mapping(mapping), "placeholder_form": safe_str(e_p, 800), "entry": fname})
        return
    if v == "held":
        ctx.count("nonterminal_held")
        ctx.covered("families_held", "nonterminal")
        ctx.covered("nonterminal_key_classes_held", type(K).__name__)
        ctx.covered("itypes_held", itype)
        if is_effective(e_p, subst, worlds[0]) or is_effective(e_p, sub1, worlds[0]):
            ctx.count("effective")
            ctx.add_distinct(("nonterminal", kkind, style, skeleton(e_p, 2), cell, gdim, itype))
            ctx.sample({"family": "nonterminal", "key": safe_str(K, 100), "image": safe_str(Gexpr, 150), "style": style, "input": safe_str(e_K, 220)})
    else:
        ctx.count("nonterminal_undecided")


def literal_sweep(ctx):
    """Deterministic part: every scalar operator applied to a coefficient, the coefficient replaced by literals (int, float, zero,
    complex): the re-constructed operator folds constants, and the folded value must be the operator's value at the literal."""
    import random

    for cplx in (False, True):
        rng = random.Random(f"C21/literal-sweep/{cplx}")
        U = Universe(rng, "triangle", 2, "cell", cplx)
        f, g = U.coef("P2", 0), U.coef("P2", 1)
        v = ufl.as_vector([f, g])
        both = {
            "sin": ufl.sin(f), "cos": ufl.cos(f), "exp": ufl.exp(f), "tan": ufl.tan(f), "sinh": ufl.sinh(f), "cosh": ufl.cosh(f),
            "tanh": ufl.tanh(f), "atan": ufl.atan(f), "erf": ufl.erf(f), "abs": abs(f), "conj": ufl.conj(f), "real": ufl.real(f),
            "imag": ufl.imag(f), "pow2": f**2, "pow3": f**3, "exp2": 2**f, "product": f * g, "sum": f + g, "div-num": f / (3 + g * g),
            "sqrt": ufl.sqrt(3 + f), "ln": ufl.ln(3 + f), "dx": f.dx(0) + g, "grad": ufl.grad(f)[1] + g, "list": v[0] * v[1],
            "inner": ufl.inner(v, ufl.as_vector([g, f])), "dot": ufl.dot(v, v), "outer": ufl.outer(v, v)[0, 1], "neg": -f,
            "variable": ufl.diff(ufl.variable(f) ** 2, ufl.variable(f)) + ufl.variable(f),
        }
        real_only = {
            "sign": ufl.sign(f), "max": ufl.max_value(f, g), "min": ufl.min_value(f, g), "conditional": ufl.conditional(ufl.lt(f, 0.3), f, g),
            "div-den": g / (3 + f * f), "asin": ufl.asin(0.25 * ufl.tanh(f)), "acos": ufl.acos(0.25 * ufl.tanh(f)),
            "atan2": ufl.atan2(f, 3 + g * g), "bessel_J": ufl.bessel_J(1, 3 + f * f), "bessel_Y": ufl.bessel_Y(0, 3 + f * f),
            "bessel_I": ufl.bessel_I(1, 3 + f * f), "bessel_K": ufl.bessel_K(0, 3 + f * f),
        }
        exprs = dict(both)
        lits = [2, 0.5, -0.25, 0, 0.0, 1]
        if cplx:
            lits += [2 - 1j, 0.5 + 0.5j, 1j]
        else:
            exprs.update(real_only)
        worlds = [World(rng, "triangle", 2, "cell", cplx) for _ in range(2)]
        for name, e in exprs.items():
            for lit in lits:
                ctx.count("literal_sweep")
                mapping = {f: lit}
                subst = {f: ("expr", ufl.as_ufl(lit))}
                ok, out = run_replace(ctx, "literal", ufl.replace, e, mapping, subst, worlds)
                if not ok:
                    continue
                vs = compare_values(e, out, subst, worlds)
                vd = summarise(ctx, vs)
                if vd == "violated":
                    ctx.violation(f"C21/value-differs/literal-image/{type(e).__name__}",
                                  f"replace({safe_str(e, 80)}, {{f: {lit!r}}}) = {safe_str(out, 80)} differs from the operator's value at the literal",
                                  {"input": safe_str(e, 300), "output": safe_str(out, 300), "literal": repr(lit), "complex_mode": cplx})
                elif vd == "held":
                    ctx.count("literal_sweep_held")
                    ctx.covered("literal_sweep_ops_held", name)
                else:
                    ctx.count("literal_sweep_undecided")
                    ctx.covered("literal_sweep_undecided", f"{name}@{lit!r}")


def once(ctx):
    if ctx.sub == 0:
        # violations of the deterministic part carry case index -1, which replays exactly this part
        ctx.case_index = -1
        try:
            literal_sweep(ctx)
        finally:
            ctx.case_index = None


def family_formsum(ctx, i, rng):
    """replace() on a weighted sum of cofunctions (a FormSum, e.g. a residual 2*c1 + 5*c2 - 7*c3): the value of the sum is
    sum_i weight_i * value(component_i); cofunctions are mapped to other cofunctions or to the zero form.  Oracle: numbers
    for the cofunctions."""
    from ufl.form import FormSum, ZeroBaseForm

    from .. import elements as E

    cell, gdim = rng.choice([("interval", 1), ("triangle", 2), ("tetrahedron", 3)])
    mesh = E.mesh_for(cell, gdim)
    V = ufl.FunctionSpace(mesh, E.P(cell, rng.choice([1, 2])))
    k = rng.choice([2, 3, 3, 4])
    cs = [ufl.Cofunction(V.dual()) for _ in range(k + 2)]
    weights = rng.sample([2, 3, 5, -7, 11, 0.5, -1, 13], k)
    F = None
    for c_, w_ in zip(cs[:k], weights):
        F = w_ * c_ if F is None else F + w_ * c_
    numbers = {c_: float(10 ** q) for q, c_ in enumerate(cs)}
    zero = ZeroBaseForm((ufl.TestFunction(V),))
    mapping = {}
    for c_ in rng.sample(cs[:k], rng.choice([1, 1, 2])):
        mapping[c_] = zero if rng.random() < 0.6 else rng.choice(cs[k:])

    def value(G, nums):
        if isinstance(G, ZeroBaseForm):
            return 0.0
        if isinstance(G, ufl.Cofunction):
            return nums[G]
        if isinstance(G, FormSum):
            return sum(complex(w_) * value(c_, nums) for c_, w_ in zip(G.components(), G.weights()))
        raise TypeError(type(G).__name__)

    sub = dict(numbers)
    for kk, img in mapping.items():
        sub[kk] = value(img, numbers)
    expected = value(F, sub)
    try:
        R = rng.choice([replace_alg, ufl.replace])(F, mapping)
        observed = value(R, numbers)
    except Exception as ex:
        ctx.count("formsum_rejected")
        ctx.covered("formsum_rejected_with", type(ex).__name__ + ": " + str(ex)[:60])
        return
    ctx.count("formsum_checked")
    if abs(observed - expected) > 1e-9 * max(1.0, abs(expected)):
        pattern = "earlier-component-vanishes" if any(isinstance(mapping.get(c_), ZeroBaseForm) for c_ in cs[: k - 1]) else "renaming"
        ctx.violation(f"C21/formsum/value/{pattern}",
                      f"replace on the weighted sum {F} with {len(mapping)} mapped cofunction(s): value {observed}, expected {expected}",
                      {"sum": str(F)[:400], "weights": [repr(w_) for w_ in weights], "mapping": {str(a): str(b)[:60] for a, b in mapping.items()}, "result": str(R)[:400]})
        return
    ctx.count("formsum_held")


DISPATCH = {"expr": family_expr, "form": family_form, "shape": family_shape, "identity": family_identity, "deriv": family_deriv, "nonterminal": family_nonterminal}


def case(ctx, i, rng):
    if i < 0:
        return literal_sweep(ctx)
    if rng.random() < 0.04:
        ctx.count("family_formsum")
        return family_formsum(ctx, i, rng)
    fam = rng.choice(FAMILIES)
    ctx.count("family_" + fam)
    DISPATCH[fam](ctx, i, rng)


# ---- additional workload (thorough tier): every replace() call the repository's own tests make, judged by the same
# value oracle (input evaluated with the mapped terminals overridden by their images; vf/suitemon.py)
EXTRA_JOBS = {"thorough": ["suite"]}


def extra_suite(ctx):
    from ..suite_driver import run_suite

    run_suite(ctx, ["replace"], "C21")
