"""C15 - integral grouping preserves what is integrated on each subdomain.

Events: group_form_integrals(form, domains, do_append_everywhere_integrals) -> Form,
attach_estimated_degrees(form) -> Form and build_integral_data(integrals) -> [IntegralData], called
directly on generated forms and (for a fraction of the cases) tapped inside the real
compute_form_data.  The generated forms have 2-7 integrals of up to three integral types over ids
int / tuple / everywhere (the same id alone and inside tuples, tuple ids reaching the grouping as
tuples), re-used / negated / scaled integrands, two meshes in one form, CoordinateDerivative-wrapped
integrands (single and nested, both nesting orders) and metadata drawn from families of variants
that are equal, equal-but-distinct objects, key-order permutations, or differ in one entry of a
2000-entry array, beyond the 8th significant digit, in type (1 / '1' / 1.0 / True / None), in
nesting, or in the presence of quadrature_degree.

Oracle (group_form_integrals): for every (domain, integral type, single subdomain id k incl.
'otherwise', canonical metadata M, coordinate-derivative chain C)
      sum of S(integrand) over the OUTPUT integrals with (type, k in id tuple, M, C)
   == sum of S(integrand) over the INPUT integrals with (M, C) that apply to k
evaluated by the reference interpreter in the same worlds; M is a full-fidelity canonical form of
the metadata written here (independent of ufl.utils.sorting.canonicalize_metadata); keys only on one
side count with the other side 0, so nothing may be lost, appear from nowhere, or move to an
integral with other metadata; at most one output integral may serve a key.
Oracle (attach_estimated_degrees): same integrals in the same order, only the metadata entry
'estimated_polynomial_degree' added.  Oracle (build_integral_data): the IntegralData objects
partition the given integrals by (domain, type, id tuple): nothing lost, duplicated, misfiled or
split over two IntegralData with the same key.
"""

import copy
import hashlib
import importlib
import os
import warnings

import numpy as np
import ufl
from ufl.algorithms.apply_algebra_lowering import apply_algebra_lowering
from ufl.algorithms.domain_analysis import build_integral_data, group_form_integrals
from ufl.classes import Form, Integral

from .. import oracle
from ..canon import canon, canon_value
from ..passcheck import count_verdicts, safe_str, skeleton
from ..seval import Result, S
from ..world import World
from .C01 import CELLS, gen_form

CFD = importlib.import_module("ufl.algorithms.compute_form_data")  # the module (ufl.algorithms re-exports the function under the same name)

LEVEL = "exploration"
ENGINE = "seval"
TECHNIQUE = (
    "differential runtime monitoring of group_form_integrals / attach_estimated_degrees / build_integral_data: per "
    "(domain, type, subdomain id, canonical metadata, coordinate-derivative chain) sums of integrand values before/after "
    "in one concrete world, plus an exact partition check of the IntegralData buckets"
)
LEVEL_TEXT = (
    "The real grouping functions are run on generated forms (directly and tapped inside compute_form_data) whose integrals "
    "overlap in subdomain ids and carry metadata that are equal, permuted, or differ in one array entry / beyond 8 digits / "
    "in type / in nesting; for every (domain, integral type, single subdomain id, full-fidelity canonical metadata, "
    "coordinate-derivative chain) the sum of the output integrands is compared with the sum of the input integrands that "
    "apply there by an independent interpreter at random points of random cells (50-digit confirmation), and the "
    "IntegralData buckets are checked to be an exact partition.  A fixed list of metadata probe pairs forms the first "
    "cases of every run.  Exploration over generated cases."
)
LEVEL_NOTE = (
    "trusted: vf/seval.py, vf/world.py, the metadata canonical form in this module; single-cell-type meshes, affine simplex "
    "cells, at most two meshes, no MeshSequence / intersect measures / subdomain_data"
)
RULE = (
    "cases 0-35 = fixed metadata probe pairs (both append options); case i >= 36 = (metadata family, subdomain-id pattern, append option, integral types, integrand pool from the seeded generator, "
    "direct call or compute_form_data tap, coordinate derivatives, one or two meshes); distinct = (family, id pattern, append, "
    "types, mode, coordinate-derivative chains, skeleton depth 2 of the first integrand); non-trivial = grouping accepted the "
    "form, every compared group was decided and at least one group has a non-zero reference value"
)
ASSUMPTIONS = [
    "'everywhere' integrals contribute to every numbered subdomain of the same (domain, integral type) iff "
    "do_append_everywhere_integrals, and always to 'otherwise'; a tuple id applies to each of its (distinct) members",
    "metadata are the same iff they are equal as nested data with exact numbers: dict key order is irrelevant, list and tuple "
    "are the same sequence (documented in canonicalize_metadata), bool / int / float / str / None are different types, floats "
    "are compared bit by bit (numpy floating scalars by their exact value), arrays by dtype, shape and bytes",
    "iterated coordinate derivatives with respect to the same coordinate field commute (mixed second derivative of the shape "
    "functional), so chains are compared as multisets; distinct chains are independent linear operators, so integrands are "
    "summed per chain",
    "grouping may raise on a form (counted as rejected); the metadata entry estimated_polynomial_degree added by "
    "attach_estimated_degrees is ignored when metadata are compared",
]
BUDGET = {"quick": 45, "thorough": 420}
NCASES = {"quick": 3000, "thorough": 36000}
CASE_TIMEOUT = 40.0
EVAL_COUNTER = "cases"
# about 35% of what a complete run on a quiet machine observes
FLOORS = {
    "quick": {"case_held": 950, "groups_compared": 5500, "groups_nonzero": 5300, "merges_observed": 1100,
              "slices_with_distinct_metadata": 1250, "cd_groups_compared": 900, "build_events": 1000, "attach_events": 450,
              "tuple_id_inputs": 1050, "everywhere_appended_groups": 1400, "probe_pairs": 60},
    "thorough": {"case_held": 11700, "groups_compared": 69000, "groups_nonzero": 66000, "merges_observed": 13600,
                 "slices_with_distinct_metadata": 15000, "cd_groups_compared": 11200, "build_events": 12000, "attach_events": 5500,
                 "tuple_id_inputs": 13200, "everywhere_appended_groups": 17500, "probe_pairs": 60},
}
KEPT_APART_NEEDED = ["ndarray-one-entry", "float-beyond-8-digits", "type-int-vs-str", "type-float-vs-int", "type-bool-vs-int",
                     "keys", "seq-nesting", "value-int", "value-str"]
COVER_FLOORS = {
    "quick": {"kept_apart": KEPT_APART_NEEDED, "modes_held": ["direct", "pipeline"], "itypes_held": ["cell", "exterior_facet", "interior_facet"]},
    "thorough": {"kept_apart": KEPT_APART_NEEDED, "modes_held": ["direct", "pipeline"], "itypes_held": ["cell", "exterior_facet", "interior_facet"]},
}
EDK = "estimated_polynomial_degree"


# ------------------------------------------------------------------------- metadata: canonical form
def mcanon(v):
    """Full-fidelity canonical form of metadata (see ASSUMPTIONS); independent of canonicalize_metadata."""
    if isinstance(v, (bool, np.bool_)):
        return ("bool", bool(v))
    if v is None:
        return ("none",)
    if isinstance(v, (int, np.integer)):
        return ("int", int(v))
    if isinstance(v, (float, np.floating)):
        return ("float", float(v).hex())
    if isinstance(v, str):
        return ("str", v)
    if isinstance(v, np.ndarray):
        c = canon_value(v)
        if c[0] == "ndarray":
            return ("ndarray", c[1], c[2], hashlib.sha1(c[3].encode()).hexdigest())
        return c
    if isinstance(v, dict):
        return ("dict", tuple(sorted(((canon_value(k), mcanon(x)) for k, x in v.items()), key=repr)))
    if isinstance(v, (list, tuple)):
        return ("seq", tuple(mcanon(x) for x in v))
    return canon_value(v)


def md_canon(md, drop_degree=False):
    md = dict(md or {})
    if drop_degree:
        md.pop(EDK, None)
    return mcanon(md)


def _tname(v):
    if isinstance(v, (bool, np.bool_)):
        return "bool"
    if v is None:
        return "none"
    if isinstance(v, np.floating) and not isinstance(v, float):
        return "np" + type(v).__name__
    if isinstance(v, np.integer):
        return "np" + type(v).__name__
    if isinstance(v, int):
        return "int"
    if isinstance(v, float):
        return "float"
    if isinstance(v, str):
        return "str"
    if isinstance(v, np.ndarray):
        return "ndarray"
    if isinstance(v, dict):
        return "dict"
    if isinstance(v, (list, tuple)):
        return "seq"
    return type(v).__name__


def _flat(v):
    if isinstance(v, (list, tuple)):
        out = []
        for x in v:
            out.extend(_flat(x))
        return out
    return [mcanon(v)]


def diffkind(a, b):
    """Name of the first difference between two metadata values (stable text for mechanism keys)."""
    if mcanon(a) == mcanon(b):
        return "same"
    ta, tb = _tname(a), _tname(b)
    if ta != tb:
        if {ta, tb} == {"dict", "seq"}:
            if len(a) == 0 and len(b) == 0:
                return "empty-dict-vs-empty-seq"
            return "dict-vs-seq"
        return "type-" + "-vs-".join(sorted([ta, tb]))
    if ta == "dict":
        if set(a) != set(b):
            return "keys"
        for k in sorted(a, key=repr):
            d = diffkind(a[k], b[k])
            if d != "same":
                return d
        return "dict"
    if ta == "seq":
        if len(a) != len(b):
            return "seq-nesting" if _flat(a) == _flat(b) else "seq-length"
        ds = [diffkind(x, y) for x, y in zip(a, b)]
        ds = [d for d in ds if d != "same"]
        if _flat(a) == _flat(b):
            return "seq-nesting"
        return ds[0]
    if ta == "ndarray":
        if a.dtype != b.dtype:
            return "ndarray-dtype"
        if a.shape != b.shape:
            return "ndarray-shape"
        ba = np.ascontiguousarray(a).ravel().view(np.uint8).reshape(a.size, -1)
        bb = np.ascontiguousarray(b).ravel().view(np.uint8).reshape(b.size, -1)
        ne = int(np.sum(np.any(ba != bb, axis=1)))
        return "ndarray-one-entry" if ne == 1 else "ndarray-entries"
    if ta == "float":
        if a == b:
            return "float-signed-zero"
        if a != a or b != b:
            return "float-nan"
        if abs(a - b) <= 1e-8 * max(abs(a), abs(b)):
            return "float-beyond-8-digits"
        return "value-float"
    return "value-" + ta


def md_text(md, n=160):
    def r(v):
        if isinstance(v, np.ndarray):
            return f"ndarray({v.dtype},{v.shape},sha1={hashlib.sha1(np.ascontiguousarray(v).tobytes()).hexdigest()[:8]})"
        if isinstance(v, dict):
            return "{" + ", ".join(f"{k!r}: {r(x)}" for k, x in v.items()) + "}"
        if isinstance(v, list):
            return "[" + ", ".join(r(x) for x in v) + "]"
        if isinstance(v, tuple):
            return "(" + ", ".join(r(x) for x in v) + ("," if len(v) == 1 else "") + ")"
        return repr(v)

    return r(md)[:n]


# ------------------------------------------------------------------------- metadata: workload
def _arr(rng, n):
    return np.array([rng.random() for _ in range(n)], dtype=float)


def _poke(rng, a, how):
    b = a.copy()
    j = rng.choice([0, len(b) // 2, len(b) - 1, rng.randrange(len(b))])
    if how == "ulp":
        b[j] = np.nextafter(b[j], 2.0)
    elif how == "digit9":
        b[j] = b[j] * (1 + 3e-11) + 1e-13
    else:
        b[j] = b[j] + 0.25
    return b


def fam_same(rng):
    base = rng.choice([{"quadrature_degree": 2, "rule": "default"}, {"a": 1, "b": [1, 2.5, "x"], "c": {"d": None, "e": True}},
                       {"quadrature_rule": "custom", "quadrature_points": _arr(rng, 12).reshape(6, 2), "quadrature_weights": _arr(rng, 6)}])
    other = rng.choice([{"quadrature_degree": 3, "rule": "default"}, {}])
    return [base, copy.deepcopy(base), dict(reversed(list(base.items()))), other]


def fam_long_array(rng):
    n = 2000
    pts, wts = _arr(rng, n), _arr(rng, n)
    base = {"quadrature_rule": "custom", "quadrature_points": pts, "quadrature_weights": wts}
    how = rng.choice(["ulp", "digit9", "big"])
    which = rng.choice(["quadrature_points", "quadrature_weights"])
    v1 = dict(base)
    v1[which] = _poke(rng, base[which], how)
    out = [base, v1, {"quadrature_weights": wts.copy(), "quadrature_rule": "custom", "quadrature_points": pts.copy()}]
    if rng.random() < 0.4:
        v2 = dict(base)
        v2[which] = _poke(rng, base[which], rng.choice(["ulp", "big"]))
        out.append(v2)
    if rng.random() < 0.3:
        v3 = dict(base)
        v3["quadrature_points"] = pts[:-1].copy()
        out.append(v3)
    return out


def fam_short_array(rng):
    a = np.array([rng.randrange(1, 5) for _ in range(4)], dtype=np.int64)
    cands = [a, a.astype(np.int32), a.astype(float), a.reshape(2, 2), a.copy(), np.concatenate([a, a])[::2][:4] * 0 + a, _poke(rng, a.astype(float), "ulp")]
    pick = [cands[0]] + rng.sample(cands[1:], 2)
    return [{"pts": p, "quadrature_degree": 2} for p in pick]


def fam_precision(rng):
    x = rng.choice([0.1, 1.0 / 3.0, 2.5, 1e-3, 123456.789, rng.random()])
    ys = [x * (1 + 1e-12), float(np.nextafter(x, 10 * x + 1)), x * (1 + 2e-9), x * (1 + 1e-15) if x * (1 + 1e-15) != x else float(np.nextafter(x, -1.0))]
    key = rng.choice(["tol", "scale", "quadrature_degree"])
    out = [{key: x, "rule": "default"}] + [{key: y, "rule": "default"} for y in rng.sample(ys, 2)]
    if rng.random() < 0.3:
        out.append({key: [1, x], "rule": "default"})
        out.append({key: [1, ys[0]], "rule": "default"})
        out = out[-3:]
    return out


def fam_type(rng):
    pool = rng.choice([[1, "1", 1.0, True], [0, "0", 0.0, False], [None, "None", 0], [2, "2", 2.0], [1, True, "True"], [0.0, -0.0, 0]])
    key = rng.choice(["level", "quadrature_degree", "opt"])
    vals = rng.sample(pool, min(len(pool), rng.choice([2, 3, 4])))
    if rng.random() < 0.3:
        return [{key: {"n": v}, "z": "s"} for v in vals]
    return [{key: v} for v in vals]


def fam_nested(rng):
    kind = rng.choice(["deep-value", "list-structure", "keys", "list-vs-tuple", "order"])
    if kind == "deep-value":
        a = {"opts": {"a": [1, 2, {"b": 3, "c": [4, 5]}], "s": "t"}, "quadrature_degree": 2}
        b = copy.deepcopy(a)
        b["opts"]["a"][2]["c"][1] = rng.choice([6, "5", 5.0])
        c = copy.deepcopy(a)
        c["opts"]["s"] = "u"
        return [a, b, c, copy.deepcopy(a)]
    if kind == "list-structure":
        return [{"p": [[1, 2], 3]}, {"p": [[1], [2, 3]]}, {"p": [1, 2, 3]}, {"p": [1, [2, 3]]}][: rng.choice([3, 4])]
    if kind == "keys":
        return [{"a": 1, "b": 2}, {"a": 1}, {"a": 1, "c": 2}, {"b": 2, "a": 1}]
    if kind == "list-vs-tuple":
        return [{"p": [1, 2, "x"], "q": {"r": (3, 4)}}, {"p": (1, 2, "x"), "q": {"r": [3, 4]}}, {"p": [1, 2, "y"], "q": {"r": (3, 4)}}]
    a = {"x": {"k1": 1, "k2": [1, 2]}, "y": 2.5, "z": "s"}
    b = {"z": "s", "y": 2.5, "x": {"k2": [1, 2], "k1": 1}}
    c = {"z": "s", "y": 2.5, "x": {"k2": [2, 1], "k1": 1}}
    return [a, b, c]


def fam_degree(rng):
    out = [None, {"quadrature_degree": 2}, {"quadrature_degree": 3}, {}, {"quadrature_degree": 2, "quadrature_rule": "vertex"}]
    return rng.sample(out, 3)


def fam_container_collisions(rng):
    """Different containers whose naive flattening coincides."""
    kind = rng.choice(["empty", "pairs", "npfloat"])
    if kind == "empty":
        return rng.sample([{"o": {}}, {"o": []}, {"o": None}, {"o": [[]]}], 3)
    if kind == "pairs":
        return [{"o": {"1": 2}}, {"o": [[1, 2]]}, {"o": {"1": 3}}]
    return [{"w": 0.1}, {"w": np.float32(0.1)}, {"w": 0.2}]


FAMILIES = [
    ("same", fam_same, 2), ("long-array", fam_long_array, 3), ("short-array", fam_short_array, 2), ("precision", fam_precision, 3),
    ("type", fam_type, 3), ("nested", fam_nested, 3), ("degree", fam_degree, 3), ("containers", fam_container_collisions, 1),
]


def choose_family(rng):
    tot = sum(w for _, _, w in FAMILIES)
    r = rng.random() * tot
    for name, fn, w in FAMILIES:
        r -= w
        if r < 0:
            return name, fn
    return FAMILIES[0][:2]


def md_variant_object(rng, md):
    """The metadata object handed to one integral: the variant itself, an equal copy or a key-order permutation."""
    if md is None:
        return None, "none"
    r = rng.random()
    if r < 0.45:
        return md, "shared"
    if r < 0.75:
        return copy.deepcopy(md), "copy"
    items = list(md.items())
    rng.shuffle(items)
    return dict(items), "permuted"


# ------------------------------------------------------------------------- structure of integrals
def strip_cd(e):
    """(inner integrand, chain canon) - written here, independent of coordinate_derivative_helpers."""
    chain = []
    while type(e).__name__ == "CoordinateDerivative":
        ops = e.ufl_operands
        chain.append(tuple(canon(o, "abs") for o in ops[1:]))
        e = ops[0]
    return e, tuple(sorted(chain, key=repr))


def dom_key(d):
    return d.ufl_id() if hasattr(d, "ufl_id") else repr(d)


def applies_to(sid, numbered, append):
    """Single subdomain keys an input integral with subdomain id `sid` contributes to."""
    if isinstance(sid, str):
        if sid != "everywhere":
            return None
        ks = ["otherwise"]
        if append:
            ks += sorted(numbered)
        return ks
    if isinstance(sid, tuple):
        return list(dict.fromkeys(sid))
    return [sid]


def input_groups(integrals, append):
    """groups[(dom, itype, k, M, chain)] = [inner integrands]; also raw metadata per M and bookkeeping."""
    numbered = {}
    for itg in integrals:
        sid = itg.subdomain_id()
        key = (dom_key(itg.ufl_domain()), itg.integral_type())
        s = numbered.setdefault(key, set())
        if isinstance(sid, tuple):
            s.update(sid)
        elif not isinstance(sid, str):
            s.add(sid)
    groups, raw, info = {}, {}, {}
    for itg in integrals:
        sid = itg.subdomain_id()
        dk, it = dom_key(itg.ufl_domain()), itg.integral_type()
        ks = applies_to(sid, numbered[(dk, it)], append)
        if ks is None:
            return None
        M = md_canon(itg.metadata())
        raw.setdefault(M, itg.metadata())
        inner, chain = strip_cd(itg.integrand())
        for k in ks:
            groups.setdefault((dk, it, k, M, chain), []).append(inner)
            kind = "everywhere" if isinstance(sid, str) else ("tuple" if isinstance(sid, tuple) else "single")
            info.setdefault((dk, it, k), set()).add(kind)
    return groups, raw, info, numbered


def output_groups(integrals, drop_degree):
    groups, raw, owners, problems = {}, {}, {}, []
    for n, itg in enumerate(integrals):
        sid = itg.subdomain_id()
        if not isinstance(sid, tuple):
            problems.append(("output-subdomain-id-not-a-tuple", repr(sid)))
            sid = (sid,)
        dk, it = dom_key(itg.ufl_domain()), itg.integral_type()
        M = md_canon(itg.metadata(), drop_degree)
        raw.setdefault(M, itg.metadata())
        inner, chain = strip_cd(itg.integrand())
        if len(set(sid)) != len(sid):
            problems.append(("output-lists-subdomain-twice", repr(sid)))
        for k in sid:
            if k == "everywhere":
                problems.append(("everywhere-left-in-output", repr(sid)))
            groups.setdefault((dk, it, k, M, chain), []).append(inner)
            owners.setdefault((dk, it, k, M, chain), []).append(n)
    return groups, raw, owners, problems


# ------------------------------------------------------------------------- value comparison
class Values:
    """Per case: worlds per integral type and a cache of integrand values."""

    def __init__(self, rng, cell, gdim, cplx, nworlds=3):
        self.rng, self.cell, self.gdim, self.cplx, self.n = rng, cell, gdim, cplx, nworlds
        self.worlds = {}
        self.cache = {}
        self.keep = []

    def worlds_for(self, itype):
        if itype not in self.worlds:
            try:
                # (an integral type registered by the workload itself integrates over cells: its integrands are read in a cell world)
                wt = "cell" if itype.startswith("vf_macro_cell") else itype
                self.worlds[itype] = [World(self.rng, self.cell, self.gdim, wt, self.cplx, conforming=True) for _ in range(self.n)]
            except oracle.Unsupported:
                self.worlds[itype] = None
        return self.worlds[itype]

    def value(self, e, w, B):
        key = (id(e), id(w), B.name)
        r = self.cache.get(key)
        if r is None:
            r = S(e, w, B)
            if r.rank or r.fi:
                raise oracle.StructureMismatch("integrand is not a scalar")
            self.cache[key] = r
            self.keep.append(e)
        return r

    def evaluable(self, e, itype):
        """Can the reference interpreter give this integrand a value (no unrestricted jump terms, unsupported nodes)?"""
        ws = self.worlds_for(itype)
        if ws is None:
            return False
        try:
            self.value(e, ws[0], oracle.CB)
        except (oracle.Unsupported, oracle.Ambiguous, oracle.StructureMismatch):
            return False
        except Exception:
            return True  # numerical trouble in this world: left to the three-valued comparison
        return True

    def total(self, exprs, w, B):
        tot = None
        flags = set()
        mx = 0.0
        for e in exprs:
            r = self.value(e, w, B)
            tot = r.arr if tot is None else tot + r.arr
            flags |= r.flags
            mx = max(mx, r.maxabs)
        if tot is None:
            tot = B.zeros(())
        return Result(tot, 0, (), flags, mx)

    def compare(self, ins, outs, itype):
        """(verdict, sample verdicts, nonzero?)"""
        ws = self.worlds_for(itype)
        if ws is None:
            return "skipped", [], False
        seen = {"mx": 0.0}

        def fin(w, B):
            r = self.total(ins, w, B)
            if B.name == "complex128":
                seen["mx"] = max(seen["mx"], abs(complex(r.arr)))
            return r

        def fout(w, B):
            r = self.total(outs, w, B)
            if B.name == "complex128":
                seen["mx"] = max(seen["mx"], abs(complex(r.arr)))
            return r

        vs = [oracle.compare_once(fin, fout, w) for w in ws]
        kinds = [v.kind for v in vs]
        if any(k in ("input-structure", "input-ambiguous") for k in kinds):
            return "skipped", vs, False
        v = oracle.decide(vs)
        if "output-ambiguous" in kinds:
            v = "violated"
        return v, vs, seen["mx"] > 1e-9


def slice_relation(k, kinds, append):
    if k == "otherwise":
        return "otherwise"
    parts = []
    if "tuple" in kinds:
        parts.append("tuple-id")
    if "single" in kinds:
        parts.append("single-id")
    if "everywhere" in kinds:
        parts.append("everywhere-appended")
    if not parts:
        parts.append("everywhere-not-appended" if not append else "no-input")
    return "+".join(parts)


def judge_group_event(ctx, vals, fin_integrals, append, out_integrals, drop_degree=False, label="group_form_integrals", maxkeys=48):
    """Judge one group_form_integrals event.  Returns 'held' / 'violated' / 'undecided' and bookkeeping."""
    ig = input_groups(fin_integrals, append)
    if ig is None:
        ctx.count("input_with_otherwise_skipped")
        return "undecided", {}
    gin, raw_in, info, numbered = ig
    gout, raw_out, owners, problems = output_groups(out_integrals, drop_degree)
    violated = False
    for what, text in problems:
        ctx.violation(f"C15/{label}/{what}", f"{label} returned an integral with subdomain id {text}")
        violated = True
    # at most one output integral per key
    for key, own in owners.items():
        if len(set(own)) > 1:
            ctx.violation(f"C15/{label}/not-merged-same-metadata",
                          f"{len(set(own))} output integrals serve ({key[1]}, subdomain {key[2]}) with the same metadata {md_text(raw_out[key[3]])}"
                          + (" and coordinate derivatives" if key[4] else ""),
                          {"append_everywhere": append})
            violated = True
    keys = sorted(set(gin) | set(gout), key=repr)
    if len(keys) > maxkeys:
        ctx.count("keys_not_compared_cap", len(keys) - maxkeys)
        rr = ctx_rng_for(keys)
        keys = sorted(rr.sample(keys, maxkeys), key=repr)
    verdicts = {}
    stats = {"nonzero": 0, "compared": 0}
    for key in keys:
        dk, it, k, M, chain = key
        ins, outs = gin.get(key, []), gout.get(key, [])
        v, vs, nz = vals.compare(ins, outs, it)
        count_verdicts(ctx, vs)
        verdicts[key] = (v, vs)
        if v == "skipped":
            ctx.count("groups_skipped")
            continue
        ctx.count("groups_compared")
        stats["compared"] += 1
        if nz:
            ctx.count("groups_nonzero")
            stats["nonzero"] += 1
        elif v == "held" and ins:
            ctx.count("groups_cancelling_to_zero")
        if chain:
            ctx.count("cd_groups_compared")
        if k == "otherwise":
            ctx.count("otherwise_groups")
        elif "everywhere" in info.get((dk, it, k), ()):
            ctx.count("everywhere_appended_groups")
        if v == "held" and len(ins) >= 2 and len(outs) == 1:
            ctx.count("merges_observed")
    # bookkeeping about metadata kept apart / merged
    by_slice = {}
    for key in keys:
        by_slice.setdefault(key[:3], []).append(key)
    for sl, ks in by_slice.items():
        Ms_in = sorted({key[3] for key in ks if key in gin}, key=repr)
        if len(Ms_in) >= 2 and all(verdicts[key][0] == "held" for key in ks):
            ctx.count("slices_with_distinct_metadata")
            for a in range(len(Ms_in)):
                for b in range(a + 1, len(Ms_in)):
                    ctx.covered("kept_apart", diffkind(raw_in[Ms_in[a]], raw_in[Ms_in[b]]))
    # violations, one per slice
    for sl, ks in by_slice.items():
        bad = [key for key in ks if verdicts[key][0] == "violated"]
        if not bad:
            continue
        violated = True
        dk, it, k = sl
        rel = slice_relation(k, info.get(sl, set()), append)
        suspect = [key for key in ks if verdicts[key][0] != "held"]
        first = bad[0]
        bv = next((x for x in verdicts[first][1] if x.kind in ("disagree", "output-ambiguous")), None)
        detail = {
            "append_everywhere": append, "integral_type": it, "subdomain": str(k),
            "input": [[str(i.subdomain_id()), md_text(i.metadata()), safe_str(i.integrand(), 200)] for i in fin_integrals if i.integral_type() == it][:8],
            "output": [[str(i.subdomain_id()), md_text(i.metadata()), safe_str(i.integrand(), 300)] for i in out_integrals if i.integral_type() == it][:8],
            "world": vals.worlds_for(it)[0].describe() if vals.worlds_for(it) else None,
        }
        merged = find_merge(vals, it, suspect, gin, gout, same=4, differ=3)
        merged_cd = None if merged else find_merge(vals, it, suspect, gin, gout, same=3, differ=4)
        if merged:
            raws = [raw_in.get(m[3], raw_out.get(m[3])) for m in merged]
            dkd = diffkind(raws[0], raws[1])
            ctx.violation(f"C15/{label}/merged-different-metadata/{dkd}",
                          f"integrands with metadata {md_text(raws[0])} and {md_text(raws[1])} on ({it}, subdomain {k}) were merged into one integral "
                          f"(difference: {dkd}); {bv.kind if bv else ''} rel. err {bv.err if bv else None}", detail)
        elif merged_cd:
            ctx.violation(f"C15/{label}/merged-different-coordinate-derivatives/{rel}",
                          f"integrands under different coordinate derivatives on ({it}, subdomain {k}) were merged", detail)
        else:
            ins, outs = gin.get(first, []), gout.get(first, [])
            cause = "lost-integrand" if not outs else ("integrand-from-nowhere" if not ins else "value-changed")
            ctx.violation(f"C15/{label}/{cause}/{rel}",
                          f"{label} changed what is integrated on ({it}, subdomain {k}, metadata {md_text(raw_in.get(first[3], raw_out.get(first[3])))}): "
                          f"{len(ins)} input integrand(s) apply, {len(outs)} output integrand(s); {bv.kind if bv else ''} rel. err {bv.err if bv else None}", detail)
    if violated:
        return "violated", stats
    vv = [v for v, _ in verdicts.values()]
    if vv and all(v in ("held", "skipped") for v in vv) and "held" in vv:
        return "held", stats
    return "undecided", stats


def find_merge(vals, itype, suspect, gin, gout, same, differ):
    """(gainer key, swallowed key) if the integrands of one group (component `differ` of the key different, component `same`
    equal) moved into another group of the same slice: the joint totals of the groups agree although each group disagrees."""
    plausible = None
    for g_ in suspect:
        if not gout.get(g_):
            continue
        losers = [l_ for l_ in suspect if gin.get(l_) and not gout.get(l_) and l_[differ] != g_[differ] and l_[same] == g_[same]]
        if not losers:
            continue
        trials = [[l_] for l_ in losers] + ([losers] if len(losers) > 1 else [])
        for ls in trials:
            ins = list(gin.get(g_, [])) + [e for l_ in ls for e in gin[l_]]
            v, _, _ = vals.compare(ins, gout[g_], itype)
            if v == "held":
                return (g_, ls[0])
            if v != "violated" and plausible is None:
                plausible = (g_, ls[0])
    return plausible


def ctx_rng_for(keys):
    import random

    return random.Random(hashlib.sha1(repr(keys).encode()).hexdigest())


def judge_attach_event(ctx, before, after):
    ctx.count("attach_events")
    a, b = list(before.integrals()), list(after.integrals())
    if len(a) != len(b):
        ctx.violation("C15/attach_estimated_degrees/integral-count", f"{len(a)} integrals in, {len(b)} out")
        return False
    ok = True
    for x, y in zip(a, b):
        same_itg = y.integrand() is x.integrand() or canon(y.integrand(), "abs") == canon(x.integrand(), "abs")
        if not same_itg:
            ctx.violation("C15/attach_estimated_degrees/integrand-changed", "integrand changed", {"in": safe_str(x.integrand()), "out": safe_str(y.integrand())})
            ok = False
        if (y.integral_type(), dom_key(y.ufl_domain()), y.subdomain_id()) != (x.integral_type(), dom_key(x.ufl_domain()), x.subdomain_id()):
            ctx.violation("C15/attach_estimated_degrees/measure-changed", f"{x.integral_type()} {x.subdomain_id()} -> {y.integral_type()} {y.subdomain_id()}")
            ok = False
        if md_canon(y.metadata(), True) != md_canon(x.metadata(), EDK not in x.metadata()) or EDK not in y.metadata():
            ctx.violation("C15/attach_estimated_degrees/metadata-changed", f"metadata {md_text(x.metadata())} became {md_text(y.metadata())}")
            ok = False
    return ok


def snapshot_idatas(idatas):
    """Copy of what build_integral_data returned (FormData later rewrites the IntegralData objects in place)."""
    return [(ida.domain, ida.integral_type, ida.subdomain_id, tuple(ida.domain_integral_type_map.items()), list(ida.integrals)) for ida in idatas]


def judge_build_event(ctx, integrals, snap):
    """IntegralData objects must partition the integrals by (domain, type, subdomain ids)."""
    ctx.count("build_events")
    ok = True
    want = {}
    for itg in integrals:
        want[id(itg)] = want.get(id(itg), 0) + 1
    have = {}
    seen_keys = {}
    for dom, itype, sid, dmap, itgs in snap:
        key = (dom_key(dom), itype, canon_value(sid), tuple((dom_key(d), t) for d, t in dmap))
        if key in seen_keys:
            ctx.violation("C15/build_integral_data/split-bucket", f"two IntegralData for ({itype}, {sid})")
            ok = False
        seen_keys[key] = True
        if not itgs:
            ctx.violation("C15/build_integral_data/empty-bucket", f"IntegralData ({itype}, {sid}) without integrals")
            ok = False
        for itg in itgs:
            ctx.count("integrals_bucketed")
            have[id(itg)] = have.get(id(itg), 0) + 1
            if id(itg) not in want:
                ctx.violation("C15/build_integral_data/foreign-integral", "an IntegralData holds an integral that was not passed in")
                ok = False
            if (dom_key(itg.ufl_domain()), itg.integral_type(), canon_value(itg.subdomain_id())) != key[:3]:
                ctx.violation("C15/build_integral_data/wrong-bucket",
                              f"integral over ({itg.integral_type()}, {itg.subdomain_id()}) filed under ({itype}, {sid})")
                ok = False
    for i, n in want.items():
        if have.get(i, 0) < n:
            ctx.violation("C15/build_integral_data/lost-integral", "an integral passed in is in no IntegralData")
            ok = False
        elif have.get(i, 0) > n:
            ctx.violation("C15/build_integral_data/duplicated-integral", "an integral passed in appears twice in the IntegralData")
            ok = False
    return ok


# ------------------------------------------------------------------------- tap inside compute_form_data
class Tap:
    """Records the grouping events inside the real compute_form_data."""

    NAMES = ("group_form_integrals", "attach_estimated_degrees", "build_integral_data")

    def __init__(self):
        self.events = []
        self.saved = {}

    def __enter__(self):
        for n in self.NAMES:
            real = getattr(CFD, n)
            self.saved[n] = real

            def wrap(*a, _real=real, _n=n, **kw):
                r = _real(*a, **kw)
                self.events.append((_n, a, kw, snapshot_idatas(r) if _n == "build_integral_data" else r))
                return r

            setattr(CFD, n, wrap)
        return self

    def __exit__(self, *exc):
        for n, real in self.saved.items():
            setattr(CFD, n, real)
        return False


# ------------------------------------------------------------------------- form workload
def sid_choice(rng, ids):
    r = rng.random()
    if r < 0.28:
        return "everywhere"
    if r < 0.62:
        return rng.choice(ids)
    t = rng.sample(ids, rng.choice([2, 2, 3]) if len(ids) >= 3 else 2)
    if rng.random() < 0.6:
        t = sorted(t)
    return tuple(t)


def make_integral(rng, it, mesh, sid, e, md):
    """[Integral] for one user-level term; tuple ids mostly reach the grouping as tuples."""
    mdd = {} if md is None else md
    if isinstance(sid, tuple) and rng.random() < 0.7:
        return [Integral(e, it, mesh, sid, mdd, None)], "tuple-direct"
    kw = {"domain": mesh, "subdomain_id": sid}
    if md is not None:
        kw["metadata"] = md
    form = e * ufl.Measure({"cell": "dx", "exterior_facet": "ds", "interior_facet": "dS"}[it], **kw)
    return list(form.integrals()), ("tuple-measure" if isinstance(sid, tuple) else "measure")


def build_case_form(ctx, rng, cell, gdim, cplx, variants, with_cd, two_meshes, vals):
    itypes = rng.choice([["cell"], ["cell", "exterior_facet"], ["cell", "exterior_facet", "interior_facet"], ["exterior_facet", "interior_facet"],
                         ["interior_facet"], ["cell", "interior_facet"]])
    arity = rng.choice([0, 0, 1, 2])
    ids = rng.choice([[1, 2], [1, 2, 3], [1, 2, 3], [1, 2, 3, 7]])
    all_integrals = []
    pattern = []
    chains_used = set()
    for m in range(2 if two_meshes else 1):
        base, pieces = gen_form(rng, cell, gdim, cplx, rng.choice([3, 4, 5]), arity, itypes,
                                metadata_fn=lambda r: None, subdomain_fn=lambda r: None, depth=(1, 1, 2))
        mesh = base.integrals()[0].ufl_domain()
        pools = {}
        for it, _sid, integrand, _md in pieces:
            if vals.evaluable(integrand, it):
                pools.setdefault(it, []).append(integrand)
            else:
                ctx.count("pool_integrands_without_reference_value")
        if not pools:
            raise ValueError("no evaluable integrand in the pool")
        x = ufl.SpatialCoordinate(mesh)
        dirs = None
        if with_cd:
            Vc = ufl.FunctionSpace(mesh, mesh.ufl_coordinate_element())
            v1, v2 = ufl.Coefficient(Vc), ufl.Coefficient(Vc)
            # incl. the same direction twice (second-order Taylor terms) next to chains that differ by such a pair
            dirs = [(), (), (v1,), (v1,), (v2,), (v1, v2), (v2, v1), (v1, v1), (v1, v1), (v2, v2), (v1, v1, v2), (ufl.Argument(Vc, arity),)]
        nint = rng.choice([2, 3, 3, 4, 4, 5, 6]) if not two_meshes else rng.choice([2, 3, 4])
        for _ in range(nint):
            it = rng.choice(sorted(pools))
            basee = rng.choice(pools[it])
            r = rng.random()
            e = basee if r < 0.5 else (-basee if r < 0.68 else (2 * basee if r < 0.84 else 0.5 * basee))
            sid = sid_choice(rng, ids)
            vi = rng.randrange(len(variants))
            md, how = md_variant_object(rng, variants[vi])
            itgs, route = make_integral(rng, it, mesh, sid, e, md)
            if route == "tuple-direct":
                ctx.count("tuple_id_inputs")
            chain = ()
            if dirs is not None:
                chain = rng.choice(dirs)
                f = Form(itgs)
                for v in chain:
                    f = ufl.derivative(f, x, v)
                itgs = list(f.integrals())
                chains_used.add(len(chain))
            all_integrals.extend(itgs)
            pattern.append((m, it, "ev" if sid == "everywhere" else (sid if not isinstance(sid, tuple) else tuple(sid)), vi, how, len(chain),
                            "same" if e is basee else "scaled"))
    return Form(all_integrals), pattern, itypes, chains_used


# ------------------------------------------------------------------------- deterministic probes
def probe_pairs():
    """(name, metadata a, metadata b): the first NPROBES cases of every run, so that each difference kind is observed in every run."""
    n = 2000
    base = np.linspace(0.0, 1.0, n) ** 2 + 0.125
    one = base.copy()
    one[n // 2] = np.nextafter(one[n // 2], 2.0)
    last = base.copy()
    last[-1] += 1e-9
    P = [
        ("same-object-copy", {"quadrature_degree": 2, "r": [1, 2]}, {"quadrature_degree": 2, "r": [1, 2]}),
        ("key-order", {"a": 1, "b": {"c": 2, "d": 3}}, {"b": {"d": 3, "c": 2}, "a": 1}),
        ("list-vs-tuple", {"p": [1, 2]}, {"p": (1, 2)}),
        ("array-same-bytes", {"w": base}, {"w": base.copy()}),
        ("array-noncontiguous-same", {"w": np.arange(8.0)[::2]}, {"w": np.arange(8.0)[::2].copy()}),
        ("array-one-entry-ulp", {"w": base}, {"w": one}),
        ("array-last-entry-1e-9", {"w": base}, {"w": last}),
        ("array-length", {"w": base}, {"w": base[:-1].copy()}),
        ("array-shape", {"w": np.arange(4.0)}, {"w": np.arange(4.0).reshape(2, 2)}),
        ("array-dtype", {"w": np.arange(4)}, {"w": np.arange(4.0)}),
        ("array-int32-int64", {"w": np.arange(4, dtype=np.int32)}, {"w": np.arange(4, dtype=np.int64)}),
        ("array-vs-list", {"w": np.array([1.0, 2.0])}, {"w": [1.0, 2.0]}),
        ("float-12th-digit", {"t": 0.1}, {"t": 0.1 * (1 + 1e-12)}),
        ("float-ulp", {"t": 1.0 / 3.0}, {"t": float(np.nextafter(1.0 / 3.0, 1.0))}),
        ("float-9th-digit", {"t": 2.5}, {"t": 2.5 * (1 + 2e-9)}),
        ("float-in-list", {"t": [1, 0.1]}, {"t": [1, 0.1 * (1 + 1e-13)]}),
        ("int-vs-str", {"l": 1}, {"l": "1"}),
        ("int-vs-float", {"l": 1}, {"l": 1.0}),
        ("int-vs-bool", {"l": 1}, {"l": True}),
        ("zero-vs-false", {"l": 0}, {"l": False}),
        ("none-vs-str", {"l": None}, {"l": "None"}),
        ("none-vs-missing", {"l": None}, {}),
        ("str-vs-quoted-str", {"l": "x"}, {"l": "'x'"}),
        ("signed-zero", {"l": 0.0}, {"l": -0.0}),
        ("nested-deep-value", {"o": {"a": [1, {"b": [2, 3]}]}}, {"o": {"a": [1, {"b": [2, 4]}]}}),
        ("list-nesting", {"p": [[1, 2], 3]}, {"p": [[1], [2, 3]]}),
        ("list-flatten", {"p": [1, [2, 3]]}, {"p": [1, 2, 3]}),
        ("list-order", {"p": [1, 2]}, {"p": [2, 1]}),
        ("degree-vs-none", {"quadrature_degree": 2}, {}),
        ("degree-2-vs-3", {"quadrature_degree": 2}, {"quadrature_degree": 3}),
        ("extra-key", {"a": 1}, {"a": 1, "b": 2}),
        ("key-name", {"a": 1}, {"b": 1}),
        ("empty-dict-vs-empty-list", {"o": {}}, {"o": []}),
        ("empty-list-vs-none", {"o": []}, {"o": None}),
        ("dict-vs-pair-list", {"o": {"1": 2}}, {"o": [[1, 2]]}),
        ("float32-vs-float", {"w": np.float32(0.1)}, {"w": 0.1}),
    ]
    return P


NPROBES = 36
assert NPROBES == len(probe_pairs())


def probe_case(ctx, i, rng):
    """Cases 0..NPROBES-1: one fixed metadata pair each, on a small generated form, with both append options."""
    name, ma, mb = probe_pairs()[i]
    cell, gdim = "triangle", 2
    base, pieces = gen_form(rng, cell, gdim, False, 2, 0, ["cell"], metadata_fn=lambda r: None, subdomain_fn=lambda r: None, depth=(1,))
    mesh = base.integrals()[0].ufl_domain()
    f, g = pieces[0][2], pieces[1][2]
    vals = Values(rng, cell, gdim, False)
    same = mcanon(ma) == mcanon(mb)
    for append in (True, False):
        # (the integrand f occurs under both metadata on subdomain 1: UFL then orders the two equal integrands by comparing
        # their canonical metadata, which must work for any two metadata)
        F = (f * ufl.dx(1, domain=mesh, metadata=ma) + g * ufl.dx(1, domain=mesh, metadata=mb) + (2 * f) * ufl.dx((1, 2), domain=mesh, metadata=mb)
             + (3 * g) * ufl.dx(domain=mesh, metadata=ma) + f * ufl.dx(1, domain=mesh, metadata=mb))
        try:
            with warnings.catch_warnings():
                warnings.simplefilter("ignore")
                G = group_form_integrals(F, F.ufl_domains(), do_append_everywhere_integrals=append)
        except Exception as ex:
            ctx.count("probe_rejected")
            ctx.covered("probe_rejected_with", name + ": " + type(ex).__name__ + ": " + str(ex)[:60])
            if isinstance(ex, TypeError | IndexError | KeyError | AttributeError):
                import traceback

                tb = traceback.extract_tb(ex.__traceback__)
                site = next((f"{os.path.basename(fr.filename)}:{fr.name}" for fr in reversed(tb) if "/ufl/" in fr.filename), "?")
                ctx.violation(f"C15/group_form_integrals/raises/{type(ex).__name__}/{site}",
                              f"group_form_integrals raises {type(ex).__name__}: {str(ex)[:120]} (in {site}) for one integrand under the metadata {ma!r} and {mb!r} (probe {name})",
                              {"metadata": [repr(ma), repr(mb)], "probe": name})
            continue
        ctx.count("probe_pairs")
        v, _ = judge_group_event(ctx, vals, list(F.integrals()), append, list(G.integrals()), label="group_form_integrals")
        if v == "held":
            ctx.count("probe_held")
            ctx.covered("probes_held", name)
            ctx.covered("probes_same_metadata_merged" if same else "probes_different_metadata_kept_apart", name)
            ctx.add_distinct(("probe", name, append))
        elif v == "undecided":
            ctx.count("probe_undecided")


def registered_type_case(ctx, i, rng):
    """An integral type registered through the public extension point ufl.register_integral_type AFTER forms have been
    grouped in this process: its integrals are grouped like any others (nothing may be dropped)."""
    cell, gdim = "triangle", 2
    base, pieces = gen_form(rng, cell, gdim, False, 3, 0, ["cell"], metadata_fn=lambda r: None, subdomain_fn=lambda r: None, depth=(1,))
    mesh = base.integrals()[0].ufl_domain()
    f, g, h = pieces[0][2], pieces[1][2], pieces[2][2]
    vals = Values(rng, cell, gdim, False)
    with warnings.catch_warnings():
        warnings.simplefilter("ignore")
        # a grouping before the registration (whatever this process did so far)
        group_form_integrals(f * ufl.dx(1, domain=mesh) + g * ufl.dx(domain=mesh), (mesh,), do_append_everywhere_integrals=True)
        k_ = rng.randrange(3)
        itype, mname = f"vf_macro_cell_{k_}", f"dVF{k_}"
        ufl.register_integral_type(itype, mname)
        dV = ufl.Measure(mname, domain=mesh)
        md = rng.choice([None, {"quadrature_degree": 3}])
        F = (f * ufl.dx(1, domain=mesh) + g * dV(1) + h * dV + (2 * f) * dV((1, 2), metadata=md) + (3 * g) * ufl.dx(domain=mesh))
        for append in (True, False):
            try:
                G = group_form_integrals(F, F.ufl_domains(), do_append_everywhere_integrals=append)
            except Exception as ex:
                ctx.count("registered_type_rejected")
                ctx.covered("rejected_with", "registered-type: " + type(ex).__name__ + ": " + str(ex)[:60])
                continue
            ctx.count("registered_type_pairs")
            v, _ = judge_group_event(ctx, vals, list(F.integrals()), append, list(G.integrals()), label="group_form_integrals")
            if v == "held":
                ctx.count("registered_type_held")
                ctx.add_distinct(("registered-type", k_, append, md is None))


# ------------------------------------------------------------------------- random cases
def case(ctx, i, rng):
    if i < NPROBES:
        return probe_case(ctx, i, rng)
    if rng.random() < 0.03:
        return registered_type_case(ctx, i, rng)
    cell, gdim = rng.choice(CELLS)
    cplx = rng.random() < 0.2
    mode = "pipeline" if rng.random() < 0.22 else "direct"
    append = rng.random() < 0.5
    degrees = rng.random() < 0.5
    with_cd = mode == "direct" and rng.random() < 0.25
    two_meshes = mode == "direct" and not with_cd and rng.random() < 0.12
    fam_name, fam = choose_family(rng)
    variants = fam(rng)
    vals = Values(rng, cell, gdim, cplx)
    try:
        with warnings.catch_warnings():
            warnings.simplefilter("ignore")
            F, pattern, itypes, chains_used = build_case_form(ctx, rng, cell, gdim, cplx, variants, with_cd, two_meshes, vals)
    except Exception as ex:
        ctx.count("build_rejected")
        ctx.covered("build_rejected_with", type(ex).__name__ + ": " + str(ex)[:60])
        return
    events = []
    with warnings.catch_warnings():
        warnings.simplefilter("ignore")
        if mode == "direct":
            if degrees and rng.random() < 0.8:
                # degree estimation needs the lowered algebra (as in the real pipeline)
                try:
                    F = apply_algebra_lowering(F)
                except Exception as ex:
                    ctx.count("rejected")
                    ctx.covered("rejected_with", "lowering: " + type(ex).__name__ + ": " + str(ex)[:60])
                    return
            try:
                # (Form.ufl_domains() refuses forms whose two meshes carry arguments with the same number)
                domains = F.ufl_domains() if not two_meshes else tuple(sorted({itg.ufl_domain() for itg in F.integrals()}, key=lambda d: d.ufl_id()))
                G = group_form_integrals(F, domains, do_append_everywhere_integrals=append)
            except Exception as ex:
                ctx.count("rejected")
                ctx.count("rejected_grouping_raised_" + type(ex).__name__)
                ctx.covered("rejected_with", type(ex).__name__ + ": " + str(ex)[:70])
                if isinstance(ex, TypeError | IndexError | KeyError | AttributeError | UnboundLocalError | NameError | AssertionError):
                    # a well-formed form of the public language (every integral was built by a Measure call) that the
                    # grouping cannot process at all: nothing "is integrated on each subdomain" afterwards.  A
                    # ValueError is taken as a deliberate refusal, a failed comparison / lookup inside the grouping is not
                    import traceback

                    tb = traceback.extract_tb(ex.__traceback__)
                    site = next((f"{os.path.basename(fr.filename)}:{fr.name}" for fr in reversed(tb) if "/ufl/" in fr.filename), "?")
                    ctx.violation(f"C15/group_form_integrals/raises/{type(ex).__name__}/{site}",
                                  f"group_form_integrals raises {type(ex).__name__}: {str(ex)[:120]} (in {site}) on a well-formed form",
                                  {"form": str(F)[:1500], "metadata": [repr(itg.metadata())[:200] for itg in F.integrals()][:8],
                                   "subdomains": [repr(itg.subdomain_id()) for itg in F.integrals()][:8]})
                return
            events.append(("group_form_integrals", (F, domains), {"do_append_everywhere_integrals": append}, G))
            G2 = G
            if degrees:
                try:
                    G2 = CFD.attach_estimated_degrees(G)
                    events.append(("attach_estimated_degrees", (G,), {}, G2))
                except Exception as ex:
                    ctx.count("attach_rejected")
                    ctx.covered("rejected_with", "attach: " + type(ex).__name__ + ": " + str(ex)[:60])
                    G2 = G
            try:
                ids = build_integral_data(G2.integrals())
                events.append(("build_integral_data", (G2.integrals(),), {}, snapshot_idatas(ids)))
            except Exception as ex:
                ctx.count("build_integral_data_rejected")
                ctx.covered("rejected_with", "build: " + type(ex).__name__ + ": " + str(ex)[:60])
        else:
            tap = Tap()
            try:
                with tap:
                    CFD.compute_form_data(F, do_append_everywhere_integrals=append, do_estimate_degrees=degrees, complex_mode=cplx)
            except (Exception, ufl.algorithms.check_arities.ArityMismatch, ufl.algorithms.comparison_checker.ComplexComparisonError) as ex:
                ctx.count("pipeline_raised")
                ctx.covered("pipeline_raised_with", type(ex).__name__ + ": " + str(ex)[:60])
            events = tap.events
            if not any(e[0] == "group_form_integrals" for e in events):
                ctx.count("rejected")
                return
    ctx.count("accepted")
    results = []
    stats = {"nonzero": 0, "compared": 0}
    for name, a, kw, r in events:
        if name == "group_form_integrals":
            ap = kw.get("do_append_everywhere_integrals", a[2] if len(a) > 2 else True)
            if ap != append:
                ctx.violation("C15/harness/append-option-not-passed-on", "compute_form_data did not pass do_append_everywhere_integrals on")
            v, stats = judge_group_event(ctx, vals, list(a[0].integrals()), ap, list(r.integrals()))
            results.append(v)
        elif name == "attach_estimated_degrees":
            results.append("held" if judge_attach_event(ctx, a[0], r) else "violated")
        elif name == "build_integral_data":
            results.append("held" if judge_build_event(ctx, list(a[0]), r) else "violated")
    if "violated" in results:
        ctx.count("case_violated")
        return
    if results and results[0] == "held" and all(v == "held" for v in results) and stats.get("nonzero", 0) > 0:
        ctx.count("case_held")
        ctx.count("case_held_" + mode)
        ctx.count("case_held_family_" + fam_name)
        if two_meshes:
            ctx.count("case_held_two_meshes")
        if with_cd:
            ctx.count("case_held_with_coordinate_derivatives")
        ctx.covered("modes_held", mode)
        for it in {p[1] for p in pattern}:
            ctx.covered("itypes_held", it)
        first = F.integrals()[0].integrand()
        ctx.add_distinct((fam_name, tuple(sorted({(p[1], str(p[2])) for p in pattern})), append, mode, tuple(sorted(chains_used)), two_meshes,
                          skeleton(strip_cd(first)[0], 2), cell, gdim))
        ctx.sample({"family": fam_name, "mode": mode, "append_everywhere": append, "cell": [cell, gdim],
                    "integrals": [[p[1], str(p[2]), "md#%d(%s)" % (p[3], p[4]), "cd*%d" % p[5], p[6]] for p in pattern],
                    "metadata_variants": [md_text(v, 100) for v in variants],
                    "groups_compared": stats.get("compared"), "first_integrand": safe_str(first, 160)}, limit=3)
    else:
        ctx.count("case_undecided")
