"""C22 - block extraction partitions mixed forms.

Events: every call `ufl.extract_blocks(F, ...)` (all blocks / one row / one block, both `replace_argument`
modes) on generated linear and bilinear forms whose arguments live on mixed ELEMENTS (2-4 sub-elements:
scalar, vector, tensor, symmetric, Piola-mapped, nested mixed; sub-functions written with split(),
TestFunctions() or explicit indexing, terms with the whole mixed function, Jacobians obtained with
derivative()) or on a MixedFunctionSpace (arguments with parts), with several integrals of cell /
exterior-facet / interior-facet type and subdomain ids, real and complex mode.

Oracle (form values in fixed worlds, vf/seval.py; nothing of UFL's algorithms is used):
  Phi(G)[s] = sum over the integrals of G of  weight(integral type, subdomain id) * S(integrand) under the
  simultaneous substitution s of the arguments by polynomial fields.  With c_i / d_j fresh coefficient fields
  on the i-th test / j-th trial sub-space and the mixed argument := concatenation of the flattened sub-fields:
    (A) every returned block (i, j):  Phi(B_ij)[v_i := c_i, u_j := d_j]  ==  Phi(F)[v := (0..c_i..0), u := (0..d_j..0)]
        (so the block is the part of F that depends on the i-th test and j-th trial sub-function only);
        a block returned as None / missing must have  Phi(F)[v := (0..c_i..0), u := (0..d_j..0)] == 0;
    (B) sum over everything returned of Phi(B_ij)  ==  Phi(F)[v := c, u := d];
    (C) the arguments occurring in B_ij are only the i-th test / j-th trial sub-space arguments
        (number, part None, FunctionSpace(mesh, sub element)) for replace_argument=True, the original mixed
        arguments for replace_argument=False, the arguments with part i / j for a MixedFunctionSpace.
extract_blocks raising on a form is counted (`extract_rejected`), never called a violation.
"""

import numpy as np

import ufl
from ufl import Argument, Coefficient, FunctionSpace, MixedFunctionSpace, as_tensor, as_vector
from ufl.algorithms import expand_derivatives
from ufl.algorithms.apply_algebra_lowering import apply_algebra_lowering
from ufl.classes import Form

from .. import elements as E
from .. import oracle
from ..gen import Gen, Universe
from ..passcheck import count_verdicts, safe_str
from ..phi import WorldSet
from ..seval import Result, S, StructureMismatch

LEVEL = "exploration"
ENGINE = "phi"
TECHNIQUE = (
    "differential runtime monitoring of extract_blocks / FormSplitter: form values of every returned block against the "
    "restriction of the original form to one test and one trial sub-function, in fixed worlds"
)
LEVEL_TEXT = (
    "The real ufl.extract_blocks is run (all blocks, rows, single blocks; replace_argument True and False) on generated "
    "linear and bilinear forms over mixed elements and MixedFunctionSpaces; each returned block is evaluated by an "
    "independent interpreter at random points of random affine cells (one world per integral type, integrals weighted per "
    "subdomain id, 50-digit confirmation) and compared with the original form in which all other sub-functions are set "
    "to zero; the blocks' sum is compared with the original form and the blocks' arguments with the sub-space arguments."
)
LEVEL_NOTE = (
    "trusted: vf/seval.py, vf/world.py, and the definition 'value of a mixed-element function = concatenation of the "
    "flattened physical values of its sub-functions'; bounds: 2-4 sub-spaces, degree <= 3, affine simplex cells, 1-4 integrals"
)
RULE = (
    "case i = (cell, flavour mixed-element / MixedFunctionSpace, sub-elements, rank, block pattern, way of writing the "
    "sub-functions, integral types and subdomain ids, API path all/row/single, replace_argument, real/complex) drawn from the "
    "seeded generator; distinct = (flavour, sub-element names, rank, pattern, style, API, replace mode, integral types, mode); "
    "non-trivial = at least one returned block has a non-zero value and every check of the case was decided"
)
ASSUMPTIONS = [
    "the value of a function on a mixed element is the concatenation of the row-major flattened physical values of its "
    "sub-functions (the convention of ufl.split and MixedPullback)",
    "a block returned as None (or lying outside the returned tuple) stands for the zero form",
    "for a row request extract_blocks(a, i) of a bilinear form either a sequence of blocks or one form for the whole row is accepted",
    "generated integrands are additive in each argument (sums of products coefficient * linear(test) [* linear(trial)])",
]
BUDGET = {"quick": 45, "thorough": 400}
NCASES = {"quick": 1800, "thorough": 16000}
CASE_TIMEOUT = 30.0
EVAL_COUNTER = "blocks_checked"
FLOORS = {
    "quick": {"case_held": 450, "blocks_held": 1250, "zero_blocks_held": 1250, "sum_held": 450, "args_checked": 1250},
    "thorough": {"case_held": 4500, "blocks_held": 12500, "zero_blocks_held": 12500, "sum_held": 4500, "args_checked": 12500},
}
_COVER = {
    "flavours_held": ["element", "mfs"],
    "apis_held": ["all", "single"],
    "replace_modes_held": ["True", "False"],
    "itypes_held": ["cell", "exterior_facet", "interior_facet"],
    "ranks_held": ["1", "2"],
    "modes_held": ["real", "complex"],
}
COVER_FLOORS = {"quick": _COVER, "thorough": _COVER}

CELLS = [("interval", 1), ("triangle", 2), ("triangle", 2), ("triangle", 2), ("tetrahedron", 3), ("tetrahedron", 3), ("triangle", 3), ("interval", 2)]
SCALARS = ["P1", "P2", "P3", "DG0", "DG1", "DG2", "L2P1"]
VECTORS = ["P1v", "P2v", "DG1v", "RT1", "RT2", "N1_1", "N1_2"]
TENSORS = ["P1t", "Regge1", "HHJ1", "GLS1", "RTrows", "N1rows"]
NESTED = ["MixP2P1", "MixRTDG", "MixNest"]
WHOLE_SPACES = ["MixP2P1", "MixRTDG", "MixNest", "MixSymP1"]
WEIGHTS = [1.0, 0.75, -1.5, 0.625, 2.0, -0.375, 1.25, 0.5]


# ------------------------------------------------------------------------------ generation


def draw_sub_names(rng, gdim, n):
    out = []
    for _ in range(n):
        r = rng.random()
        if r < 0.36:
            out.append(rng.choice(SCALARS))
        elif r < 0.70:
            out.append(rng.choice(VECTORS))
        elif r < 0.86:
            out.append(rng.choice(TENSORS + (["Sym"] if gdim >= 2 else [])))
        else:
            out.append(rng.choice(NESTED + (["MixSymP1"] if gdim >= 2 else [])))
    return out


def vshape(mesh, e):
    return tuple(FunctionSpace(mesh, e).value_shape)


def flat(f):
    """Row-major list of the scalar components of f."""
    if not f.ufl_shape:
        return [f]
    return [f[idx] for idx in np.ndindex(tuple(f.ufl_shape))]


def reshape_list(comps, shape):
    if not shape:
        return comps[0]
    if len(shape) == 1:
        return list(comps)
    step = int(np.prod(shape[1:], dtype=int))
    return [reshape_list(comps[k * step : (k + 1) * step], shape[1:]) for k in range(shape[0])]


def views_by_index(v, mesh, subs):
    """Sub-functions of the mixed-element function v written with explicit component indexing."""
    out = []
    off = 0
    for e in subs:
        shape = vshape(mesh, e)
        size = int(np.prod(shape, dtype=int))
        comps = [v[off + k] for k in range(size)]
        out.append(comps[0] if not shape else as_tensor(reshape_list(comps, shape)))
        off += size
    return out


class Side:
    """One argument slot (test or trial) of a case."""

    def __init__(self, number):
        self.number = number
        self.n = 0
        self.names = []
        self.subs = []       # sub elements
        self.args = []       # the Argument objects that appear in F (one for mixed elements, n for a MixedFunctionSpace)
        self.views = []      # per block index: list of candidate expressions belonging to that block
        self.whole = None    # the mixed Argument itself (mixed elements)
        self.fields = []     # per block index: Coefficient on the sub space (the oracle's fields)


def build_side(rng, mesh, cat, flavour, number, names, style):
    sd = Side(number)
    sd.n = len(names)
    sd.names = list(names)
    sd.subs = [cat[nm] for nm in names]
    sd.fields = [Coefficient(FunctionSpace(mesh, e)) for e in sd.subs]
    if flavour == "element":
        W = FunctionSpace(mesh, E.VMixed(list(sd.subs)))
        v = Argument(W, number)
        sd.space = W
        sd.whole = v
        sd.args = [v]
        if style == "split":
            vs = list(ufl.split(v))
        elif style == "functions":
            vs = list(ufl.TestFunctions(W) if number == 0 else ufl.TrialFunctions(W))
        else:
            vs = views_by_index(v, mesh, sd.subs)
    else:
        W = MixedFunctionSpace(*[FunctionSpace(mesh, e) for e in sd.subs])
        sd.space = W
        vs = list(ufl.TestFunctions(W) if number == 0 else ufl.TrialFunctions(W))
        sd.args = list(vs)
    if len(vs) != sd.n:
        raise ValueError("number of sub-functions differs from the number of sub-elements")
    for view, e in zip(vs, sd.subs):
        cands = [view]
        if e.num_sub_elements and rng.random() < 0.6:
            try:
                deeper = list(ufl.split(view))
                if len(deeper) > 1:
                    cands.extend(deeper)
            except Exception:
                pass
        sd.views.append(cands)
    return sd


def choose_pattern(rng, arity, n0, n1):
    """Set of (i, j) [or (i, None)] pairs that terms may couple."""
    pairs = [(i, j) for i in range(n0) for j in range(n1)] if arity == 2 else [(i, None) for i in range(n0)]
    r = rng.random()
    if r < 0.40:
        return "full", pairs
    if r < 0.58 and arity == 2:
        return "diagonal", [(i, i) for i in range(min(n0, n1))]
    if r < 0.80:
        k = rng.randint(1, max(1, len(pairs) - 1))
        return "sparse", rng.sample(pairs, k)
    i0 = rng.randrange(n0)
    rest = [p for p in pairs if p[0] != i0]
    return "zero-row", rest or pairs


def restrict(e, G, rng):
    return e(rng.choice("+-")) if G.restrict else e


def whole_term(G, rng, test, trial, wfull):
    """A term written with the whole mixed function(s) (mixed elements only)."""
    v = test.whole
    k = rng.choice(["comp", "innerW", "gradW", "uv", "graduv", "compcomp"] if trial is not None and trial.whole is not None and trial.space == test.space
                   else (["comp", "innerW", "gradW", "mixedtrial"] if trial is not None else ["comp", "innerW", "gradW"]))
    dim = v.ufl_shape[0]
    if k == "uv":
        return k, ufl.inner(restrict(trial.whole, G, rng), restrict(v, G, rng))
    if k == "graduv":
        return k, ufl.inner(restrict(ufl.grad(trial.whole), G, rng), restrict(ufl.grad(v), G, rng))
    if k == "compcomp":
        u = trial.whole
        return k, restrict(u, G, rng)[rng.randrange(u.ufl_shape[0])] * restrict(v, G, rng)[rng.randrange(dim)]
    if k == "comp":
        lin = restrict(v, G, rng)[rng.randrange(dim)]
    elif k == "innerW":
        lin = ufl.inner(restrict(wfull, G, rng), restrict(v, G, rng))
    elif k == "gradW":
        lin = ufl.inner(restrict(ufl.grad(wfull), G, rng), restrict(ufl.grad(v), G, rng))
    else:  # whole test function times one trial sub-function
        j = rng.randrange(trial.n)
        lin = restrict(v, G, rng)[rng.randrange(dim)] * G.linear_in(rng.choice(trial.views[j]), 1)
        return k, lin
    if trial is not None:
        j = rng.randrange(trial.n)
        lin = lin * G.linear_in(rng.choice(trial.views[j]), 1)
    return k, lin


def build_form(ctx, rng, cell, gdim, cplx, flavour, test, trial, pattern_pairs, base, template):
    """Returns (form, itypes used)."""
    arity = 1 if trial is None else 2
    unis = {}
    form = None
    used = set()
    nint = rng.choice([1, 1, 2, 2, 3, 4])
    wfull = Coefficient(test.space) if flavour == "element" else None
    wviews = None
    if template == "jacobian":
        wviews = list(ufl.split(wfull)) if rng.random() < 0.6 else views_by_index(wfull, base.mesh, test.subs)
    for _ in range(nint):
        it = rng.choice(["cell", "cell", "exterior_facet", "interior_facet"])
        U = unis.get(it)
        if U is None:
            U = Universe(rng, cell, gdim, it, cplx)
            U.mesh, U.spaces, U._coefs, U._consts, U._args, U.x, U.cat = base.mesh, base.spaces, base._coefs, base._consts, base._args, base.x, base.cat
            unis[it] = U
        G = Gen(U, rng, cplx=cplx, deriv=rng.choice([0, 1, 1, 2]), cond=rng.random() < 0.2 and not cplx, math=rng.random() < 0.35,
                geom=rng.random() < 0.4)
        if wfull is not None and rng.random() < 0.5:
            G.extra = [wfull] + (list(ufl.split(wfull)) if rng.random() < 0.5 else [])
            G.extra_prob = 0.3
        total = None
        for _t in range(rng.choice([1, 1, 2, 3])):
            depth = rng.choice([0, 1, 1, 2])
            if template == "jacobian":
                a = rng.randrange(test.n)
                wa = restrict(wviews[a], G, rng)
                nl = rng.choice(["sq", "inner", "sin"])
                comp = wa[tuple(rng.randrange(d) for d in wa.ufl_shape)] if wa.ufl_shape else wa
                if nl == "sq":
                    fac = comp * comp * comp + comp
                elif nl == "inner":
                    fac = 1 + ufl.inner(wa, wa)
                else:
                    fac = ufl.sin(ufl.real(comp)) if cplx else ufl.sin(comp)
                i = rng.choice(pattern_pairs)[0]
                term = G.expr((), depth) * fac * G.linear_in(rng.choice(test.views[i]), 1)
            elif flavour == "element" and rng.random() < 0.22:
                kind, lin = whole_term(G, rng, test, trial, wfull)
                ctx.covered("whole_terms", kind)
                term = G.expr((), depth) * lin
            else:
                i, j = rng.choice(pattern_pairs)
                term = G.expr((), depth) * G.linear_in(rng.choice(test.views[i]), max(depth - 1, 0))
                if arity == 2:
                    term = term * G.linear_in(rng.choice(trial.views[j]), max(depth - 1, 0))
            total = term if total is None else total + term
        sid = rng.choice([None, None, 1, 2, (1, 3)])
        piece = total * U.measure(sid, rng.choice([None, None, {"quadrature_degree": 2}]))
        form = piece if form is None else form + piece
        used.add(it)
    if template == "jacobian":
        form = ufl.derivative(form, wfull, trial.whole)
    return form, used


# ------------------------------------------------------------------------------ the oracle


def weights_for(form):
    wt = {}
    for itg in form.integrals():
        key = (itg.integral_type(), repr(itg.subdomain_id()))
        if key not in wt:
            wt[key] = WEIGHTS[len(wt) % len(WEIGHTS)]
    return wt


def phi_w(form, ws, B, subst, wt):
    """Weighted form value under a substitution of the arguments (scalar seval.Result)."""
    for w in ws.worlds.values():
        w.subst = dict(subst)
    try:
        tot = B.zeros(())
        flags = set()
        mx = 0.0
        for itg in form.integrals():
            it = itg.integral_type()
            if it not in ws.worlds:
                raise oracle.Unsupported("integral type " + it)
            r = S(itg.integrand(), ws.worlds[it], B)
            if r.rank or r.fi:
                raise StructureMismatch("integrand is not a scalar")
            tot = tot + r.arr * B.scalar(wt.get((it, repr(itg.subdomain_id())), 2.25))
            flags |= r.flags
            mx = max(mx, r.maxabs)
        return Result(tot, 0, (), flags, mx)
    finally:
        for w in ws.worlds.values():
            w.subst = {}


def zero_result(B):
    return Result(B.zeros(()), 0, (), set(), 0.0)


def concat_image(side, only=None):
    """UFL expression for the mixed argument's image: concatenation of the flattened sub-fields
    (all of them, or zero everywhere except in block `only`; only == -1 gives the zero function)."""
    comps = []
    for k, c in enumerate(side.fields):
        fl = flat(c)
        if only is None or only == k:
            comps.extend(fl)
        else:
            comps.extend(ufl.zero() for _ in fl)
    return as_vector(comps)


class Model:
    """Substitutions that realise 'v := fields' for the original form and for blocks."""

    def __init__(self, flavour, mesh, test, trial):
        self.flavour = flavour
        self.mesh = mesh
        self.sides = [test] + ([trial] if trial is not None else [])
        self._cache = {}

    def expected_block_arg(self, side, i):
        if self.flavour == "mfs":
            return side.args[i]
        return Argument(FunctionSpace(self.mesh, side.subs[i]), side.number, None)

    def subst_original(self, only):
        """Substitution for F (and for blocks that keep the original arguments): `only` = tuple with one entry per
        side: None (all sub-fields), block index, or -1 (everything zero)."""
        key = ("orig", tuple(only))
        if key in self._cache:
            return self._cache[key]
        sub = {}
        for side, o in zip(self.sides, only):
            if self.flavour == "element":
                if o == -1 or (o is not None and o >= side.n):
                    sub[side.whole] = ("lin", [])
                else:
                    sub[side.whole] = ("expr", concat_image(side, o))
            else:
                for k, a in enumerate(side.args):
                    sub[a] = ("expr", side.fields[k]) if (o is None or o == k) else ("lin", [])
        self._cache[key] = sub
        return sub

    def subst_block(self, idx, replaced):
        """Substitution under which block idx = (i, j) is evaluated: its own arguments := the sub-fields.
        Blocks that keep the original arguments see all sub-fields (they must not depend on the others)."""
        sub = dict(self.subst_original(tuple(None for _ in self.sides)))
        if self.flavour == "element" and replaced:
            for side, k in zip(self.sides, idx):
                if k is not None and 0 <= k < side.n:
                    sub[self.expected_block_arg(side, k)] = ("expr", side.fields[k])
        return sub


def describe_arg(a):
    try:
        return f"Argument(number={a.number()}, part={a.part()}, element={a.ufl_function_space().ufl_element()!r})"
    except Exception:
        return repr(a)[:200]


def arg_matches(a, side, i, flavour, replaced, mesh):
    """Is `a` exactly the argument that block index i of this side may contain?"""
    if type(a) is not Argument or a.number() != side.number:
        return False
    if flavour == "mfs":
        return a.part() == i and a == side.args[i]
    if not replaced:
        return a is side.whole or (a.part() is None and a.ufl_function_space() == side.space)
    sp = a.ufl_function_space()
    return a.part() is None and type(sp) is FunctionSpace and sp.ufl_domain() is mesh and sp.ufl_element() == side.subs[i] and tuple(a.ufl_shape) == vshape(mesh, side.subs[i])


def is_seq(x):
    return isinstance(x, (tuple, list))


# ------------------------------------------------------------------------------ one case


def case(ctx, i, rng):
    cell, gdim = rng.choice(CELLS)
    cplx = rng.random() < 0.3
    flavour = "element" if rng.random() < 0.62 else "mfs"
    arity = rng.choice([1, 2, 2])
    replaced = rng.random() < 0.55
    style = rng.choice(["split", "functions", "index"]) if flavour == "element" else "functions"
    api = rng.choice(["all", "all", "single", "single", "row"]) if arity == 2 else rng.choice(["all", "single"])
    template = "terms"
    if flavour == "element" and arity == 2 and rng.random() < 0.14:
        template = "jacobian"
    prep = rng.choice(["none"] * 6 + ["expand_derivatives", "algebra_lowering"])
    try:
        base = Universe(rng, cell, gdim, "cell", cplx)
        cat = dict(base.cat)
        if flavour == "element" and rng.random() < 0.15:
            whole_name = rng.choice([w for w in WHOLE_SPACES if w in cat])
            names0 = None
            el = cat[whole_name]
            subs = list(el.sub_elements)
            names0 = [f"{whole_name}.{k}" for k in range(len(subs))]
            for nm, e in zip(names0, subs):
                cat[nm] = e
        else:
            n = rng.choice([2, 2, 2, 3, 3, 4])
            names0 = draw_sub_names(rng, gdim, n)
        test = build_side(rng, base.mesh, cat, flavour, 0, names0, style)
        trial = None
        rect = False
        if arity == 2:
            names1 = names0
            if template != "jacobian" and rng.random() < 0.08:
                rect = True
                names1 = draw_sub_names(rng, gdim, rng.choice([2, 3, 4]))
            trial = build_side(rng, base.mesh, cat, flavour, 1, names1, rng.choice(["split", "functions", "index"]) if flavour == "element" else "functions")
        pattern, pairs = choose_pattern(rng, arity, test.n, trial.n if trial else 0)
        F, itypes = build_form(ctx, rng, cell, gdim, cplx, flavour, test, trial, pairs, base, template)
        if prep == "expand_derivatives":
            F = expand_derivatives(F)
        elif prep == "algebra_lowering":
            F = apply_algebra_lowering(F)
        if not isinstance(F, Form) or F.empty():
            raise ValueError("empty form")
        fargs = F.arguments()
        if sorted({a.number() for a in fargs}) != list(range(arity)):
            raise ValueError("form lost an argument")
    except Exception as ex:
        ctx.count("build_rejected")
        ctx.covered("build_rejected_with", type(ex).__name__ + ": " + str(ex)[:50])
        return
    ctx.count("forms_built")
    fl = flavour + ("-rect" if rect else "")
    n0 = test.n
    n1 = trial.n if trial is not None else None
    model = Model(flavour, base.mesh, test, trial)
    tag = f"C22/{fl}"
    rtag = f"replace={replaced}"
    detail0 = {"form": safe_str(F, 900), "test_subs": test.names, "trial_subs": trial.names if trial else None, "cell": [cell, gdim], "complex": cplx,
               "style": style, "api": api, "replace_argument": replaced, "template": template, "prep": prep, "pattern": pattern}

    # ---- run the real extract_blocks
    blocks = {}      # (i, j) -> Form | None        (j is None for linear forms)
    extras = []      # forms returned at positions that do not exist
    rowforms = {}    # i -> Form returned for a whole row
    nested_rank1 = None
    want = [(a, b) for a in range(n0) for b in range(n1)] if arity == 2 else [(a, None) for a in range(n0)]
    if rng.random() < 0.3:
        # history: the same form was taken apart before with the OTHER replace_argument setting (what the first call did
        # with its arguments must not reach this one)
        try:
            ufl.extract_blocks(F, replace_argument=not replaced)
            ctx.count("prior_calls_with_the_other_setting")
        except Exception:
            ctx.count("prior_calls_with_the_other_setting_raised")
    try:
        if api == "all":
            r = ufl.extract_blocks(F, replace_argument=replaced)
            ctx.count("calls")
            if not is_seq(r):
                raise TypeError("extract_blocks(form) did not return a sequence: " + type(r).__name__)
            if arity == 2:
                for a, row in enumerate(r):
                    if not is_seq(row):
                        raise TypeError("row of extract_blocks(form) is not a sequence: " + type(row).__name__)
                    for b, f in enumerate(row):
                        if a < n0 and b < n1:
                            blocks[(a, b)] = f
                        elif f is not None:
                            extras.append(((a, b), f))
            else:
                if any(is_seq(x) for x in r):
                    nested_rank1 = r
                    r = [x[0] if is_seq(x) and len(x) else (None if is_seq(x) else x) for x in r]
                for a, f in enumerate(r):
                    if a < n0:
                        blocks[(a, None)] = f
                    elif f is not None:
                        extras.append(((a, None), f))
        elif api == "single":
            for a, b in want:
                try:
                    blocks[(a, b)] = ufl.extract_blocks(F, a, b, replace_argument=replaced)
                    ctx.count("calls")
                except RuntimeError as ex:
                    if flavour == "mfs" and "Cannot extract block" in str(ex):
                        ctx.count("mfs_block_index_beyond_used_parts")
                        blocks[(a, b)] = None
                    else:
                        raise
        else:  # rows of a bilinear form
            for a in range(n0):
                try:
                    r = ufl.extract_blocks(F, a, replace_argument=replaced)
                    ctx.count("calls")
                except RuntimeError as ex:
                    if flavour == "mfs" and "Cannot extract block" in str(ex):
                        ctx.count("mfs_block_index_beyond_used_parts")
                        r = [None] * n1
                    else:
                        raise
                if isinstance(r, Form):
                    rowforms[a] = r
                elif is_seq(r):
                    for b, f in enumerate(r):
                        if b < n1:
                            blocks[(a, b)] = f
                        elif f is not None:
                            extras.append(((a, b), f))
                elif r is None:
                    for b in range(n1):
                        blocks[(a, b)] = None
                else:
                    raise TypeError("row request returned " + type(r).__name__)
        for k, f in list(blocks.items()):
            if f is not None and not isinstance(f, Form):
                raise TypeError("block is " + type(f).__name__)
    except Exception as ex:
        ctx.count("extract_rejected")
        ctx.covered("extract_rejected_with", type(ex).__name__ + ": " + str(ex)[:70])
        return
    ctx.count("accepted")

    # ---- worlds
    try:
        wsets = [WorldSet(rng, cell, gdim, cplx, itypes=tuple(sorted(itypes))) for _ in range(3)]
    except oracle.Unsupported:
        ctx.count("world_unsupported")
        return
    wt = weights_for(F)
    all_on = tuple(None for _ in model.sides)
    results = []     # verdict strings of all checks of this case
    nonzero_seen = False
    missing_reported = False

    def run(fin, fout, label):
        """Three-valued verdict of `fin == fout` over the world sets; run.size = largest |reference value| seen."""
        seen = [0.0]

        def fin2(ws, B):
            r = fin(ws, B)
            if B is oracle.CB:
                try:
                    seen.append(abs(complex(r.arr)))
                except Exception:
                    pass
            return r

        vs = [oracle.compare_once(fin2, fout, ws) for ws in wsets[:2]]
        if oracle.decide(vs) == "inconclusive":
            vs.append(oracle.compare_once(fin2, fout, wsets[2]))
        run.size = max(seen)
        count_verdicts(ctx, vs)
        for x in vs:
            if x.kind in ("inconclusive", "skipped", "input-structure", "input-ambiguous") and x.why:
                ctx.covered("undecided_samples_why", label + ": " + x.kind + ": " + str(x.why)[:90])
        kinds = [v.kind for v in vs]
        if any(k in ("input-structure", "input-ambiguous") for k in kinds):
            return "skipped", vs
        v = oracle.decide(vs)
        if "output-ambiguous" in kinds and v != "violated":
            v = "violated"
        return v, vs

    def bad_of(vs):
        return next((x for x in vs if x.kind in ("disagree", "output-ambiguous")), None)

    def only_of(idx):
        return tuple(k if k is not None else None for k in idx) if arity == 2 else (idx[0],)

    def reference(idx):
        sub = model.subst_original(only_of(idx))
        return lambda ws, B: phi_w(F, ws, B, sub, wt)

    def block_value(f, idx):
        sub = model.subst_block(idx, replaced)
        return lambda ws, B: phi_w(f, ws, B, sub, wt)

    # ---- D1: all blocks of a LINEAR form returned as a matrix (every block repeated once per column)
    if nested_rank1 is not None:
        forms = [(k, f) for k, row in enumerate(nested_rank1) for f in (row if is_seq(row) else [row]) if f is not None]

        def fout_nested(ws, B):
            return oracle_sum(B, [block_value(f, (k, None))(ws, B) for k, f in forms])

        v, vs = run(lambda ws, B: phi_w(F, ws, B, model.subst_original(all_on), wt), fout_nested, "nested")
        ctx.count("nested_rank1_results")
        if v == "violated":
            b = bad_of(vs)
            ctx.violation(f"{tag}/all/rank1/blocks-returned-as-matrix-with-repeated-columns",
                          f"extract_blocks(L) of a linear form returned a nested {len(nested_rank1)}x{len(nested_rank1[0]) if is_seq(nested_rank1[0]) else '?'} tuple whose "
                          f"entries do not sum to the value of L (rel. err {b.err}); a sequence of {n0} blocks was expected",
                          dict(detail0, returned=[[None if f is None else safe_str(f, 120) for f in (row if is_seq(row) else [row])] for row in nested_rank1]))

    # ---- (C) arguments of every returned block
    for idx, f in sorted(blocks.items(), key=lambda kv: repr(kv[0])):
        if f is None or f.empty():
            continue
        ctx.count("args_checked")
        exact = True
        present = list(f.arguments())
        for a in present:
            side = model.sides[a.number()] if isinstance(a, Argument) and a.number() < len(model.sides) else None
            k = idx[a.number()] if side is not None else None
            if side is None or k is None or not arg_matches(a, side, k, flavour, replaced, base.mesh):
                exact = False
                ctx.violation(f"{tag}/{rtag}/foreign-argument-in-block",
                              f"block {idx} contains {describe_arg(a)}, which is not the argument of sub-space {k} of argument number {getattr(a, 'number', lambda: '?')()}",
                              dict(detail0, block=safe_str(f, 600)))
                results.append("violated")
        if exact and len(present) == arity:
            ctx.count("args_exact")

    # ---- (A) value of every block / zero restriction for absent blocks
    for idx in want:
        if idx[0] in rowforms:
            continue
        if idx not in blocks:
            blocks[idx] = None
            ctx.count("blocks_outside_returned_container")
            outside = True
        else:
            outside = False
        f = blocks[idx]
        ctx.count("blocks_checked")
        if f is None or f.empty():
            v, vs = run(reference(idx), lambda ws, B: zero_result(B), "zero")
            if v == "held":
                ctx.count("zero_blocks_held")
            elif v == "violated":
                b = bad_of(vs)
                if outside:
                    missing_reported = True
                    key = f"{tag}/{api}/block-missing-from-returned-tuple"
                else:
                    key = f"{tag}/{api}/{rtag}/absent-block-but-form-couples-these-subfunctions"
                ctx.violation(key,
                              f"block {idx} is {'not in the returned tuple' if outside else 'None/empty'}, but the form restricted to test sub-function {idx[0]}"
                              f"{'' if idx[1] is None else ' and trial sub-function ' + str(idx[1])} has a non-zero value ({b.why}, rel. err {b.err})",
                              detail0)
            results.append(v)
            continue
        v, vs = run(reference(idx), block_value(f, idx), "block")
        if v == "held":
            ctx.count("blocks_held")
            if run.size > 1e-9:
                nonzero_seen = True
                ctx.count("nonzero_blocks_held")
        elif v == "violated":
            b = bad_of(vs)
            ctx.violation(f"{tag}/{rtag}/block-value",
                          f"block {idx} differs from the form restricted to test sub-function {idx[0]}"
                          f"{'' if idx[1] is None else ' / trial sub-function ' + str(idx[1])} ({b.why}, rel. err {b.err})",
                          dict(detail0, block=safe_str(f, 900), world=wsets[0].describe()))
        results.append(v)

    # ---- rows returned as one form
    for a, f in sorted(rowforms.items()):
        ctx.count("rowforms_checked")
        sub_ref = model.subst_original((a, None))
        fin = lambda ws, B, s=sub_ref: phi_w(F, ws, B, s, wt)
        subs_row = model.subst_block((a, None), replaced)
        fout = lambda ws, B, f=f, s=subs_row: phi_w(f, ws, B, s, wt)
        v, vs = run(fin, fout, "row")
        if v == "held":
            ctx.count("rowforms_held")
        elif v == "violated":
            b = bad_of(vs)
            is_zero = f.empty()
            if not is_zero:
                vz, _ = run(lambda ws, B: zero_result(B), fout, "rowzero")
                is_zero = vz == "held"
            cause = "row-request-returns-zero-form" if is_zero else "row-value"
            ctx.violation(f"{tag}/row/{cause}",
                          f"extract_blocks(a, {a}) returned {'an EMPTY form' if f.empty() else ('a form of value zero' if is_zero else 'a form')} "
                          f"whose value differs from row {a} of the bilinear form ({b.why}, rel. err {b.err})",
                          dict(detail0, returned=safe_str(f, 600)))
        results.append(v)

    # ---- forms at positions that do not exist must be zero
    for idx, f in extras:
        ctx.count("extra_positions_checked")
        v, vs = run(lambda ws, B: zero_result(B), block_value(f, idx), "extra")
        if v == "violated":
            ctx.violation(f"{tag}/{api}/non-zero-block-at-non-existent-position", f"a non-zero form was returned at position {idx} (only {n0} x {n1} sub-spaces)", detail0)
        results.append(v)

    # ---- (B) the blocks sum to the form
    if not rowforms:
        present = [(idx, f) for idx, f in sorted(blocks.items(), key=lambda kv: repr(kv[0])) if f is not None and not f.empty()] + extras
        sub_all = model.subst_original(all_on)

        def fout_sum(ws, B):
            return oracle_sum(B, [block_value(f, idx)(ws, B) for idx, f in present])

        v, vs = run(lambda ws, B: phi_w(F, ws, B, sub_all, wt), fout_sum, "sum")
        ctx.count("sum_checked")
        if v == "held":
            ctx.count("sum_held")
        elif v == "violated" and missing_reported:
            ctx.count("sum_mismatch_explained_by_missing_blocks")
        elif v == "violated":
            b = bad_of(vs)
            ctx.violation(f"{tag}/{api}/{rtag}/sum-of-blocks",
                          f"the values of the returned blocks do not sum to the value of the form ({b.why}, rel. err {b.err})", detail0)
        results.append(v)

    # ---- case verdict
    if "violated" in results:
        ctx.count("case_violated")
    elif results and all(v == "held" for v in results):
        ctx.count("case_held")
        ctx.covered("flavours_held", flavour)
        ctx.covered("apis_held", api)
        ctx.covered("replace_modes_held", str(replaced))
        ctx.covered("ranks_held", str(arity))
        ctx.covered("modes_held", "complex" if cplx else "real")
        ctx.covered("styles_held", style)
        ctx.covered("templates_held", template + "/" + prep)
        ctx.covered("patterns_held", pattern)
        for nm in test.names + (trial.names if trial else []):
            ctx.covered("sub_elements_held", nm)
        for it in itypes:
            ctx.covered("itypes_held", it)
        if rect:
            ctx.count("rectangular_held")
        if nonzero_seen:
            ctx.count("nontrivial")
            ctx.add_distinct((fl, tuple(test.names), tuple(trial.names) if trial else None, arity, pattern, style, api, replaced, tuple(sorted(itypes)), cplx, template, prep))
        ctx.sample({"flavour": fl, "test_subs": test.names, "trial_subs": trial.names if trial else None, "cell": [cell, gdim], "complex": cplx, "api": api,
                    "replace_argument": replaced, "pattern": pattern, "blocks": {str(k): (None if f is None else safe_str(f, 100)) for k, f in list(blocks.items())[:4]},
                    "form": safe_str(F, 300)})
    else:
        ctx.count("case_undecided")


def oracle_sum(B, rs):
    tot = B.zeros(())
    flags = set()
    mx = 0.0
    for r in rs:
        tot = tot + r.arr
        flags |= r.flags
        mx = max(mx, r.maxabs)
    return Result(tot, 0, (), flags, mx)
