"""C10 - index rewriting passes are value-preserving and hygienic.

Events: expand_indices(e), remove_component_tensors(e), renumber_indices(e) on expressions in index
notation that re-use the same Index objects in sibling and nested summation / component-tensor
scopes, contain variables indexed with several different components, zero tensors with free
indices and component tensors nested three deep.
Oracle: same declared shape and free indices; value of the output equals the value of the input
(reference interpreter, several random worlds, 50-digit confirmation); renumber_indices must in
addition be a pure alpha-renaming (canon with indices numbered by first occurrence is unchanged).
"""

import ufl
from ufl import as_tensor, as_vector
from ufl.algorithms import expand_derivatives, expand_indices
from ufl.algorithms.remove_component_tensors import remove_component_tensors
from ufl.algorithms.renumbering import renumber_indices

from .. import oracle
from ..canon import canon
from ..gen import Gen, Universe
from ..passcheck import check_pass, node_classes, skeleton

LEVEL = "exploration"
ENGINE = "seval"
TECHNIQUE = "differential runtime monitoring of expand_indices / remove_component_tensors / renumber_indices against the reference interpreter on hostile index-reuse workloads"
LEVEL_TEXT = (
    "The three real passes are run on generated index-notation expressions that deliberately re-use Index objects across "
    "scopes, index tensor-valued variables several times, and nest component tensors; value, shape and free indices of "
    "output and input are compared in an independent interpreter at random points (50-digit confirmation); "
    "renumber_indices is additionally checked to be an alpha-renaming."
)
LEVEL_NOTE = "trusted: vf/seval.py index semantics (labelled axes), vf/canon.py; bounds: rank<=3, dims<=3, depth<=4, index pool of 4 objects"
RULE = (
    "case i = (pass, hostile template or generated expression, cell, real/complex); distinct = (pass, skeleton depth 3, cell); "
    "non-trivial = the input contains IndexSum/ComponentTensor/Indexed with free indices and the pass changed it"
)
ASSUMPTIONS = ["expand_indices is applied to scalar, free-index-free expressions after expand_derivatives (its documented precondition)"]
BUDGET = {"quick": 50, "thorough": 450}
NCASES = {"quick": 3000, "thorough": 60000}
FLOORS = {'quick': {'case_held': 400, 'nontrivial': 250}, 'thorough': {'case_held': 9000, 'nontrivial': 5000, 'suite:expand_indices:held': 30, 'suite:renumber_indices:held': 200}}
COVER_FLOORS = {"quick": {"passes_held": ["expand_indices", "remove_component_tensors", "renumber_indices"]}, "thorough": {"passes_held": ["expand_indices", "remove_component_tensors", "renumber_indices"]}}
CELLS = [("interval", 1), ("triangle", 2), ("triangle", 2), ("tetrahedron", 3)]
PASSES = ["expand_indices", "remove_component_tensors", "renumber_indices"]
TEMPLATES = ["shadow-ct", "variable-components", "nested-variables", "twin-label-variables", "zero-free", "zero-free-rect", "ct3", "sibling-reuse", "capture", "gen", "gen", "gen"]


def hostile(rng, U, G, name):
    i, j, k, l = U.idx  # noqa: E741
    n = rng.choice([2, 3])
    A = G.expr((n, n), 1)
    Bm = G.expr((n, n), 1)
    w = G.expr((n,), 1)
    u = G.expr((n,), 1)
    if name == "shadow-ct":
        T = as_tensor(A[i, j] * w[j], (i,))
        return T[j] * u[j] + T[i] * u[i]
    if name == "capture":
        T = as_tensor(A[i, j] * w[j], (i,))
        S2 = as_tensor(T[j] * Bm[j, k], (k,))
        return S2[i] * u[i] + T[j] * w[j]
    if name == "variable-components":
        v = ufl.variable(as_vector([G.expr((), 1) for _ in range(n)]))
        m = ufl.variable(A)
        return v[0] + 2 * v[n - 1] * v[0] + m[0, n - 1] * m[n - 1, 0] + v[i] * w[i] + m[i, j] * Bm[j, i]
    if name == "nested-variables":
        v = ufl.variable(w)
        v2 = ufl.variable(v[0] * u + v)
        return v2[0] * v2[n - 1] + v[n - 1] * v2[i] * v[i]
    if name == "twin-label-variables":
        # replace() (like every map_expr_dag based pass) rebuilds Variable(e', label) with the ORIGINAL label: afterwards two
        # variables with one label and different operands live in one expression (psi(u) - psi(u_old) of a time stepper)
        from ufl.algorithms import replace

        names = [nm for nm in sorted(U.spaces) if tuple(U.spaces[nm].value_shape) == (n,) and U.spaces[nm].ufl_element().pullback.is_identity]
        if not names:
            raise ValueError("no vector space of this size")
        nm = rng.choice(names)
        f, f_old = U.coef(nm, 0), U.coef(nm, 1)
        F = ufl.variable(f + w if rng.random() < 0.5 else as_vector([f[q] * (q + 2) for q in range(n)]))
        psi = F[i] * F[i] + F[0] * F[n - 1] + A[i, j] * F[i] * u[j]
        psi_old = replace(psi, {f: f_old})
        return rng.choice([lambda: psi - psi_old, lambda: psi * psi_old + psi_old, lambda: 0.5 * (psi + psi_old) * F[0]])()
    if name == "zero-free":
        z = 0 * A[i, j]
        T = as_tensor(z + A[i, j], (j, i))
        Z2 = as_tensor(0 * w[i] * u[j], (i, j))
        return (T[i, j] + Z2[i, j]) * Bm[i, j] + as_tensor(z, (i, j))[j, i] * Bm[i, j]
    if name == "zero-free-rect":
        # zeros that keep two free indices of DIFFERENT extents (inside conditional branches), bound in both orders
        m = 5 - n  # 2 <-> 3
        a, b = G.expr((n,), 1), G.expr((m,), 1)
        R = G.expr((m, n), 1)
        c1, c2 = G.expr((), 0), G.expr((), 1)
        Z = ufl.conditional(ufl.lt(c1, c2), 0 * a[i] * b[j], a[i] * b[j])
        Z2 = ufl.conditional(ufl.gt(c1, c2), a[j] * b[i], 0 * (a[j] * b[i]))
        T = as_tensor(Z, (j, i))
        T2 = as_tensor(Z2, (i, j))
        return T[k, l] * R[k, l] + T2[i, j] * R[i, j] + as_tensor(0 * b[i] * a[j], (i, j))[k, l] * R[k, l]
    if name == "ct3":
        T1 = as_tensor(A[i, j] * Bm[j, k], (i, k))
        T2 = as_tensor(T1[k, i] * w[i], (k,))
        T3 = as_tensor(T2[i] * u[j] + T1[i, j], (j, i))
        return T3[i, j] * A[i, j] + T3[k, k]
    if name == "sibling-reuse":
        return (A[i, j] * Bm[i, j]) * (w[i] * u[i]) + (A[i, i] + Bm[j, j]) * (w[j] * w[j])
    raise ValueError(name)


def has_index_structure(e):
    c = node_classes(e)
    return bool(c & {"IndexSum", "ComponentTensor"})


def case(ctx, i, rng):
    cell, gdim = rng.choice(CELLS)
    cplx = rng.random() < 0.2
    U = Universe(rng, cell, gdim, "cell", cplx)
    G = Gen(U, rng, cplx=cplx, deriv=rng.choice([0, 0, 1]), cond=rng.random() < 0.3, math=rng.random() < 0.5, geom=False)
    template = TEMPLATES[i % len(TEMPLATES)] if rng.random() < 0.8 else rng.choice(TEMPLATES)
    pname = PASSES[(i // len(TEMPLATES)) % 3] if rng.random() < 0.8 else rng.choice(PASSES)
    try:
        if template == "gen":
            e = G.expr((), rng.choice([2, 3, 3, 4]))
        else:
            e = hostile(rng, U, G, template)
            if rng.random() < 0.4:
                e = e * G.expr((), 1) + G.expr((), 2)
        pre = expand_derivatives(e)
    except Exception as ex:
        ctx.count("build_rejected")
        ctx.covered("build_rejected_with", type(ex).__name__ + ":" + template)
        return
    fn = {"expand_indices": expand_indices, "remove_component_tensors": remove_component_tensors, "renumber_indices": renumber_indices}[pname]
    worlds = oracle.worlds_for(rng, cell, gdim, "cell", cplx, n=3)
    verdict, out = check_pass(ctx, "C10", pname, pre, fn, worlds)
    if verdict == "held":
        ctx.covered("passes_held", pname)
        ctx.covered("templates_held", template)
        changed = out is not pre
        if has_index_structure(pre) and changed:
            ctx.count("nontrivial")
            ctx.add_distinct((pname, skeleton(pre, 3), cell))
        ctx.sample({"pass": pname, "template": template, "cell": [cell, gdim], "input": str(pre)[:260]})
        if pname == "renumber_indices":
            ctx.count("alpha_checks")
            if canon(out, "rel") != canon(pre, "rel"):
                ctx.violation("C10/renumber_indices/not-an-alpha-renaming", "canon with indices numbered by first occurrence changed", {"input": str(pre)[:600], "output": str(out)[:600]})
        if pname == "expand_indices":
            left = node_classes(out) & {"IndexSum", "ComponentTensor"}
            if left or any(True for _ in _free_index_nodes(out)):
                ctx.violation("C10/expand_indices/free-indices-left", f"output still contains {sorted(left)} or free indices", {"input": str(pre)[:600]})
        if pname == "remove_component_tensors":
            pass


def _free_index_nodes(e):
    seen = set()
    stack = [e]
    while stack:
        o = stack.pop()
        if id(o) in seen:
            continue
        seen.add(id(o))
        if type(o).__name__ in ("MultiIndex", "Label"):
            continue
        if getattr(o, "ufl_free_indices", ()):
            yield o
        stack.extend(o.ufl_operands)


# ---- additional workload (thorough tier): the repository's own test-suite with this property's passes monitored
EXTRA_JOBS = {"thorough": ["suite"]}
SUITE_TARGETS = ['remove_component_tensors', 'expand_indices', 'renumber_indices']


def extra_suite(ctx):
    """Every call the repository's tests make to the monitored passes is judged by the same value oracle (vf/suitemon.py)."""
    from ..suite_driver import run_suite

    run_suite(ctx, SUITE_TARGETS, "C10")
