"""C14 - the arity check accepts exactly multilinear integrands.

Events: normal returns of the real `check_integrand_arity` / `check_form_arity`
  (direct)             called on generated integrands with the form's arguments, real and complex mode;
  (compute_form_data)  the calls made by FormData (recorded by a wrapper around the name
                       `ufl.algorithms.formdata.check_integrand_arity`) on the preprocessed integrands while
                       `compute_form_data(form, ...)` runs with random options.
Oracle (only for accepted integrands I with arguments A; a raise is 'rejected', never a violation):
  (3) the Arguments occurring in I are exactly A;
  for every argument number n (all parts of a number together), in 2-3 random worlds, 50-digit confirmation:
  (1) I[a_n := 0] = 0;
  (2) I[a_n := alpha*p + beta*q] = alpha' I[a_n := p] + beta' I[a_n := q]   for fresh fields p, q and random alpha, beta
      (alpha' = conj(alpha) for the test function n = 0 in complex mode, alpha otherwise; real alpha, beta in real mode).
The converse (every multilinear integrand is accepted) is not claimed and not asserted; it is counted only.
"""

import copy

import numpy as np
import ufl
import ufl.algorithms.formdata as _formdata
from ufl.algorithms import compute_form_data
from ufl.algorithms.check_arities import ArityChecker, ArityMismatch, check_form_arity, check_integrand_arity
from ufl.corealg.map_dag import map_expr_dag

from .. import c14_work as W
from .. import oracle
from ..gen import Gen, Universe
from ..passcheck import node_classes, safe_str, skeleton
from ..seval import CB, S, Result
from ..world import Unsupported, World

LEVEL = "exploration"
ENGINE = "seval"
TECHNIQUE = (
    "runtime monitoring of check_integrand_arity (direct calls and the calls made inside compute_form_data): every accepted "
    "integrand is tested for homogeneity, additivity (conjugate-linearity in the test function) per argument and for its "
    "argument set by substituting fields in an independent interpreter"
)
LEVEL_TEXT = (
    "The real arity checker is run on generated integrands (multilinear by construction, hostile templates that put arguments "
    "into list tensors, conditionals, conjugation, division, powers, variables, derivatives, restrictions, and random "
    "expressions with arguments as ordinary leaves) directly and through compute_form_data with random options, in real and "
    "complex mode; each accepted integrand is evaluated by an independent interpreter at random points of random cells with the "
    "argument replaced by 0 and by random linear combinations of fresh fields (mismatches confirmed with 50 digits).  "
    "Exploration over generated cases."
)
LEVEL_NOTE = (
    "trusted: vf/seval.py, vf/world.py (fields substituted through world.subst, or through the world's field table when the "
    "integrand contains ReferenceValue); affine simplex cells, degree<=3, single mesh; cell_avg/facet_avg not evaluable (skipped)"
)
RULE = (
    "case i = (workload kind, template or generator recipe, cell, integral type, real/complex, compute_form_data options); "
    "distinct = (event, template name or skeleton depth 2 of the accepted integrand, cell, integral type, mode); non-trivial = "
    "the checker accepted, the integrand contains arguments, its value is non-zero in a world and all tests were decided"
)
ASSUMPTIONS = [
    "arguments with the same number and different parts are one argument of a block system: they are substituted together",
    "real mode: real fields and real alpha, beta (conj/real/imag are the identity on real data)",
    "complex mode: antilinear in argument number 0, linear in every other argument",
    "the events inside compute_form_data are observed by rebinding the name check_integrand_arity in ufl.algorithms.formdata",
]
BUDGET = {"quick": 32, "thorough": 400}
NCASES = {"quick": 2400, "thorough": 30000}
CASE_TIMEOUT = 30.0
EVAL_COUNTER = "events"
# floors: about 35% of what a complete run on a quiet machine observes (the machine is shared, runs may be time-truncated)
FLOORS = {
    "quick": {"accepted_held": 600, "direct_accepted_held": 290, "cfd_accepted_held": 310, "nontrivial": 560, "lin_tests": 900,
              "rejected": 670, "complex_accepted_held": 270, "hostile_accepted_held": 400},
    "thorough": {"accepted_held": 7600, "direct_accepted_held": 3600, "cfd_accepted_held": 3900, "nontrivial": 7000, "lin_tests": 11300,
                 "rejected": 8400, "complex_accepted_held": 3400, "hostile_accepted_held": 5000},
}
_COVER = {"events_held": ["direct", "compute_form_data"], "itypes_held": ["cell", "exterior_facet", "interior_facet"],
          "kinds_held": ["valid", "template", "mutate", "anywhere"],
          "templates_rejected": ["alg:sum-affine", "alg:square", "alg:div-by-arg", "alg:math", "cond:cond-affine", "alg:sum-test-plus-trial"]}
COVER_FLOORS = {"quick": _COVER, "thorough": _COVER}
CELLS = [("interval", 1), ("triangle", 2), ("triangle", 2), ("triangle", 3), ("tetrahedron", 3)]
KINDS = ["template", "valid", "template", "mutate", "template", "anywhere", "template", "valid", "mutate", "anywhere"]

# ------------------------------------------------------------------------------------ event recorder

RECORD = []
_REAL_CHECK = check_integrand_arity


def _recording_check(expr, arguments, complex_mode=False):
    try:
        r = _REAL_CHECK(expr, arguments, complex_mode)
    except BaseException as ex:
        RECORD.append(("raised", expr, tuple(arguments), bool(complex_mode), type(ex).__name__ + ": " + str(ex)[:50]))
        raise
    RECORD.append(("returned", expr, tuple(arguments), bool(complex_mode), None))
    return r


def setup(ctx):
    if _formdata.check_integrand_arity is not _recording_check:
        _formdata.check_integrand_arity = _recording_check


# ------------------------------------------------------------------------------------ small tree helpers


def arguments_in(e):
    seen, out, stack = set(), [], [e]
    while stack:
        o = stack.pop()
        if id(o) in seen:
            continue
        seen.add(id(o))
        if type(o).__name__ == "Argument":
            if o not in out:
                out.append(o)
        stack.extend(o.ufl_operands)
    return out


def _has_symbolic_exponent(e):
    seen, stack = set(), [e]
    while stack:
        o = stack.pop()
        if id(o) in seen:
            continue
        seen.add(id(o))
        if type(o).__name__ == "Power" and type(o.ufl_operands[1]).__name__ not in ("IntValue", "FloatValue", "ComplexValue", "Zero"):
            return True
        stack.extend(o.ufl_operands)
    return False


_SKIP_NODES = ("MultiIndex", "Label", "ExprList", "ExprMapping", "EQ", "NE", "LT", "GT", "LE", "GE", "AndCondition", "OrCondition", "NotCondition")


def subexpressions_with_side(e):
    """(node, side of the enclosing restriction or None), smallest sub-trees first."""
    size = {}
    side_of = {}
    order = []

    def walk(o, side):
        if id(o) in size:
            return size[id(o)]
        if type(o).__name__ in ("PositiveRestricted", "NegativeRestricted"):
            inner_side = o._side
        else:
            inner_side = side
        n = 1
        for c in o.ufl_operands:
            n += walk(c, inner_side)
        size[id(o)] = n
        side_of[id(o)] = side
        order.append((n, len(order), o))
        return n

    walk(e, None)
    order.sort(key=lambda t: (t[0], t[1]))
    return [(o, side_of[id(o)]) for n, k, o in order if type(o).__name__ not in _SKIP_NODES]


# ------------------------------------------------------------------------------------ substitution


def _combine(terms, template):
    out = copy.copy(template)
    coef = np.zeros_like(template.coef)
    for c, F in terms:
        coef = coef + complex(c) * F.coef
    out.coef = coef
    out._bc = {}
    return out


def ev(I, w, B, assign, mode, side=None):
    """Value of I in world w with every argument a of `assign` evaluating as sum(c*t for c, t in assign[a]).

    mode 'subst': world.subst (seval._substituted).  mode 'field': the world's field table of `a` is replaced by the
    combination of the tables of the t's (needed under ReferenceValue, which reads the table directly); dyadic scalars
    and coefficients keep this exact in double precision."""
    if mode == "subst":
        old = w.subst
        w.subst = {a: ("lin", list(combo)) for a, combo in assign.items()}
        try:
            return S(I, w, B, side=side)
        finally:
            w.subst = old
    saved_f, saved_q = {}, {}
    try:
        for a, combo in assign.items():
            ra = w.resolve(a)
            for s in list(w.sides):
                own = w.field(a, s)
                saved_f[(ra, s)] = own
                w.fields[(ra, s)] = _combine([(c, w.field(t, s)) for c, t in combo], own)
            if w.two_sided:
                ownq = w.jump_field(a)
                saved_q[ra] = ownq
                w.qfields[ra] = _combine([(c, w.jump_field(t)) for c, t in combo], ownq)
        return S(I, w, B, side=side)
    finally:
        for k, v in saved_f.items():
            w.fields[k] = v
        for k, v in saved_q.items():
            w.qfields[k] = v


def _dyadic_scalar(rng, cplx):
    re = rng.choice([-6, -5, -3, -2, -1, 1, 2, 3, 5, 6, 7]) / 4
    if not cplx:
        return re
    im = rng.choice([-5, -3, -2, -1, 1, 2, 3, 5]) / 4
    return complex(re, im)


class GroupTest:
    """Homogeneity and (conjugate-)additivity of expression e in the arguments `members` (one argument number)."""

    def __init__(self, rng, e, members, cplx, mode, side=None):
        self.e, self.members, self.cplx, self.mode, self.side = e, list(members), cplx, mode, side
        self.p = {m: ufl.Coefficient(m.ufl_function_space()) for m in self.members}
        self.q = {m: ufl.Coefficient(m.ufl_function_space()) for m in self.members}
        self.alpha = _dyadic_scalar(rng, cplx)
        self.beta = _dyadic_scalar(rng, cplx)
        self.maxval = 0.0
        self._last = None

    def _ev(self, w, B, pairs_of):
        return ev(self.e, w, B, {m: pairs_of(m) for m in self.members}, self.mode, self.side)

    # (1) e[a := 0] = 0
    def zero_in(self, w, B):
        r = self._ev(w, B, lambda m: [])
        self._last = r
        return r

    def zero_out(self, w, B):
        r = self._last
        return Result(B.zeros(np.shape(r.arr)), r.rank, r.fi, set(), 0.0)

    # (2) e[a := alpha p + beta q] = alpha' e[p] + beta' e[q]
    def lin_in(self, w, B):
        return self._ev(w, B, lambda m: [(self.alpha, self.p[m]), (self.beta, self.q[m])])

    def lin_out(self, anti):
        def f(w, B):
            r1 = self._ev(w, B, lambda m: [(1, self.p[m])])
            r2 = self._ev(w, B, lambda m: [(1, self.q[m])])
            ca = self.alpha.conjugate() if anti else self.alpha
            cb = self.beta.conjugate() if anti else self.beta
            if B is CB:
                with np.errstate(all="ignore"):
                    m = float(np.max(np.abs(r1.arr), initial=0.0))
                if np.isfinite(m):
                    self.maxval = max(self.maxval, m)
            arr = r1.arr * B.scalar(ca) + r2.arr * B.scalar(cb)
            return Result(arr, r1.rank, r1.fi, set(r1.flags) | set(r2.flags), max(r1.maxabs, r2.maxabs))

        return f

    # does the value depend on the argument at all?  (compares e[p] with e[0])
    def dep_out(self, w, B):
        return self._ev(w, B, lambda m: [(1, self.p[m])])


def run_samples(fin, fout, worlds, stats=None):
    """Sample verdicts on up to len(worlds) worlds (stops as soon as the case is decided)."""
    vs = []
    for w in worlds:
        v = oracle.compare_once(fin, fout, w)
        if v.kind == "disagree" and v.why != "confirmed-at-50-digits":
            v = oracle.Verdict("skipped", v.err, "not-comparable: " + str(v.why))
        if v.kind in ("input-ambiguous", "input-structure", "output-ambiguous"):
            v = oracle.Verdict("skipped", v.err, "not-evaluable: " + v.kind)
        vs.append(v)
        kinds = [x.kind for x in vs]
        if "disagree" in kinds or kinds.count("agree") >= 2:
            break
    return oracle.decide(vs, 2), vs


def make_worlds(rng, cell, gdim, itype, cplx, n=3):
    return [World(rng, cell, gdim, itype, cplx, conforming=True) for _ in range(n)]


def _contradicted(fin, fout, worlds):
    """True when some world shows a 50-digit confirmed disagreement (used only to name the mechanism)."""
    for w in worlds:
        v = oracle.compare_once(fin, fout, w)
        if v.kind == "disagree" and v.why == "confirmed-at-50-digits":
            return True
    return False


def _node_name(sub, members):
    """Class name of the contradicting node; list tensors are split by what is wrong with their rows (two different
    mechanisms of the same handler must not share a key)."""
    name = type(sub).__name__
    if name != "ListTensor":
        return name
    rows = sub.ufl_operands
    nums = [frozenset(a.number() for a in arguments_in(r)) for r in rows]
    if any(not n and type(r).__name__ != "Zero" for n, r in zip(nums, rows)):
        return "ListTensor-argument-free-row"
    if len({n for n in nums if n}) > 1:
        return "ListTensor-rows-with-different-arguments"
    return "ListTensor-other"


def localise(rng, I, members, args, cplx, worlds, mode):
    """First in the world where the disagreement was seen, then (rare numeric coincidences) in the others."""
    name = _localise(rng, I, members, args, cplx, worlds[:1], mode)
    if name == "toplevel" and len(worlds) > 1:
        name = _localise(rng, I, members, args, cplx, worlds[1:], mode)
    return name


def _localise(rng, I, members, args, cplx, worlds, mode):
    """Class of the smallest sub-expression whose behaviour in `members` contradicts what the real ArityChecker
    says about it ('toplevel' when every node rule is consistent and only the final comparison is not)."""
    mem = set(members)
    for sub, side in subexpressions_with_side(I):
        if sub._ufl_is_terminal_:
            continue
        occ = arguments_in(sub)
        if not any(m in mem for m in occ):
            continue
        try:
            claim = map_expr_dag(ArityChecker(tuple(args)), sub, compress=False)
        except BaseException as ex:
            if isinstance(ex, (KeyboardInterrupt, SystemExit)) or type(ex).__name__ == "CaseTimeout":
                raise
            continue
        flags = {bool(c) for a, c in claim if a in mem}
        t = GroupTest(rng, sub, [m for m in members if m in occ], cplx, mode, side)
        try:
            if not flags:
                # the checker says `sub` does not depend on the argument: compare sub[a := p] with sub[a := 0]
                if _contradicted(t.zero_in, t.dep_out, worlds):
                    return _node_name(sub, members)
                continue
            if len(flags) > 1:
                continue
            anti = cplx and flags.pop()
            if _contradicted(t.zero_in, t.zero_out, worlds) or _contradicted(t.lin_in, t.lin_out(anti), worlds):
                return _node_name(sub, members)
        except Exception:
            continue
    return "toplevel"


def judge(ctx, rng, event, I, args, cplx, cell, gdim, itype, info):
    """Oracle for one accepted integrand.  Returns (verdict, nontrivial).  An exception inside the oracle is counted
    (never folded into held/violated); finish() breaks the run when that happens more than a handful of times."""
    try:
        return _judge(ctx, rng, event, I, args, cplx, cell, gdim, itype, info)
    except Exception as ex:
        if "C14 harness" in str(ex):
            raise
        ctx.count("oracle_error")
        ctx.covered("oracle_errors", type(ex).__name__ + ": " + str(ex)[:80])
        return "oracle_error", False


def finish(ctx):
    n = ctx.counters.get("oracle_error", 0)
    if n > max(3, 0.01 * ctx.counters.get("events", 0)):
        raise RuntimeError(f"C14 harness: {n} exceptions inside the oracle: {sorted(ctx.cover.get('oracle_errors', []))[:5]}")


def _judge(ctx, rng, event, I, args, cplx, cell, gdim, itype, info):
    args = tuple(args)
    occurring = arguments_in(I)
    ctx.count("argument_set_checks")
    if set(occurring) != set(args):
        ctx.violation(
            f"C14/{event}/arguments-differ",
            f"accepted although the integrand contains arguments {sorted(str(a) for a in occurring)} and the form has {sorted(str(a) for a in args)}",
            dict(info, integrand=safe_str(I, 1200)),
        )
        return "violated", False
    if not args:
        return "held_arity0", False
    classes = node_classes(I)
    mode = "field" if "ReferenceValue" in classes else "subst"
    ctx.count("mode_" + mode)
    try:
        worlds = make_worlds(rng, cell, gdim, itype, cplx)
    except Unsupported:
        ctx.count("world_unsupported")
        return "skipped", False
    groups = {}
    for a in sorted(set(args), key=lambda x: (x.number(), -1 if x.part() is None else x.part())):
        groups.setdefault(a.number(), []).append(a)
    verdicts = []
    nontrivial = False
    for number, members in sorted(groups.items()):
        t = GroupTest(rng, I, members, cplx, mode)
        anti = cplx and number == 0
        vz, sz = run_samples(t.zero_in, t.zero_out, worlds)
        ctx.count("zero_tests")
        if vz == "violated":
            vl, sl = "not-run", []  # already affine; the additivity test would only cost 50-digit evaluations
        else:
            vl, sl = run_samples(t.lin_in, t.lin_out(anti), worlds)
            ctx.count("lin_tests")
        for v in sz + sl:
            ctx.count("sample_" + v.kind)
            if v.kind in ("inconclusive", "skipped") and v.why:
                ctx.covered("undecided_reasons", " ".join(str(v.why).split()[:3])[:60])
        if t.maxval > 1e-7:
            nontrivial = True
        if mode == "subst" and vl == "held" and rng.random() < 0.06:
            # self-check of the two substitution mechanisms (harness consistency, not a property verdict)
            a1 = t.lin_in(worlds[0], CB).arr
            t.mode = "field"
            a2 = t.lin_in(worlds[0], CB).arr
            t.mode = mode
            ctx.count("selfcheck_field_vs_subst")
            if not np.allclose(np.asarray(a1, dtype=complex), np.asarray(a2, dtype=complex), rtol=1e-9, atol=1e-9):
                raise RuntimeError("C14 harness: world.subst and field-table substitution disagree on " + safe_str(I, 300))
        if "violated" in (vz, vl):
            if vz == "violated":
                failure = "affine"
                bad = next(x for x in sz if x.kind == "disagree")
                what = f"I[argument {number} := 0] != 0"
            else:
                bad = next(x for x in sl if x.kind == "disagree")
                failure = "nonlinear"
                what = f"I is not {'conjugate-' if anti else ''}linear in argument {number}"
                if cplx:
                    vo, _ = run_samples(t.lin_in, t.lin_out(not anti), worlds)
                    if vo == "held":
                        failure = "wrong-conjugation"
                        what = f"I is {'linear' if anti else 'conjugate-linear'} in argument {number}, must be {'conjugate-linear' if anti else 'linear'}"
            # name the mechanism in the world where the disagreement was seen
            where = sz if vz == "violated" else sl
            wbad = worlds[next(k for k, x in enumerate(where) if x.kind == "disagree")]
            try:
                culprit = localise(rng, I, members, args, cplx, [wbad] + [x for x in worlds if x is not wbad], mode)
            except Exception as ex:  # localisation is only for naming the mechanism
                culprit = "unlocalised"
                ctx.count("localise_error")
                ctx.covered("localise_errors", type(ex).__name__)
            ctx.violation(
                f"C14/{event}/{failure}/{culprit}",
                f"accepted integrand is not multilinear: {what} (rel. err {bad.err}, {bad.why}); smallest contradicting node: {culprit}",
                dict(info, integrand=safe_str(I, 1500), arguments=[str(a) for a in args], complex_mode=cplx, alpha=str(t.alpha), beta=str(t.beta),
                     world=wbad.describe()),
            )
            return "violated", nontrivial
        verdicts += [vz, vl]
    if all(v == "held" for v in verdicts):
        return "held", nontrivial
    if all(v == "skipped" for v in verdicts):
        return "skipped", nontrivial
    return "inconclusive", nontrivial


# ------------------------------------------------------------------------------------ workload


def build(rng, i):
    cell, gdim = rng.choice(CELLS)
    cplx = rng.random() < 0.45
    kind = KINDS[i % len(KINDS)] if rng.random() < 0.9 else rng.choice(KINDS)
    itype = rng.choice(["cell", "cell", "cell", "exterior_facet", "interior_facet", "interior_facet"])
    fam = name = None
    if kind == "template":
        fam, name = W.ALL_TEMPLATES[(i // 2) % len(W.ALL_TEMPLATES)] if rng.random() < 0.85 else rng.choice(W.ALL_TEMPLATES)
        if fam == "res":
            itype = "interior_facet"
        if fam == "cplx" and rng.random() < 0.6:
            cplx = True
    U = Universe(rng, cell, gdim, itype, cplx)
    G = Gen(U, rng, cplx=cplx, deriv=rng.choice([0, 1, 1, 2]), cond=rng.random() < 0.4, math=rng.random() < 0.5, geom=rng.random() < 0.4)
    b = W.Box(rng, U, G, cplx, proper_conj=rng.random() < 0.8)
    if kind == "template":
        I, args, label = W.build_template(b, fam, name)
        desc = f"{fam}:{name}"
    elif kind == "valid":
        arity = rng.choice([0, 1, 1, 2, 2, 2, 3])
        if rng.random() < 0.25:
            # the shared generator (not conjugation-aware in complex mode)
            I, args = G.integrand(min(arity, 2), depth=rng.choice([1, 2]))
            args = tuple(args)
            label = "ok" if not cplx else None
            desc = "valid:gen"
        else:
            I, args = W.valid_integrand(b, arity, rng.choice([0, 1, 2]))
            label = "ok"
            desc = f"valid:arity{arity}"
    elif kind == "mutate":
        arity = rng.choice([1, 1, 2, 2, 0])
        I0, args = W.valid_integrand(b, arity, rng.choice([0, 1]))
        m = rng.choice(W.MUTATIONS)
        I, label = W.mutate(b, I0, args, m)
        if rng.random() < 0.3:
            m2 = rng.choice(W.MUTATIONS)
            I, l2 = W.mutate(b, I, args, m2)
            label = None if None in (label, l2) else ("bad" if "bad" in (label, l2) else "ok")
            m = m + "+" + m2
        desc = "mutate:" + m
    else:
        for _ in range(4):
            e, offered = W.anywhere(b, rng.choice([1, 2, 2, 3]))
            occ = arguments_in(e)
            if occ:
                break
        r = rng.random()
        if r < 0.75:
            args = tuple(sorted(occ, key=lambda a: (a.number(), str(a.part()))))
        else:
            args = tuple(offered)
        I, label = e, None
        desc = "anywhere"
    I = ufl.as_ufl(I)
    if I.ufl_shape or I.ufl_free_indices:
        raise ValueError("integrand is not a scalar")
    return dict(cell=cell, gdim=gdim, cplx=cplx, kind=kind, itype=itype, U=U, G=G, b=b, I=I, args=tuple(args), label=label, desc=desc)


def cfd_options(rng, cplx):
    o = {
        "do_apply_function_pullbacks": rng.random() < 0.5,
        "do_apply_geometry_lowering": rng.random() < 0.3,
        "do_apply_integral_scaling": rng.random() < 0.3,
        "do_estimate_degrees": rng.random() < 0.5,
        "do_remove_component_tensors": rng.random() < 0.3,
        "do_replace_functions": rng.random() < 0.3,
        "complex_mode": cplx,
    }
    # the remaining documented switches: whatever they are set to, a form that is not multilinear must not come back
    if rng.random() < 0.3:
        o["do_apply_restrictions"] = rng.random() < 0.5
    if rng.random() < 0.3:
        o["do_apply_default_restrictions"] = rng.random() < 0.5
    if rng.random() < 0.2:
        o["do_append_everywhere_integrals"] = rng.random() < 0.5
    return o


def _note_outcome(ctx, c, event, accepted, label):
    if label == "ok":
        ctx.count(f"{event}_multilinear_by_construction")
        if not accepted:
            ctx.count(f"{event}_multilinear_by_construction_rejected")  # information only: the converse is not claimed
    elif label == "bad":
        ctx.count(f"{event}_not_multilinear_by_construction")
        if accepted:
            ctx.count(f"{event}_not_multilinear_by_construction_accepted")


def _after_judgement(ctx, c, event, verdict, nontrivial, I, hostile):
    ctx.count(f"accepted_{verdict}")
    ctx.count(f"{'direct' if event == 'direct' else 'cfd'}_accepted_{verdict}")
    if verdict == "held":
        ctx.covered("events_held", event)
        ctx.covered("itypes_held", c["itype"])
        ctx.covered("kinds_held", c["kind"])
        if c["kind"] == "template":
            ctx.covered("templates_accepted_held", c["desc"])
        if c["cplx"]:
            ctx.count("complex_accepted_held")
        if hostile:
            ctx.count("hostile_accepted_held")
        for n in node_classes(I):
            ctx.covered("node_classes_in_accepted", n)
        if nontrivial:
            ctx.count("nontrivial")
            key = c["desc"] if c["kind"] == "template" else skeleton(I, 2)
            ctx.add_distinct((event, key, c["cell"], c["gdim"], c["itype"], c["cplx"]))
            ctx.sample({"event": event, "workload": c["desc"], "cell": [c["cell"], c["gdim"]], "integral_type": c["itype"], "complex": c["cplx"],
                        "arguments": [str(a) for a in c["args"]], "accepted_integrand": safe_str(I, 260), "verdict": "multilinear"}, limit=3)


def case(ctx, i, rng):
    try:
        c = build(rng, i)
    except BaseException as ex:
        if isinstance(ex, (KeyboardInterrupt, SystemExit)) or type(ex).__name__ == "CaseTimeout":
            raise
        ctx.count("build_rejected")
        ctx.covered("build_rejected_with", type(ex).__name__)
        return
    I, args, cplx, label = c["I"], c["args"], c["cplx"], c["label"]
    hostile = c["kind"] in ("template", "mutate", "anywhere")
    info = {"workload": c["desc"], "cell": [c["cell"], c["gdim"]], "integral_type": c["itype"]}
    ctx.count("built_" + c["kind"])

    # ---------------- event 1: direct call
    use_form_api = rng.random() < 0.3
    ctx.count("events")
    ctx.count("direct_events")
    accepted = False
    try:
        if use_form_api:
            check_form_arity(I * c["U"].measure(), args, cplx)
        else:
            check_integrand_arity(I, args, cplx)
        accepted = True
    except ArityMismatch as ex:
        ctx.count("rejected")
        ctx.count("direct_rejected")
        ctx.covered("rejection_reasons", str(ex)[:34])
        if c["kind"] == "template":
            ctx.covered("templates_rejected", c["desc"])
        ctx.sample({"event": "direct", "workload": c["desc"], "complex": cplx, "integrand": safe_str(I, 200), "rejected_with": str(ex)[:120]}, limit=5)
    except Exception as ex:
        ctx.count("direct_raised_other")
        ctx.covered("direct_raised_other", type(ex).__name__)
    _note_outcome(ctx, c, "direct", accepted, label)
    if accepted:
        ctx.count("direct_accepted")
        verdict, nontrivial = judge(ctx, rng, "direct", I, args, cplx, c["cell"], c["gdim"], c["itype"], dict(info, api="check_form_arity" if use_form_api else "check_integrand_arity"))
        _after_judgement(ctx, c, "direct", verdict, nontrivial, I, hostile)

    # ---------------- event 1b: the same integrand object checked again in the OTHER mode (the verdict of one mode
    # must not leak into the other: a history of calls, not a single call)
    if rng.random() < 0.35:
        ctx.count("events")
        ctx.count("other_mode_events")
        accepted2 = False
        try:
            check_integrand_arity(I, args, not cplx)
            accepted2 = True
        except ArityMismatch:
            ctx.count("rejected")
            ctx.count("other_mode_rejected")
        except Exception as ex:
            ctx.covered("direct_raised_other", type(ex).__name__)
        if accepted2:
            ctx.count("other_mode_accepted")
            verdict, nontrivial = judge(ctx, rng, "direct-other-mode", I, args, not cplx, c["cell"], c["gdim"], c["itype"],
                                        dict(info, api="check_integrand_arity after a call in the other mode"))
            if verdict == "held":
                ctx.count("other_mode_accepted_held")

    # ---------------- event 2: the calls made while compute_form_data runs
    if rng.random() < 0.2:
        return
    opts = cfd_options(rng, cplx)
    if cplx and _has_symbolic_exponent(I):
        # by-catch, not C14: complex-mode preprocessing calls float() on the exponent (comparison_checker.power) and
        # float(<non-literal expression>) does not terminate in this tree; such forms are only checked directly
        ctx.count("cfd_skipped_symbolic_exponent_complex")
        return
    try:
        form = I * c["U"].measure(rng.choice([None, None, 1, (1, 2)]))
        if rng.random() < 0.25 and c["kind"] in ("valid", "mutate") and args and c["desc"] != "valid:gen":
            # a second integral (other subdomain) over the same arguments
            form = form + W.valid_integrand_for(c["b"], args, 0) * c["U"].measure(rng.choice([None, 2, 3]))
            ctx.count("cfd_two_integrals")
    except Exception as ex:
        ctx.count("form_build_rejected")
        ctx.covered("form_build_rejected_with", type(ex).__name__)
        return
    del RECORD[:]
    ctx.count("cfd_calls")
    raised = None
    fd = None
    try:
        fd = compute_form_data(form, **opts)
    except ArityMismatch as ex:
        raised = "ArityMismatch"
        ctx.covered("rejection_reasons", str(ex)[:34])
    except BaseException as ex:
        if isinstance(ex, (KeyboardInterrupt, SystemExit)) or type(ex).__name__ == "CaseTimeout":
            raise
        raised = type(ex).__name__
        ctx.covered("cfd_raised_other", type(ex).__name__)
    records = list(RECORD)
    del RECORD[:]
    if raised is None:
        ctx.count("cfd_returned")
    elif raised == "ArityMismatch":
        ctx.count("cfd_arity_rejected")
    else:
        ctx.count("cfd_raised_other")
    if not records:
        ctx.count("cfd_arity_check_not_reached")
        if raised is None and fd is not None and fd.integral_data:
            # compute_form_data returned form data WITH integrals although the arity check never ran: the form was accepted
            # all the same, so the original integrand is judged as accepted (whatever option switched the check off).
            # (No integral left after preprocessing = nothing to check: the integrand folded to zero.)
            ctx.count("events")
            ctx.count("cfd_returned_without_arity_check")
            on = sorted(k for k, v in opts.items() if v)
            off = sorted(k for k, v in opts.items() if v is False)
            verdict, nontrivial = judge(ctx, rng, "compute_form_data-returned-unchecked", I, args, cplx, c["cell"], c["gdim"], c["itype"],
                                        dict(info, options_on=on, options_off=off, original_integrand=safe_str(I, 600)))
    for what, expr, arguments, cm, msg in records:
        ctx.count("events")
        ctx.count("cfd_events")
        if cm != cplx:
            raise RuntimeError("C14 harness: recorded complex_mode differs from the option passed")
        same_args = set(arguments) == set(args)
        lab = label if same_args else None
        if what == "raised":
            ctx.count("rejected")
            ctx.count("cfd_rejected")
            _note_outcome(ctx, c, "cfd", False, lab)
            continue
        ctx.count("cfd_accepted")
        _note_outcome(ctx, c, "cfd", True, lab)
        on = sorted(k for k, v in opts.items() if v)
        verdict, nontrivial = judge(ctx, rng, "compute_form_data", expr, arguments, cplx, c["cell"], c["gdim"], c["itype"], dict(info, options_on=on, original_integrand=safe_str(I, 600)))
        _after_judgement(ctx, c, "compute_form_data", verdict, nontrivial, expr, hostile)
        if verdict == "held":
            for o in on:
                ctx.covered("cfd_options_on_held", o)
