"""C19 - DAG traversal and mapping visit every distinct node correctly.

Events (all produced by the real ufl code on generated DAGs with heavy sharing):
  * every sequence yielded by pre_traversal / post_traversal / cutoff_post_traversal /
    unique_pre_traversal / unique_post_traversal / cutoff_unique_post_traversal /
    traverse_terminals / traverse_unique_terminals (also with a `visited` set shared by two calls),
  * every result of map_expr_dag / map_expr_dags (plain functions and MultiFunctions, compress on/off,
    vcache/rcache shared by several calls), Transformer.visit, ReuseTransformer, CopyTransformer and
    DAGTraverser subclasses,
  * every handler chosen by freshly created MultiFunction / Transformer / DAGTraverser subclasses with
    randomly generated handler tables (the table built by the real __init__ for all classes, and live
    calls on instances).

Oracle: a naive recursive walk of the *tree* of python objects.  "Structurally distinct" is decided by
hash-consing the canon('abs') description of every node (class name, canon of terminals, ids of the
operands) - independent of UFL's __eq__/__hash__.  Mapping is judged against plain recursive application
of the same pure handler to the tree.  Dispatch is judged by walking type(e).__mro__ and the handler
names myself.
"""

import sys
import zlib
from collections import Counter
from functools import singledispatchmethod

import ufl
from ufl.algorithms.transformer import CopyTransformer, ReuseTransformer, Transformer
from ufl.classes import Coefficient, Expr, Variable, all_ufl_classes
from ufl.corealg import traversal as TR
from ufl.corealg.dag_traverser import DAGTraverser
from ufl.corealg.map_dag import map_expr_dag, map_expr_dags
from ufl.corealg.multifunction import MultiFunction, memoized_handler

from ..c19_work import Work, zoo
from ..canon import Canon, canon

LEVEL = "exploration"
ENGINE = "canon"
TECHNIQUE = (
    "runtime monitor around the real traversal / map_expr_dag / Transformer / DAGTraverser / handler-table code, "
    "judged by a naive recursive tree walk with hash-consed canon('abs') as the notion of distinct sub-expression"
)
LEVEL_TEXT = (
    "Randomly generated expression DAGs (vf.gen pieces combined with heavy object sharing, equal-but-distinct rebuilt "
    "copies, cloned terminals, Variables and prior == comparisons) are traversed and mapped by the real code; every "
    "yielded sequence and every mapping result is compared with a naive recursive tree walk, and randomly generated "
    "handler tables on fresh MultiFunction/Transformer/DAGTraverser subclasses are compared with an MRO walk for all "
    "167 UFL classes.  Sampling evidence, not a proof."
)
LEVEL_NOTE = (
    "trusted: vf.canon terminal descriptions, the 40-line recursive oracle in this file, purity of the generated handlers; "
    "tree size per case is capped (the oracle walks the tree, not the DAG)"
)
RULE = (
    "a case = one random universe + 2..4 scalar, 2 vector and 1 matrix expression from vf.gen combined by 4..12 sharing "
    "steps (a*a, s*s+s, (a+b)*(a+b), rebuilt copies, cloned terminals, variables, == before traversal) into two roots "
    "with capped tree size, plus random handler tables; a case is distinct by the structural fingerprint of its roots and "
    "non-trivial when the tree has more nodes than distinct sub-expressions; handler tables are distinct by their "
    "(algorithm, names, kinds)"
)
ASSUMPTIONS = [
    "two sub-expressions are 'structurally distinct' iff their canon('abs') differ (class names, all terminal data, operand order)",
    "the generated handlers are pure functions of (structure of the node, results of the operands)",
    "a traversal called with a `visited` set filled by a previous traversal promises to yield exactly the not yet visited "
    "distinct nodes, except that the root of the call is always yielded (map_expr_dags relies on and tolerates exactly that)",
    "a handler name resolves to the nearest class in type(e).__mro__ that carries _ufl_handler_name_ and for which the "
    "algorithm class (or its UFL base class) defines an attribute; non-UFL mixin classes in the MRO define no handler",
    "expression valued results are compared structurally; when they differ they are compared again after both have been "
    "rebuilt bottom-up through UFL's constructors with maximal object sharing until nothing changes: results equal only "
    "after that normalisation stem from handlers that are not pure functions of the structure (_ufl_expr_reconstruct_ of "
    "ListTensor looks at object identity; reuse_if_untouched skips the re-sorting Sum/Product constructors depending on "
    "object identity) and are counted as inconclusive_impure_reconstruction, neither held nor violated",
    "operand graphs with a cycle (abs(abs(x)) makes the inner Abs its own operand in this UFL) are not expression DAGs and "
    "are kept out of the workload",
]
BUDGET = {"quick": 75, "thorough": 420}
NCASES = {"quick": 1280, "thorough": 24000}
EVAL_COUNTER = "events_judged"
FLOORS = {
    "quick": {
        "cases": 600, "traversal_checks": 8000, "map_checks": 6000, "dispatch_table_checks": 100000,
        "dispatch_live_checks": 50000, "cases_with_sharing": 400, "cases_with_equal_but_distinct_objects": 300,
        "cutoff_hid_nodes": 300, "undefined_handler_expected_and_raised": 50, "shared_cache_checks": 1000,
        "transformer_checks": 2000, "dagtraverser_checks": 2000, "oracle_selfcheck_pairs": 1000,
        "expression_valued_results_structurally_equal": 10000,
    },
    "thorough": {
        "cases": 3000, "traversal_checks": 40000, "map_checks": 30000, "dispatch_table_checks": 500000,
        "dispatch_live_checks": 250000, "cases_with_sharing": 2000, "cases_with_equal_but_distinct_objects": 1500,
        "cutoff_hid_nodes": 1500, "undefined_handler_expected_and_raised": 250, "shared_cache_checks": 5000,
        "transformer_checks": 10000, "dagtraverser_checks": 10000, "oracle_selfcheck_pairs": 5000,
        "expression_valued_results_structurally_equal": 50000,
    },
}
EXHAUSTIVE = False
CASE_TIMEOUT = 30.0  # seconds per case (runner alarm); a typical case takes 0.1 s

# Cofunction (a BaseForm, not an Expr) has the non-UFL mixin BaseCoefficient *before* BaseForm in its MRO.
# Set to False to restrict the dispatch claim to Expr subclasses ("every expression type").
CHECK_NON_EXPR_TYPES = True

# Results of reconstructing handlers that differ from the tree recursion only before normalisation by UFL's own
# constructors (identity sensitive ListTensor shortcut, reuse_if_untouched + re-sorting Sum/Product) are counted as
# inconclusive: those handlers are not pure functions of the structure.  True reports them as violations.
REPORT_IMPURE_RECONSTRUCTION = False

sys.setrecursionlimit(20000)

HANDLER_NAMES = {c._ufl_handler_name_: c for c in all_ufl_classes}
NUM_CLASSES = len(all_ufl_classes)


# --------------------------------------------------------------------------- oracle: structural ids
class Ids:
    """Hash-consing of canon('abs'): cid(a) == cid(b) iff canon(a,'abs') == canon(b,'abs')."""

    def __init__(self):
        self.C = Canon("abs")
        self.table = {}
        self.memo = {}

    def cid(self, o):
        m = self.memo.get(id(o))
        if m is not None and m[0] is o and m[1] is o.ufl_operands:
            return m[2]
        tn = type(o).__name__
        if o._ufl_is_terminal_:
            key = ("T", self.C.terminal(o, tn))
        else:
            ops = tuple(self.cid(x) for x in o.ufl_operands)
            extra = ()
            if tn in ("ExternalOperator", "Interpolate"):
                # (vf.canon.Canon.expr raises on Interpolate, whose `derivatives` is None)
                C = self.C
                extra = (
                    ("space", C.space(o.ufl_function_space())),
                    ("derivatives", repr(o.derivatives)),
                    ("slots", tuple(C.any(x) for x in o.argument_slots())),
                )
            key = (tn, ops, extra)
        c = self.table.get(key)
        if c is None:
            c = len(self.table)
            self.table[key] = c
        self.memo[id(o)] = (o, o.ufl_operands, c)
        return c


def tree_pre(e, cut=None):
    """Naive recursive pre-order list of all tree nodes (not descending below cut-off types)."""
    out = []

    def rec(o):
        out.append(o)
        if cut is None or not cut[o._ufl_typecode_]:
            for x in o.ufl_operands:
                rec(x)

    rec(e)
    return out


def tree_order_defect(seq, root, cut, child_first):
    """None iff seq lists every tree position exactly once with parent before child (or the reverse)."""
    s = list(reversed(seq)) if child_first else seq
    avail = Counter({id(root): 1})
    for k, o in enumerate(s):
        if avail.get(id(o), 0) <= 0:
            return f"{type(o).__name__} at position {k} is yielded on the wrong side of its parent or more often than it occurs in the tree"
        avail[id(o)] -= 1
        if cut is None or not cut[o._ufl_typecode_]:
            for x in o.ufl_operands:
                avail[id(x)] += 1
    if any(avail.values()):
        return f"{sum(avail.values())} tree nodes were never yielded"
    return None


def apply_tree(h, e, naive):
    """Recursive application of the pure handler h to the tree of e (oracle of all mapping checks).

    naive=True walks the tree without any memory; otherwise results are remembered per python
    object (identity), which is the same thing for a pure handler.
    """
    if naive:

        def rec(o):
            return h(o, *[rec(x) for x in o.ufl_operands])

        return rec(e)
    memo = {}

    def rec2(o):
        m = memo.get(id(o))
        if m is not None and m[0] is o:
            return m[1]
        r = h(o, *[rec2(x) for x in o.ufl_operands])
        memo[id(o)] = (o, r)
        return r

    return rec2(e)


class Undefined(Exception):
    """The oracle predicts that no handler is defined for a reachable node."""


def run(f):
    try:
        return ("ok", f())
    except Undefined as ex:
        return ("undefined", str(ex))
    except RecursionError:
        raise
    except Exception as ex:
        return ("raise", ex)


def expected_handler_name(cls, defined):
    """Nearest class in the MRO whose handler name is defined; the final fallback is 'ufl_type'."""
    for c in cls.__mro__:
        n = getattr(c, "_ufl_handler_name_", None)
        if n is not None and n in defined:
            return n
    return "ufl_type"


def short(e, n=300):
    s = str(e)
    return s if len(s) <= n else s[:n] + "..."


# --------------------------------------------------------------------------- per case state
class Case:
    def __init__(self, ctx, rng):
        self.ctx = ctx
        self.rng = rng
        self.I = Ids()

    def norm(self, x):
        if isinstance(x, (int, str)):
            return x
        if isinstance(x, Expr):
            return ("E", self.I.cid(x))
        return ("?", repr(x))

    def fp(self, name, o, ops, tag=0):
        data = (name, self.I.cid(o), tuple(self.norm(x) for x in ops), tag)
        return zlib.crc32(repr(data).encode())

    def same(self, a, b):
        if isinstance(a, Expr) or isinstance(b, Expr):
            return isinstance(a, Expr) and isinstance(b, Expr) and self.I.cid(a) == self.I.cid(b)
        return type(a) is type(b) and a == b

    def viol(self, key, desc, e=None, **detail):
        d = dict(detail)
        if e is not None:
            d["expr"] = short(e, 600)
        self.ctx.violation(key, desc, d)

    # ---- compare a real mapping result with the oracle's
    def judge(self, key, what, real, exp, e, counter="map_checks"):
        """real/exp are run() results.  Returns True unless a violation was recorded.

        Expression valued results are compared structurally.  When they differ, both are brought to the normal
        form of UFL's own constructors (rebuilt bottom-up with every structurally equal operand represented by one
        python object, until nothing changes).  Results that only differ before that normalisation differ because
        the handler was not a pure function of the structure: `_ufl_expr_reconstruct_` looks at object identity
        (ListTensor folds [v[0], v[1]] into v only if both v are one object), and reuse_if_untouched skips the
        re-sorting constructor of Sum/Product exactly for the nodes whose operands come back as the same objects.
        The property speaks about pure handlers, so such an event is counted as inconclusive, not as a violation
        (REPORT_IMPURE_RECONSTRUCTION turns it into one).
        """
        ctx = self.ctx
        ctx.count(counter)
        ctx.count("events_judged")
        if exp[0] == "undefined":
            if real[0] == "raise" and isinstance(real[1], (ValueError, AssertionError)) and ("No handler defined" in str(real[1]) or "Rule not set" in str(real[1])):
                ctx.count("undefined_handler_expected_and_raised")
                return True
            self.viol(key + "/undefined-handler-not-reported", f"{what}: the nearest handler of a reachable node ({exp[1]}) is the undefined default, but the call gave {real[0]}: {real[1]!r:.200}", e)
            return False
        if exp[0] == "raise":
            if real[0] == "raise":
                ctx.count("rejected_by_both")
                return True
            ctx.count("oracle_raised_only")
            self.viol(key + "/recursive-application-raises-but-dag-does-not", f"{what}: recursive application raises {type(exp[1]).__name__}: {exp[1]!s:.200} but the DAG algorithm returned a value", e)
            return False
        if real[0] != "ok":
            self.viol(key + "/raised/" + type(real[1]).__name__, f"{what}: raised {type(real[1]).__name__}: {real[1]!s:.300} although recursive application succeeds", e)
            return False
        if self.same(real[1], exp[1]):
            if isinstance(exp[1], Expr):
                ctx.count("expression_valued_results_structurally_equal")
            return True
        if isinstance(real[1], Expr) and isinstance(exp[1], Expr):
            nf = run(lambda: (normal_form(self.I, real[1]), normal_form(self.I, exp[1])))
            if nf[0] != "ok":
                ctx.count("inconclusive_normal_form_raised")
                return True
            if self.same(*nf[1]):
                ctx.count("inconclusive_impure_reconstruction")
                d = first_difference(self.I, exp[1], real[1])
                ctx.covered("impure_reconstruction_first_difference_at", type(d[0]).__name__)
                ctx.sample({"inconclusive_impure_reconstruction": what, "tree": short(d[0], 200), "dag": short(d[1], 200)}, limit=3)
                if REPORT_IMPURE_RECONSTRUCTION:
                    self.viol(
                        "C19/impure-reconstruction",
                        f"{what}: the result differs structurally from recursive application to the tree, but both have the same "
                        f"normal form under UFL's constructors (tree: {short(d[0], 160)} | dag: {short(d[1], 160)})",
                        e,
                    )
                    return False
                return True
        self.viol(key + "/value", f"{what}: result differs from recursive application to the tree (real {short(real[1], 120)} vs expected {short(exp[1], 120)})", e)
        return False


def first_difference(I, a, b):
    """Deepest leftmost pair of corresponding sub-expressions of a and b that differ structurally."""
    if type(a) is type(b) and len(a.ufl_operands) == len(b.ufl_operands):
        for x, y in zip(a.ufl_operands, b.ufl_operands):
            if I.cid(x) != I.cid(y):
                return first_difference(I, x, y)
    return (a, b)


def apply_shared(h, e, I, intern):
    """Recursive application of h in which structurally equal inputs share one result object
    (intern=True: structurally equal results are one object as well, like compress=True)."""
    memo = {}
    pool = {}

    def rec(o):
        c = I.cid(o)
        if c in memo:
            return memo[c]
        r = h(o, *[rec(x) for x in o.ufl_operands])
        if intern and isinstance(r, Expr):
            r = pool.setdefault(I.cid(r), r)
        memo[c] = r
        return r

    return rec(e)


def _reconstruct(o, *ops):
    return o if o._ufl_is_terminal_ else o._ufl_expr_reconstruct_(*ops)


def normal_form(I, x):
    """Fixed point of rebuilding x bottom-up through UFL's constructors with maximal object sharing."""
    for _ in range(6):
        y = apply_shared(_reconstruct, x, I, True)
        if I.cid(y) == I.cid(x):
            return y
        x = y
    return x


# --------------------------------------------------------------------------- traversal checks
def chk_tree_traversal(K, name, gen, e, cut, child_first):
    ctx = K.ctx
    ctx.count("traversal_checks")
    ctx.count("events_judged")
    r = run(lambda: list(gen()))
    if r[0] != "ok":
        K.viol(f"C19/{name}/raised/{type(r[1]).__name__}", f"{name} raised {r[1]!r:.200}", e)
        return
    seq = r[1]
    tree = tree_pre(e, cut)
    ctx.count("nodes_yielded", len(seq))
    if Counter(map(id, seq)) != Counter(map(id, tree)):
        K.viol(f"C19/{name}/tree-nodes-not-each-once", f"{name} yielded {len(seq)} nodes, the tree walk has {len(tree)} (or the multisets of nodes differ)", e)
        return
    d = tree_order_defect(seq, e, cut, child_first)
    if d:
        K.viol(f"C19/{name}/order", f"{name}: {d}", e)


def chk_unique(K, name, gen, e, mode, cut=None, before=None, expected=None, tree_ids=None):
    """Judge one unique traversal.  Returns the set of cids yielded (or None)."""
    ctx, I = K.ctx, K.I
    ctx.count("traversal_checks")
    ctx.count("events_judged")
    r = run(lambda: list(gen()))
    if r[0] != "ok":
        K.viol(f"C19/{name}/raised/{type(r[1]).__name__}", f"{name} raised {r[1]!r:.200}", e)
        return None
    seq = r[1]
    ctx.count("nodes_yielded", len(seq))
    before = before or set()
    cids = [I.cid(o) for o in seq]
    rootc = I.cid(e)
    got = set(cids)
    # (no identity check here: the == comparisons made by the visited-set lookups re-point the operands of
    # equal nodes to one another while the traversal runs, so "is a node of the tree" is a moving target;
    # every yielded object is judged by its structure only)
    if any(not isinstance(o, Expr) for o in seq):
        K.viol(f"C19/{name}/foreign-node", f"{name} yielded something that is not an expression", e)
        return got
    dups = [c for c, k in Counter(cids).items() if k > 1]
    if dups:
        o = seq[cids.index(dups[0])]
        K.viol(f"C19/{name}/distinct-node-yielded-twice", f"{name} yielded the structurally same sub-expression {len(dups)}x more than once, e.g. {short(o, 150)}", e, n_dups=len(dups))
        return got
    missed = expected - got
    if missed:
        K.viol(f"C19/{name}/distinct-node-missed", f"{name} never yielded {len(missed)} of {len(expected)} structurally distinct sub-expressions", e)
        return got
    extra = got - expected - {rootc}
    if extra:
        what = "below a cut-off node or already visited" if (cut is not None or before) else "not in the tree"
        K.viol(f"C19/{name}/unexpected-node", f"{name} yielded {len(extra)} sub-expressions that are {what}", e)
        return got
    if mode == "post":
        seen = set(before)
        for o, c in zip(seq, cids):
            if cut is None or not cut[o._ufl_typecode_]:
                if any(I.cid(x) not in seen for x in o.ufl_operands):
                    K.viol(f"C19/{name}/user-before-operand", f"{name} yielded {short(o, 150)} before one of its operands", e)
                    return got
            seen.add(c)
        if cids[-1] != rootc:
            K.viol(f"C19/{name}/root-not-last", f"{name} did not yield the root last", e)
    else:
        if cids[0] != rootc:
            K.viol(f"C19/{name}/root-not-first", f"{name} did not yield the root first", e)
            return got
        avail = set()
        for k, (o, c) in enumerate(zip(seq, cids)):
            if k > 0 and c not in avail:
                K.viol(f"C19/{name}/child-before-parent", f"{name} yielded {short(o, 150)} before any of its users", e)
                return got
            if cut is None or not cut[o._ufl_typecode_]:
                avail.update(I.cid(x) for x in o.ufl_operands)
    return got


def random_cut(rng, present_types):
    cut = [False] * Expr._ufl_num_typecodes_
    k = rng.choice([0, 1, 1, 2, 3])
    for t in rng.sample(sorted(present_types, key=lambda c: c.__name__), min(k, len(present_types))):
        cut[t._ufl_typecode_] = True
    for _ in range(rng.choice([0, 2])):
        cut[rng.randrange(len(cut))] = True
    return cut


def chk_traversals(K, e, e2):
    ctx, I, rng = K.ctx, K.I, K.rng
    tree = tree_pre(e)
    tree_ids = {id(o) for o in tree}
    allc = {I.cid(o) for o in tree}
    tree2 = tree_pre(e2)
    tree2_ids = {id(o) for o in tree2}
    allc2 = {I.cid(o) for o in tree2}
    present = {type(o) for o in tree if not o._ufl_is_terminal_}

    chk_tree_traversal(K, "pre_traversal", lambda: TR.pre_traversal(e), e, None, False)
    chk_tree_traversal(K, "post_traversal", lambda: TR.post_traversal(e), e, None, True)
    cut = random_cut(rng, present)
    hidden = len(tree) - len(tree_pre(e, cut))
    if hidden:
        ctx.count("cutoff_hid_nodes")
    chk_tree_traversal(K, "cutoff_post_traversal", lambda: TR.cutoff_post_traversal(e, cut), e, cut, True)

    chk_unique(K, "unique_pre_traversal", lambda: TR.unique_pre_traversal(e), e, "pre", expected=allc, tree_ids=tree_ids)
    chk_unique(K, "unique_post_traversal", lambda: TR.unique_post_traversal(e), e, "post", expected=allc, tree_ids=tree_ids)
    cutc = {I.cid(o) for o in tree_pre(e, cut)}
    chk_unique(K, "cutoff_unique_post_traversal", lambda: TR.cutoff_unique_post_traversal(e, cut), e, "post", cut=cut, expected=cutc, tree_ids=tree_ids)
    nocut = [False] * len(cut)
    chk_unique(K, "cutoff_unique_post_traversal", lambda: TR.cutoff_unique_post_traversal(e, nocut), e, "post", cut=nocut, expected=allc, tree_ids=tree_ids)

    # terminals
    ctx.count("traversal_checks", 2)
    ctx.count("events_judged", 2)
    r = run(lambda: list(TR.traverse_terminals(e)))
    # (walk the tree again: the unique traversals above re-pointed operands of equal nodes)
    terms = [o for o in tree_pre(e) if o._ufl_is_terminal_]
    if r[0] != "ok":
        K.viol(f"C19/traverse_terminals/raised/{type(r[1]).__name__}", f"raised {r[1]!r:.200}", e)
    elif Counter(map(id, r[1])) != Counter(map(id, terms)):
        K.viol("C19/traverse_terminals/tree-terminals-not-each-once", f"yielded {len(r[1])} terminals, the tree has {len(terms)}", e)
    r = run(lambda: list(TR.traverse_unique_terminals(e)))
    if r[0] != "ok":
        K.viol(f"C19/traverse_unique_terminals/raised/{type(r[1]).__name__}", f"raised {r[1]!r:.200}", e)
    else:
        got = Counter(I.cid(o) for o in r[1])
        want = {I.cid(o) for o in terms}
        if any(not o._ufl_is_terminal_ for o in r[1]):
            K.viol("C19/traverse_unique_terminals/non-terminal", "yielded a non-terminal", e)
        elif set(got) != want or any(k > 1 for k in got.values()):
            K.viol("C19/traverse_unique_terminals/distinct-terminals-not-each-once", f"yielded {sum(got.values())} terminals ({len(got)} distinct), the tree has {len(want)} distinct terminals", e)

    # a visited set shared by two calls (as map_expr_dags does)
    for name, mk, mode, c in (
        ("unique_post_traversal+visited", lambda x, vis: TR.unique_post_traversal(x, vis), "post", None),
        ("unique_pre_traversal+visited", lambda x, vis: TR.unique_pre_traversal(x, vis), "pre", None),
        ("cutoff_unique_post_traversal+visited", lambda x, vis: TR.cutoff_unique_post_traversal(x, cut, vis), "post", cut),
    ):
        vis = set()
        exp1 = allc if c is None else cutc
        got1 = chk_unique(K, name, lambda: mk(e, vis), e, mode, cut=c, expected=exp1, tree_ids=tree_ids)
        if got1 is None or got1 != exp1:
            continue
        exp2 = (allc2 if c is None else {I.cid(o) for o in tree_pre(e2, c)}) - exp1
        chk_unique(K, name, lambda: mk(e2, vis), e2, mode, cut=c, before=exp1, expected=exp2, tree_ids=tree2_ids)
        ctx.count("shared_visited_checks")
    return tree, allc


# --------------------------------------------------------------------------- plain function handlers
def pure_handlers(K, tree_size, coefmap):
    I = K.I

    def h_fp(o, *ops):
        return K.fp("f", o, ops)

    def h_size(o, *ops):
        return 1 + sum(ops)

    def h_depth(o, *ops):
        return 1 + max(ops, default=0)

    def h_str(o, *ops):
        if o._ufl_is_terminal_:
            return f"t{I.cid(o)}"
        return type(o).__name__ + "(" + ",".join(ops) + ")"

    def h_rebuild(o, *ops):
        if o._ufl_is_terminal_:
            return o
        return o._ufl_expr_reconstruct_(*ops)

    def h_rename(o, *ops):
        if o._ufl_is_terminal_:
            if isinstance(o, Coefficient):
                return coefmap.get(o.count(), o)
            return o
        return o._ufl_expr_reconstruct_(*ops)

    hs = [("fingerprint", h_fp), ("tree-size", h_size), ("depth", h_depth), ("rebuild", h_rebuild), ("rename", h_rename)]
    if tree_size <= 1500:
        hs.append(("string", h_str))
    return hs


def make_coefmap(K, tree):
    rng = K.rng
    m = {}
    for o in tree:
        if isinstance(o, Coefficient) and o.count() not in m and rng.random() < 0.6:
            if o.ufl_shape == () and rng.random() < 0.25:
                m[o.count()] = ufl.as_ufl(0.5)
            else:
                m[o.count()] = Coefficient(o.ufl_function_space())
    return m


def chk_maps(K, e, e2, tree, coefmap):
    ctx, rng = K.ctx, K.rng
    n = len(tree)
    for hname, h in pure_handlers(K, n, coefmap):
        naive = n <= (1200 if hname in ("rebuild", "rename") else 4000)
        ctx.count("oracle_naive_tree_recursions" if naive else "oracle_identity_memo_recursions")
        exp = run(lambda: apply_tree(h, e, naive))
        for compress in (True, False):
            real = run(lambda: map_expr_dag(h, e, compress=compress))
            K.judge(f"C19/map_expr_dag/{hname}", f"map_expr_dag({hname}, compress={compress})", real, exp, e)
        # several expressions in one call and caches shared by several calls
        exp2 = run(lambda: apply_tree(h, e2, len(tree_pre(e2)) <= 1200))
        compress = rng.random() < 0.5
        real = run(lambda: map_expr_dags(h, [e, e2, e], compress=compress))
        for k, ex in enumerate((exp, exp2, exp)):
            rk = real if real[0] != "ok" else ("ok", real[1][k])
            K.judge(f"C19/map_expr_dags/{hname}", f"map_expr_dags({hname}, [e, e2, e], compress={compress})[{k}]", rk, ex, (e, e2, e)[k], counter="shared_cache_checks")
            if real[0] != "ok":
                break
        vc, rc = {}, {}
        order = [(e, exp), (e2, exp2), (e, exp)]
        if rng.random() < 0.5:
            order.reverse()
        for x, ex in order:
            real = run(lambda: map_expr_dag(h, x, compress=compress, vcache=vc, rcache=rc))
            K.judge(f"C19/map_expr_dag-shared-caches/{hname}", f"map_expr_dag({hname}, vcache=shared, rcache=shared, compress={compress})", real, ex, x, counter="shared_cache_checks")


# --------------------------------------------------------------------------- random handler tables
def random_table(K, present, kinds_op, kinds_any, p_defaults=0.85):
    """name -> kind for a random subset of all handler names, biased towards classes that occur."""
    rng = K.rng
    tab = {}
    p = rng.choice([0.02, 0.08, 0.25])
    names = sorted(HANDLER_NAMES)
    for name in names:
        if rng.random() < p:
            tab[name] = rng.choice(kinds_any)
    anc = set()
    for t in present:
        for c in t.__mro__:
            n = c.__dict__.get("_ufl_handler_name_")
            if n:
                anc.add(n)
    pa = rng.choice([0.05, 0.2, 0.5])
    for name in sorted(anc):
        if name not in ("expr", "operator", "terminal") and rng.random() < pa:
            tab[name] = rng.choice(kinds_any)
    r = rng.random()
    if r < p_defaults * 0.5:
        tab["expr"] = kinds_op[0]
    elif r < p_defaults * 0.85:
        tab["operator"] = kinds_op[0]
        tab["terminal"] = rng.choice(kinds_any)
    elif r < p_defaults:
        tab["ufl_type"] = kinds_op[0]
    else:
        for n in ("expr", "operator", "ufl_type"):
            tab.pop(n, None)
    return tab


def mf_handler(K, name, kind):
    if kind in ("cut", "cut_memo"):

        def h(self, o):
            return K.fp(name, o, ("cut",))

        if kind == "cut_memo":
            h.__name__ = name
            h = memoized_handler(h)

    elif kind == "post2":

        def h(self, o, a, b):
            return K.fp(name, o, (a, b))

    else:

        def h(self, o, *ops):
            return K.fp(name, o, ops)

    h.__name__ = name
    return h


POST2_SAFE = ("sum", "product", "division", "power", "indexed", "index_sum", "component_tensor")


def make_multifunction(K, tab):
    """A fresh MultiFunction subclass (sometimes two levels) with the handlers of tab."""
    rng = K.rng
    ns = {name: mf_handler(K, name, kind) for name, kind in tab.items()}
    names = sorted(ns)
    if len(names) >= 2 and rng.random() < 0.4:
        lower = {n: ns[n] for n in names if rng.random() < 0.5}
        upper = {n: ns[n] for n in names if n not in lower}
        # the base level also defines (differently named copies of) some handlers the derived level overrides
        for n in list(upper)[:2]:
            lower[n] = mf_handler(K, n + "@overridden", "post")
        B = type("VfMultiFunctionBase", (MultiFunction,), lower)
        B()  # fills the per-class handler cache of the base level first
        cls = type("VfMultiFunction", (B,), upper)
        K.ctx.count("two_level_algorithm_classes")
    else:
        cls = type("VfMultiFunction", (MultiFunction,), dict(ns))
    return cls, ns


def chk_multifunction(K, e, e2, tree, nodes, zoo_nodes):
    ctx, rng, I = K.ctx, K.rng, K.I
    present = {type(o) for o in tree}
    tab = random_table(K, present, ["post"], ["post", "post", "post", "post", "post", "post", "cut", "cut_memo"])
    for n in list(tab):
        if tab[n] == "post" and n in POST2_SAFE and rng.random() < 0.3:
            tab[n] = "post2"
    cls, ns = make_multifunction(K, tab)
    defined = set(tab) | {"ufl_type"}
    ctx.add_distinct(("table", "MultiFunction", tuple(sorted(tab.items()))))
    r = run(cls)
    if r[0] != "ok":
        K.viol(f"C19/dispatch/MultiFunction/init-raised/{type(r[1]).__name__}", f"MultiFunction.__init__ raised {r[1]!r:.200} for handler table {sorted(tab)}")
        return
    mf = cls() if rng.random() < 0.5 else r[1]  # second instance: uses the per-class cache

    # -- the table the real __init__ built, for all classes
    for c in all_ufl_classes:
        if not CHECK_NON_EXPR_TYPES and not issubclass(c, Expr):
            continue
        ctx.count("dispatch_table_checks")
        exp = expected_handler_name(c, defined)
        got = mf._handlers[c._ufl_typecode_]
        want = ns.get(exp, MultiFunction.undefined)
        if getattr(got, "__func__", None) is not want:
            kind = "expr-type" if issubclass(c, Expr) else "non-expr-type"
            K.viol(
                "C19/dispatch/MultiFunction/table/" + (kind if issubclass(c, Expr) else f"{kind}/{c.__name__}"),
                f"MultiFunction with handlers {sorted(tab)}: {c.__name__} (MRO {[b.__name__ for b in c.__mro__]}) is bound to "
                f"'{getattr(got, '__name__', got)}', nearest ancestor with a handler is '{exp}'",
            )
    ctx.count("events_judged")

    def expected(o):
        name = expected_handler_name(type(o), defined)
        kind = tab.get(name)
        if kind is None:
            raise Undefined(type(o).__name__)
        if kind in ("cut", "cut_memo"):
            return K.fp(name, o, ("cut",))
        return K.fp(name, o, [expected(x) for x in o.ufl_operands])

    # -- live calls mf(o) on instances (handlers accept a bare node except post2)
    for o in nodes + zoo_nodes:
        name = expected_handler_name(type(o), defined)
        kind = tab.get(name)
        ctx.count("dispatch_live_checks")
        ctx.covered("live_dispatch_classes", type(o).__name__)
        args = (1, 2) if kind == "post2" else ()
        real = run(lambda: mf(o, *args))
        if kind is None:
            if real[0] == "raise" and isinstance(real[1], ValueError) and "No handler defined" in str(real[1]):
                ctx.count("undefined_handler_expected_and_raised")
            else:
                K.viol("C19/dispatch/MultiFunction/live", f"{type(o).__name__}: no handler among {sorted(tab)} applies, expected the undefined default to raise, got {real!r:.200}")
            continue
        want = K.fp(name, o, ("cut",) if kind in ("cut", "cut_memo") else args)
        if real != ("ok", want):
            K.viol("C19/dispatch/MultiFunction/live", f"{type(o).__name__} with handlers {sorted(tab)}: expected handler '{name}' ({kind}), the call gave {real!r:.200}")

    # -- mapping with the MultiFunction (dispatch + cut-off handlers + DAG)
    exp = run(lambda: expected(e))
    exp2 = run(lambda: expected(e2))
    for compress in (True, False):
        real = run(lambda: map_expr_dag(mf, e, compress=compress))
        K.judge("C19/map_expr_dag/multifunction-table", f"map_expr_dag(MultiFunction{sorted(tab.items())}, compress={compress})", real, exp, e)
    vc, rc = {}, {}
    for x, ex in ((e2, exp2), (e, exp)):
        real = run(lambda: map_expr_dag(mf, x, vcache=vc, rcache=rc))
        K.judge("C19/map_expr_dag-shared-caches/multifunction-table", f"map_expr_dag(MultiFunction{sorted(tab.items())}, shared caches)", real, ex, x, counter="shared_cache_checks")
        if real[0] != "ok":
            break  # a failed call leaves half filled caches behind: nothing is promised afterwards
    if any(k in ("cut", "cut_memo") for n, k in tab.items() if n in {expected_handler_name(type(o), defined) for o in tree if not o._ufl_is_terminal_}):
        ctx.count("maps_with_effective_cutoff_handlers")


class RenameMF(MultiFunction):
    def __init__(self, m):
        MultiFunction.__init__(self)
        self.m = m

    expr = MultiFunction.reuse_if_untouched

    def coefficient(self, o):
        return self.m.get(o.count(), o)


def h_rename_oracle(coefmap):
    def h(o, *ops):
        if isinstance(o, Coefficient):
            return coefmap.get(o.count(), o)
        if all(a is b for a, b in zip(o.ufl_operands, ops)):
            return o
        return o._ufl_expr_reconstruct_(*ops)

    return h


def chk_reuse_multifunction(K, e, tree, coefmap):
    naive = len(tree) <= 1200
    h = h_rename_oracle(coefmap)
    exp = run(lambda: apply_tree(h, e, naive))
    for compress in (True, False):
        real = run(lambda: map_expr_dag(RenameMF(coefmap), e, compress=compress))
        K.judge("C19/map_expr_dag/reuse_if_untouched-rename", f"map_expr_dag(MultiFunction(expr=reuse_if_untouched, coefficient=rename), compress={compress})", real, exp, e)
    exp0 = ("ok", e)
    real = run(lambda: map_expr_dag(RenameMF({}), e))
    K.judge("C19/map_expr_dag/reuse_if_untouched-identity", "map_expr_dag(MultiFunction(expr=reuse_if_untouched))", real, exp0, e)


# --------------------------------------------------------------------------- Transformer
def tr_handler(K, name, kind):
    if kind == "pre":

        def h(self, o):
            return K.fp(name, o, ("pre",))

    elif kind == "pre_rev":

        def h(self, o):
            return K.fp(name, o, [self.visit(x) for x in reversed(o.ufl_operands)])

    else:

        def h(self, o, *ops):
            return K.fp(name, o, ops)

    h.__name__ = name
    return h


def chk_transformer(K, e, tree, nodes, zoo_nodes, coefmap):
    ctx, rng, I = K.ctx, K.rng, K.I
    present = {type(o) for o in tree}
    tab = random_table(K, present, ["post"], ["post", "post", "post", "pre", "pre_rev"], p_defaults=0.9)
    ns = {name: tr_handler(K, name, kind) for name, kind in tab.items()}
    cls = type("VfTransformer", (Transformer,), dict(ns))
    base = {"ufl_type": Transformer.undefined, "terminal": Transformer.reuse}
    defined = set(tab) | set(base)
    ctx.add_distinct(("table", "Transformer", tuple(sorted(tab.items()))))
    r = run(cls)
    if r[0] != "ok":
        K.viol(f"C19/dispatch/Transformer/init-raised/{type(r[1]).__name__}", f"Transformer.__init__ raised {r[1]!r:.200} for handler table {sorted(tab)}")
        return
    t = cls() if rng.random() < 0.5 else r[1]
    for c in all_ufl_classes:
        if not CHECK_NON_EXPR_TYPES and not issubclass(c, Expr):
            continue
        ctx.count("dispatch_table_checks")
        exp = expected_handler_name(c, defined)
        got, post = t._handlers[c._ufl_typecode_]
        want = ns.get(exp) or base[exp]
        want_post = tab.get(exp) == "post"
        if getattr(got, "__func__", None) is not want or bool(post) != want_post:
            kind = "expr-type" if issubclass(c, Expr) else "non-expr-type"
            K.viol(
                "C19/dispatch/Transformer/table/" + (kind if issubclass(c, Expr) else f"{kind}/{c.__name__}"),
                f"Transformer with handlers {sorted(tab)}: {c.__name__} (MRO {[b.__name__ for b in c.__mro__]}) is bound to "
                f"'{getattr(got, '__name__', got)}' (children first: {post}), nearest ancestor with a handler is '{exp}' (children first: {want_post})",
            )
    ctx.count("events_judged")

    def expected(o):
        name = expected_handler_name(type(o), defined)
        kind = tab.get(name)
        if kind is None:
            if name == "terminal":
                return o
            raise Undefined(type(o).__name__)
        if kind == "pre":
            return K.fp(name, o, ("pre",))
        if kind == "pre_rev":
            return K.fp(name, o, [expected(x) for x in reversed(o.ufl_operands)])
        return K.fp(name, o, [expected(x) for x in o.ufl_operands])

    # live: instances of classes the random expression may lack (small trees): full visit and, for
    # children-first handlers, the bound handler of the real table called on the bare node
    for o in zoo_nodes + nodes[:20]:
        name = expected_handler_name(type(o), defined)
        kind = tab.get(name)
        ctx.count("dispatch_live_checks")
        real = run(lambda: t.visit(o))
        exp = run(lambda: expected(o))
        K.judge("C19/dispatch/Transformer/live", f"Transformer{sorted(tab)}.visit({type(o).__name__})", real, exp, o, counter="transformer_checks")
        if kind == "post":
            h, post = t._handlers[o._ufl_typecode_]
            real = run(lambda: h(o))
            if real != ("ok", K.fp(name, o, ())):
                K.viol("C19/dispatch/Transformer/live", f"{type(o).__name__} with handlers {sorted(tab)}: expected handler '{name}', got {real!r:.200}")

    if len(tree) <= 2500:
        exp = run(lambda: expected(e))
        real = run(lambda: t.visit(e))
        K.judge("C19/Transformer.visit/table", f"Transformer{sorted(tab.items())}.visit", real, exp, e, counter="transformer_checks")
    else:
        ctx.count("transformer_skipped_tree_too_large")

    if len(tree) > 1500:
        return
    # ReuseTransformer: the recursive application of reuse_if_untouched is the expression itself
    real = run(lambda: ReuseTransformer().visit(e))
    if K.judge("C19/ReuseTransformer/identity", "ReuseTransformer().visit", real, ("ok", e), e, counter="transformer_checks") and real[1] is e:
        ctx.count("reuse_transformer_returned_same_object")

    def copy_oracle(o):
        if o._ufl_is_terminal_:
            return o
        if isinstance(o, Variable):
            return Variable(copy_oracle(o.ufl_operands[0]), o.ufl_operands[1])
        return o._ufl_expr_reconstruct_(*[copy_oracle(x) for x in o.ufl_operands])

    exp = run(lambda: copy_oracle(e))
    real = run(lambda: CopyTransformer().visit(e))
    K.judge("C19/CopyTransformer/rebuild", "CopyTransformer().visit", real, exp, e, counter="transformer_checks")

    class RenameT(ReuseTransformer):
        def coefficient(self, o):
            return coefmap.get(o.count(), o)

    def rename_oracle(o):
        if isinstance(o, Coefficient):
            return coefmap.get(o.count(), o)
        if o._ufl_is_terminal_:
            return o
        if isinstance(o, Variable):
            e2 = rename_oracle(o.ufl_operands[0])
            return o if I.cid(e2) == I.cid(o.ufl_operands[0]) else Variable(e2, o.ufl_operands[1])
        ops = [rename_oracle(x) for x in o.ufl_operands]
        if all(a is b for a, b in zip(o.ufl_operands, ops)):
            return o
        return o._ufl_expr_reconstruct_(*ops)

    exp = run(lambda: rename_oracle(e))
    real = run(lambda: RenameT().visit(e))
    K.judge("C19/ReuseTransformer/rename", "ReuseTransformer(coefficient=rename).visit", real, exp, e, counter="transformer_checks")


# --------------------------------------------------------------------------- DAGTraverser
EXPR_CLASSES = [c for c in all_ufl_classes if issubclass(c, Expr)]
EXPR_SET = set(EXPR_CLASSES)


def dt_handler(K, name, kind):
    if kind == "post":

        @DAGTraverser.postorder
        def h(self, o, *ops, tag=0):
            return K.fp(name, o, ops, tag)

    elif kind == "only0":

        @DAGTraverser.postorder_only_children([0])
        def h(self, o, op0, tag=0):
            return K.fp(name, o, (op0,), tag)

    else:

        def h(self, o, tag=0):
            return K.fp(name, o, ("plain",), tag)

    return h


def make_dagtraverser(K, reg, own_base):
    holder = []

    def base(self, o, **kw):
        if own_base:
            return K.fp("object", o, ("base",), kw.get("tag", 0))
        return super(holder[0], self).process(o, **kw)

    proc = singledispatchmethod(base)
    for c, kind in reg.items():
        proc.register(c)(dt_handler(K, c.__name__, kind))
    cls = type("VfDAGTraverser", (DAGTraverser,), {"process": proc})
    holder.append(cls)
    return cls


def random_registry(K, present, plain_only=False):
    rng = K.rng
    reg = {}
    p = rng.choice([0.02, 0.08, 0.25])
    pa = rng.choice([0.05, 0.2, 0.5])
    anc = set()
    for t in present:
        anc.update(c for c in t.__mro__ if c in EXPR_SET)
    for c in EXPR_CLASSES:
        if rng.random() < (pa if c in anc else p):
            if plain_only:
                reg[c] = "plain"
            elif not c._ufl_is_abstract_ and isinstance(c._ufl_num_ops_, int) and c._ufl_num_ops_ >= 1 and rng.random() < 0.3:
                reg[c] = "only0"
            else:
                reg[c] = rng.choice(["post", "post", "post", "plain"])
    r = rng.random()
    if r < 0.5:
        reg[Expr] = "plain" if plain_only else "post"
    elif r < 0.8:
        reg[ufl.classes.Operator] = "plain" if plain_only else "post"
        reg[ufl.classes.Terminal] = "plain"
    return reg


def chk_dagtraverser(K, e, e2, tree, nodes, zoo_nodes, coefmap):
    ctx, rng, I = K.ctx, K.rng, K.I
    present = {type(o) for o in tree}

    def nearest(o, reg):
        for c in type(o).__mro__:
            if c in reg:
                return c
        return None

    def mk_expected(reg, own_base):
        def expected(o, tag):
            c = nearest(o, reg)
            if c is None:
                if own_base:
                    return K.fp("object", o, ("base",), tag)
                raise Undefined(type(o).__name__)
            kind = reg[c]
            if kind == "plain":
                return K.fp(c.__name__, o, ("plain",), tag)
            if kind == "only0":
                return K.fp(c.__name__, o, (expected(o.ufl_operands[0], tag),), tag)
            return K.fp(c.__name__, o, [expected(x, tag) for x in o.ufl_operands], tag)

        return expected

    # -- dispatch only (plain handlers), live on all instances
    own_base = rng.random() < 0.5
    reg = random_registry(K, present, plain_only=True)
    cls = make_dagtraverser(K, reg, own_base)
    ctx.add_distinct(("table", "DAGTraverser", own_base, tuple(sorted((c.__name__, k) for c, k in reg.items()))))
    dt = cls(compress=rng.random() < 0.5)
    expected = mk_expected(reg, own_base)
    for o in nodes + zoo_nodes:
        ctx.count("dispatch_live_checks")
        real = run(lambda: dt(o))
        exp = run(lambda: expected(o, 0))
        K.judge("C19/dispatch/DAGTraverser/live", f"DAGTraverser with rules for {sorted(c.__name__ for c in reg)} applied to {type(o).__name__}", real, exp, o, counter="dagtraverser_checks")

    # -- mapping with post-order rules, keyword arguments, caches
    own_base = rng.random() < 0.5
    reg = random_registry(K, present)
    cls = make_dagtraverser(K, reg, own_base)
    ctx.add_distinct(("table", "DAGTraverser", own_base, tuple(sorted((c.__name__, k) for c, k in reg.items()))))
    expected = mk_expected(reg, own_base)
    desc = f"DAGTraverser{sorted((c.__name__, k) for c, k in reg.items())}"
    for compress in (True, False):
        dt = cls(compress=compress)
        # keyword values incl. several FALSY ones that differ from each other and from the default (0, None, "", ()):
        # the memoisation must keep them apart just like the truthy ones
        for tag in (1, 2, 0, None, "", 1, (), 0, None):
            exp = run(lambda: expected(e, tag))
            real = run(lambda: dt(e, tag=tag))
            if not K.judge("C19/DAGTraverser/table", f"{desc}(e, tag={tag}), compress={compress}", real, exp, e, counter="dagtraverser_checks"):
                break
            if real[0] != "ok":
                break
        else:
            # caches handed to a second traverser of the same class
            dt2 = cls(compress=compress, visited_cache=dt._visited_cache, result_cache=dt._result_cache)
            exp = run(lambda: expected(e2, 2))
            real = run(lambda: dt2(e2, tag=2))
            K.judge("C19/DAGTraverser-shared-caches/table", f"{desc} with caches of a previous traversal", real, exp, e2, counter="shared_cache_checks")

    # -- rebuilding traverser in the style of ufl's own algorithms
    class RenameDT(DAGTraverser):
        @singledispatchmethod
        def process(self, o, **kw):
            return super().process(o, **kw)

        @process.register(Expr)
        def _(self, o, **kw):
            return self.reuse_if_untouched(o, **kw)

        @process.register(Coefficient)
        def _(self, o, **kw):
            return coefmap.get(o.count(), o)

    def h(o, *ops):
        if isinstance(o, Coefficient):
            return coefmap.get(o.count(), o)
        if all(I.cid(a) == I.cid(b) for a, b in zip(o.ufl_operands, ops)):
            return o
        return o._ufl_expr_reconstruct_(*ops)

    exp = run(lambda: apply_tree(h, e, len(tree) <= 1200))
    for compress in (True, False):
        real = run(lambda: RenameDT(compress=compress)(e))
        K.judge("C19/DAGTraverser/reuse_if_untouched-rename", f"DAGTraverser(Expr=reuse_if_untouched, Coefficient=rename), compress={compress}", real, exp, e, counter="dagtraverser_checks")


# --------------------------------------------------------------------------- driver
_ZOO = None


def setup(ctx):
    global _ZOO
    nodes, fails = zoo()
    _ZOO = nodes
    if len({type(o) for o in nodes}) < 120:
        raise RuntimeError(f"zoo too small: {len(nodes)} instances; construction failures: {fails}")


def selfcheck(K, tree, rng):
    """cid equality must be canon('abs') equality (guards the oracle's own shortcut)."""
    I = K.I
    small = [o for o in tree if True]
    if len(tree) > 600:
        return
    by = {}
    for o in tree:
        by.setdefault(I.cid(o), []).append(o)
    pairs = []
    for c, objs in by.items():
        ids = {id(x): x for x in objs}
        if len(ids) > 1:
            a, b = list(ids.values())[:2]
            pairs.append((a, b))
    rng.shuffle(pairs)
    pairs = pairs[:4]
    for _ in range(4):
        pairs.append((rng.choice(small), rng.choice(small)))
    for a, b in pairs:
        K.ctx.count("oracle_selfcheck_pairs")
        if (I.cid(a) == I.cid(b)) != (canon(a, "abs") == canon(b, "abs")):
            K.ctx.count("oracle_error")
            raise RuntimeError(f"oracle self-check failed: hash-consed id and canon('abs') disagree on {short(a)} vs {short(b)}")


def case(ctx, i, rng):
    caps = [150, 500, 1500, 4000] if ctx.tier == "quick" else [150, 500, 1500, 4000, 10000]
    cap = rng.choice(caps)
    W = Work(rng, cap)
    K = Case(ctx, rng)
    I = K.I
    e, e2 = W.roots[0], W.roots[1]
    for op in W.ops_used:
        ctx.covered("sharing_steps", op)
    ctx.count("workload_steps_rejected", W.rejected)
    ctx.count("generator_pieces_discarded_because_cyclic_abs_abs", W.cyclic_pieces)
    ctx.count("eq_comparisons_before_traversal", len(W.eq_results))
    ctx.count("eq_comparisons_true", sum(W.eq_results))

    tree, allc = chk_traversals(K, e, e2)
    n_tree, n_dist = len(tree), len(allc)
    objs = {}
    for o in tree:
        objs[id(o)] = o
    n_obj = len(objs)
    for o in objs.values():
        ctx.covered("node_classes", type(o).__name__)
    ctx.count("tree_nodes_walked_by_oracle", n_tree)
    ctx.count("distinct_subexpressions", n_dist)
    if n_tree > n_dist:
        ctx.count("cases_with_sharing")
    if n_obj > n_dist:
        ctx.count("cases_with_equal_but_distinct_objects")
    root_fp = apply_tree(lambda o, *ops: K.fp("id", o, ops), e, False)
    if n_tree > n_dist:
        ctx.add_distinct(("dag", root_fp, n_tree, n_dist, n_obj))
    ctx.sample({"case": i, "universe": list(W.desc), "tree_nodes": n_tree, "distinct": n_dist, "python_objects": n_obj, "steps": W.ops_used, "root": short(e, 160)}, limit=2)
    selfcheck(K, tree, rng)

    # one representative python object per distinct sub-expression (deterministic order), capped
    reps = {}
    for o in tree:
        reps.setdefault(I.cid(o), o)
    nodes = list(reps.values())
    if len(nodes) > 60:
        nodes = rng.sample(nodes, 60)

    coefmap = make_coefmap(K, tree)
    if ctx.time_left() < 0:
        return
    chk_maps(K, e, e2, tree, coefmap)
    # the zoo (one instance of every constructible class) is dispatched live by one algorithm family per case
    z = [_ZOO if i % 3 == k else [] for k in range(3)]
    chk_multifunction(K, e, e2, tree, nodes, z[0])
    chk_reuse_multifunction(K, e, tree, coefmap)
    chk_transformer(K, e, tree, nodes, z[1], coefmap)
    chk_dagtraverser(K, e, e2, tree, nodes, z[2], coefmap)
