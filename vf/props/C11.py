"""C11 - forms with different compiled meaning never share a signature.

Events: `Form.signature()` of the real ufl on pairs of forms.
Oracle: the meaning-canon of `vf.c11_tools.FormInfo` (built on `vf.canon`, independent of
`__eq__`, `__hash__`, `repr` of expressions and of signature.py):

    strict canons equal                      =>  signatures must be equal
    loose canons different                   =>  signatures must differ

checked on
  (i)   the same recipe built twice (fresh meshes, coefficients, constants, indices; counters
        shifted in between);
  (ii)  single-point mutants of a recipe (tree surgery through the real UFL constructors, one
        integral attribute, one metadata entry, one element property, one base-form-operator
        datum, the coordinate element); a mutant counts as "different" only if the canons differ,
        a mutant whose canon is unchanged (e.g. operands of a commutative operator swapped and
        re-sorted by UFL) must keep the signature;
  (iii) all forms of the run (all workers) bucketed by signature: a bucket with two different
        loose canons is a collision.
The first cases of every run are a fixed battery of hand-written base/variant groups so that
every mechanism named in the property is exercised deterministically.
"""

import json
import math
import os
import random
import shutil
import tempfile
import time

import numpy as np

import ufl
import ufl.classes as C
from ufl.core.external_operator import ExternalOperator
from ufl.core.interpolate import Interpolate
from ufl.form import Form
from ufl.integral import Integral

from vf import c11_tools as T
from vf import elements as E
from vf.gen import Gen, Universe

LEVEL = "exploration"
ENGINE = "canon"
TECHNIQUE = "runtime monitor of Form.signature() on rebuilt recipes, single-point mutants and signature buckets, judged by a full-fidelity canonical serialiser"
LEVEL_TEXT = (
    "Random typed forms (1-3 integrals, all integral types, real and complex, Piola/mixed/symmetric elements, index "
    "notation, restrictions, metadata, base form operators) are built through the public API; each is rebuilt from "
    "the same recipe with fresh objects and mutated in one place per mutation kind (literals incl. 1 ulp, fixed "
    "indices, index patterns, operator types, operand order, restriction side, element degree/family/space/pullback, "
    "argument number/part, coefficient vs constant, coefficient mesh, coordinate element, integral type, subdomain id, "
    "metadata keys/values incl. single entries of long or high-precision arrays, ExternalOperator/Interpolate data). "
    "The real signature() of every form is compared with an independent canon: equal canon => equal signature, "
    "different canon => different signature, over the pairs and over all signature buckets of the whole run."
)
LEVEL_NOTE = (
    "trusted: vf.canon (plus the local C11Canon additions), the VElement repr contract (UFL itself identifies an "
    "element by its repr); sampling, not exhaustive; the mutated forms are built with low-level ufl.classes constructors"
)
RULE = (
    "cases 0,16,32,..: the hand-written groups (base form + single-point variants per mechanism); all other cases: random form "
    "from vf.gen (seeded), rebuilt once, ~35 single-point mutants; a pair is distinct and non-trivial when the two "
    "loose canon digests differ (digest pair counted once)"
)
ASSUMPTIONS = [
    "compiled meaning = C11Canon: integral type, domain (coordinate element), extra-domain integral types, subdomain id, "
    "metadata (typed, full precision, ndarray dtype+shape+bytes), integrand tree with all terminal data; subdomain_data "
    "is not part of it (signature.py documents its exclusion)",
    "mesh ids carry no meaning: 'different' is judged after minimising over mesh renumberings; 'equal' is judged with "
    "order-preserving renumbering only",
    "int 1 vs str '1' (and int vs float) metadata values, and subdomain id 1 vs (1,), are different compiler inputs",
    "if signature() raises on a mutated form the pair is skipped (counted signature_raised)",
    "a rebuilt recipe whose tree differs from the first build only by the order of operands (UFL sorts operands by "
    "counts) is not an 'equal form'; such pairs are counted rebuilt_operand_order_differs and left to C12",
]
BUDGET = {"quick": 65, "thorough": 420}
NCASES = {"quick": 1500, "thorough": 30000}
WORKERS = {"quick": 16, "thorough": 16}
EVAL_COUNTER = "pairs"

CELLS = [("interval", 1), ("interval", 2), ("triangle", 2), ("triangle", 2), ("triangle", 3), ("tetrahedron", 3)]

EXPR_KINDS = list(T.EXPR_MUTATORS)
ELEMENT_SUBS = ["degree", "family", "sobolev", "pullback", "subdegree"]
META_KINDS = list(T.METADATA_MUTATORS)
ALL_RANDOM_KINDS = (
    [k for k in EXPR_KINDS if k != "element"]
    + ["element-" + s for s in ELEMENT_SUBS]
    + ["metadata-set"]
    + META_KINDS
    + ["bfo-attached"]
    + T.BFO_KINDS
    + ["coordinate-degree", "rebuilt"]
)

FLOORS = {
    "quick": {"pairs": 30000, "pairs_different_canon": 27000, "rebuilt_equal_checked": 700, "pairs_equal_canon": 1400,
              "battery_pairs": 320, "bucket_merges": 1, "bucket_forms": 28000},
    "thorough": {"pairs": 250000, "pairs_different_canon": 230000, "rebuilt_equal_checked": 6000, "pairs_equal_canon": 12000,
                 "battery_pairs": 320, "bucket_merges": 1, "bucket_forms": 230000},
}
COVER_FLOORS = {"quick": {"kinds_different": ALL_RANDOM_KINDS[:-1]}, "thorough": {"kinds_different": ALL_RANDOM_KINDS[:-1]}}

# --------------------------------------------------------------------------- per-worker state

STORE = {}  # signature -> {loose digest: [case tag, kind, explained by a reported pair]}
INFO = {}  # id(form) -> (form, FormInfo)
SAMPLED = {"metadata-set", "bfo-attached", "literal-value"}
REPORTED = {}  # violation key -> number of reports of this worker
MAX_REPORTS_PER_KEY = 3  # the runner keeps 200 violations per worker: never let one mechanism crowd out another
BATTERY_STRIDE = 16  # battery group g is case g*16: with 16 workers all of them run first, in worker 0


def report(ctx, key, desc, detail):
    n = REPORTED.get(key, 0)
    REPORTED[key] = n + 1
    if n < MAX_REPORTS_PER_KEY:
        ctx.violation(key, desc, detail)
    else:
        ctx.count("violations_beyond_report_cap")
        ctx.count("violations_raw")


def setup(ctx):
    STORE.clear()
    INFO.clear()
    REPORTED.clear()


def info(ctx, F, tag, kind):
    k = id(F)
    if k in INFO:
        return INFO[k][1]
    fi = T.FormInfo(F)
    INFO[k] = (F, fi)
    ctx.count("forms")
    if fi.sig is None:
        ctx.count("signature_raised")
        ctx.covered("signature_raised", f"{kind}:{fi.sig_error}")
    elif fi.loose is not None:
        STORE.setdefault(fi.sig[:28], {}).setdefault(fi.loose[:16], [tag, kind, 0])
        ctx.count("bucket_forms_local")
    return fi


def check_pair(ctx, kind, sub, A, B, tag):
    """The oracle.  A is the base of the pair, B the variant."""
    a = info(ctx, A, tag, "base")
    b = info(ctx, B, tag, kind)
    if a.sig is None or b.sig is None:
        ctx.count("pairs_skipped_signature_raised")
        return None
    ctx.count("pairs")
    name = kind + ("/" + sub if sub else "")
    if a.strict == b.strict:
        ctx.count("pairs_equal_canon")
        ctx.covered("kinds_equal", kind)
        if a.sig != b.sig:
            cause = "zero-with-free-indices" if has_zero_with_free_indices(A) else name
            report(
                ctx,
                f"C11/equal-forms-different-signature/{cause}",
                f"two forms with identical canon (kind {name}) have different signatures",
                {"kind": name, "sigA": a.sig[:16], "sigB": b.sig[:16], "formA": _short(A), "formB": _short(B)},
            )
        return "equal"
    if a.loose is None or b.loose is None:
        ctx.count("pairs_skipped_too_many_meshes")
        return None
    if a.loose == b.loose:
        ctx.count("pairs_mesh_order_only")
        return None
    ctx.count("pairs_different_canon")
    ctx.count("different:" + kind)
    ctx.covered("kinds_different", kind)
    ctx.add_distinct((a.loose, b.loose))
    if a.sig == b.sig:
        ctx.count("collisions")
        for x in (a, b):  # remember that this bucket member is explained by a reported pair
            STORE[x.sig[:28]][x.loose[:16]][2] = 1
        report(
            ctx,
            f"C11/collision/{name}",
            f"two forms that differ in one point ({name}) have the same signature",
            {"kind": name, "signature": a.sig[:16], "formA": _short(A), "formB": _short(B)},
        )
    elif kind not in SAMPLED:
        SAMPLED.add(kind)
        ctx.sample({"kind": name, "formA": _short(A, 300), "formB": _short(B, 300), "canons": "different", "signatures": "different"}, limit=4)
    return "different"


def _short(F, n=900):
    try:
        s = str(F)
    except Exception as ex:
        s = f"<str failed: {type(ex).__name__}>"
    if len(s) > n:
        s = s[: n // 2] + " ... " + s[-n // 2:]
    return s


# --------------------------------------------------------------------------- random recipes


def draw_metadata(rng):
    if rng.random() < 0.3:
        return None
    md = {}
    if rng.random() < 0.7:
        md["quadrature_degree"] = rng.choice([1, 2, 3, 4, 8])
    if rng.random() < 0.4:
        md["quadrature_rule"] = rng.choice(["default", "vertex", "GLL"])
    if rng.random() < 0.3:
        md["scale"] = rng.choice([0.1, 1.0 / 3.0, 2.5e-7])
    if rng.random() < 0.3:
        md["opts"] = {"optimize": rng.choice([True, False]), "precision": rng.choice([8, 15]), "tags": [1, 2, rng.randrange(5)]}
    if rng.random() < 0.25:
        md["points"] = np.array([[rng.random(), rng.random()] for _ in range(rng.choice([1, 3, 6]))])
    return md


def build(seed, coord_degree=1):
    """The recipe: a pure function of the seed; every call makes fresh UFL objects."""
    rng = random.Random(seed)
    cell, gdim = rng.choice(CELLS)
    cplx = rng.random() < 0.2
    U = Universe(rng, cell, gdim, "cell", cplx)
    if coord_degree != 1:
        U.mesh = E.mesh_for(cell, gdim, coord_degree)
        U.spaces = {k: ufl.FunctionSpace(U.mesh, e) for k, e in U.cat.items()}
        U.x = ufl.SpatialCoordinate(U.mesh)
    arity = rng.choice([0, 1, 1, 2])
    names = rng.sample(sorted(U.spaces), k=2)
    nint = rng.choice([1, 1, 2, 2, 3])
    F = None
    for _ in range(nint):
        itype = rng.choice(["cell", "cell", "exterior_facet", "interior_facet"])
        U.itype = itype
        U.is_facet = "facet" in itype
        U.interior = itype.startswith("interior_facet")
        G = Gen(U, rng, cplx=cplx, deriv=rng.choice([0, 1, 1, 2]))
        e, _ = G.integrand(arity, rng.choice([1, 2, 2, 3]), space_names=names)
        sid = rng.choice([None, None, 0, 1, 2, 7, (1, 2)])
        Fk = e * U.measure(subdomain_id=sid, metadata=draw_metadata(rng))
        F = Fk if F is None else F + Fk
    return F, U


def bump_counters(rng, mesh):
    """Shift the global counters between the two builds of a recipe."""
    for _ in range(rng.randrange(0, 14)):
        ufl.Index()
    for _ in range(rng.randrange(0, 6)):
        ufl.Constant(mesh)
    for _ in range(rng.randrange(0, 6)):
        ufl.Coefficient(ufl.FunctionSpace(mesh, E.P(T.cellname(mesh), 1)))
    for _ in range(rng.randrange(0, 3)):
        ufl.Mesh(mesh.ufl_coordinate_element())


def has_zero_with_free_indices(F):
    for itg in F.integrals():
        for _, n in T.walk(itg.integrand()):
            if isinstance(n, C.Zero) and n.ufl_free_indices:
                return True
    return False


def random_case(ctx, i, rng):
    seed = f"C11-recipe/{ctx.seed}/{i}/{rng.getrandbits(48)}"
    tag = i
    try:
        F, U = build(seed)
    except Exception as ex:
        ctx.count("build_rejected")
        ctx.covered("build_rejected", type(ex).__name__)
        return
    fi = info(ctx, F, tag, "base")
    if fi.sig is None:
        ctx.count("base_signature_raised")
        return
    ctx.count("base_forms")
    ctx.sample({"case": i, "form": _short(F, 400), "signature": fi.sig[:16]}, limit=2)

    # ---- (i) the same recipe once more
    bump_counters(rng, U.mesh)
    F2, _ = build(seed)
    f2 = info(ctx, F2, tag, "rebuilt")
    if fi.strict == f2.strict:
        ctx.count("rebuilt_equal_checked")
        if has_zero_with_free_indices(F):
            ctx.count("rebuilt_with_zero_free_indices")
        check_pair(ctx, "rebuilt", None, F, F2, tag)
    else:
        if T.anon_sorted_canon(F) == T.anon_sorted_canon(F2):
            ctx.count("rebuilt_operand_order_differs")
        else:
            raise RuntimeError(f"C11 harness: recipe {seed!r} is not reproducible (canons of two builds differ)")

    # ---- (ii) single-point mutants
    S = T.Sites(F)
    ctx.count("tree_positions", len(S.all))
    for kind in EXPR_KINDS:
        if kind == "element":
            todo = [("element-" + s, (lambda s=s: T.mut_element(F, S, rng, U, sub=s))) for s in rng.sample(ELEMENT_SUBS, 3)]
        else:
            todo = [(kind, (lambda kind=kind: T.EXPR_MUTATORS[kind](F, S, rng, U)))]
        for name, thunk in todo:
            try:
                sub, M = thunk()
            except T.Reject:
                ctx.count("mutant_no_site_or_rejected")
                ctx.count("rejected:" + name)
                continue
            except Exception as ex:  # a real UFL constructor refused the mutated operands: no pair to judge
                ctx.count("mutant_refused_by_ufl")
                ctx.covered("mutant_refused_by_ufl", f"{name}:{type(ex).__name__}")
                continue
            if name.startswith("element-"):
                sub = None
            if name in ("literal-value", "literal-ulp", "fixed-index", "restriction-side", "terminal-type", "integral-type", "integrand-swap", "terminal-domain", "function-space-label"):
                sub = None  # one mechanism per kind
            check_pair(ctx, name, sub, F, M, tag)

    # coordinate element of the mesh (same recipe, other coordinate degree)
    try:
        Fc, _ = build(seed, coord_degree=rng.choice([2, 3]))
    except Exception as ex:
        ctx.count("rejected:coordinate-degree")
    else:
        check_pair(ctx, "coordinate-degree", None, F, Fc, tag)

    # metadata: decorate one integral with a rich metadata dict, then change one entry
    k = rng.randrange(len(F.integrals()))
    md = T.rich_metadata(rng)
    Fm = T.with_metadata(F, k, md)
    check_pair(ctx, "metadata-set", None, F, Fm, tag)
    for kind in META_KINDS:
        check_pair(ctx, kind, None, Fm, T.metadata_mutant(Fm, k, md, kind, rng), tag)

    # base form operators: attach an ExternalOperator / Interpolate factor, then change one datum
    k = rng.randrange(len(F.integrals()))
    try:
        fam = T.BFOFamily(F, k, rng, U.mesh, U.cell)
        base = {"eo": fam.eo(), "interp": fam.interp()}
        variants = [(kind,) + fam.variant(kind) for kind in T.BFO_KINDS]
    except Exception as ex:  # building the inputs failed inside UFL
        ctx.count("rejected:bfo")
        ctx.covered("mutant_refused_by_ufl", f"bfo:{type(ex).__name__}")
    else:
        check_pair(ctx, "bfo-attached", None, F, base["eo"], tag)
        check_pair(ctx, "bfo-attached", None, F, base["interp"], tag)
        for kind, which, M in variants:
            check_pair(ctx, kind, None, base[which], M, tag)
    INFO.clear()


# --------------------------------------------------------------------------- battery


class B:
    """Objects shared by the hand-written groups (fresh per call)."""

    def __init__(self, cell="triangle", gdim=2, coord_degree=1):
        self.cell, self.gdim = cell, gdim
        self.mesh = E.mesh_for(cell, gdim, coord_degree)
        self.P1 = ufl.FunctionSpace(self.mesh, E.P(cell, 1))
        self.P2 = ufl.FunctionSpace(self.mesh, E.P(cell, 2))
        self.Vv = ufl.FunctionSpace(self.mesh, E.P(cell, 1, (gdim,)))
        self.Vt = ufl.FunctionSpace(self.mesh, E.P(cell, 1, (gdim, gdim)))
        self.f, self.g = ufl.Coefficient(self.P1), ufl.Coefficient(self.P1)
        self.h = ufl.Coefficient(self.P2)
        self.u, self.w = ufl.Coefficient(self.Vv), ufl.Coefficient(self.Vv)
        self.A, self.Bt = ufl.Coefficient(self.Vt), ufl.Coefficient(self.Vt)
        self.v = ufl.TestFunction(self.P1)
        self.c = ufl.Constant(self.mesh)
        self.dx = ufl.dx(domain=self.mesh)
        self.ds = ufl.ds(domain=self.mesh)
        self.dS = ufl.dS(domain=self.mesh)


def _grp_literal():
    def mk(val):
        return lambda: (lambda b: ufl.as_ufl(val) * b.f * b.v * b.dx)(B())

    def pw(p):
        return lambda: (lambda b: b.f ** p * b.v * b.dx)(B())

    base = mk(2)
    return "literal", base, [
        ("literal-int-vs-float", mk(2.0)), ("literal-value", mk(3)), ("literal-value", mk(-2)), ("literal-value", mk(2.5)),
        ("literal-ulp", mk(math.nextafter(2.0, 3.0))), ("literal-complex", mk(2 + 1j)), ("literal-complex", mk(2 - 1j)),
        ("literal-value", mk(2e-300)), ("literal-value", mk(2e300)), ("literal-value", mk(20)), ("literal-value", mk(2.0000001)),
        ("literal-exponent", pw(2)), ("literal-exponent", pw(2.0)), ("literal-exponent", pw(3)), ("literal-exponent", pw(0.5)),
    ]


def _grp_index():
    def mk(fn):
        return lambda: (lambda b: fn(b, *ufl.indices(2)) * b.dx)(B())

    base = mk(lambda b, i, j: b.A[i, j] * b.Bt[i, j])
    return "index", base, [
        ("index-pattern", mk(lambda b, i, j: b.A[j, i] * b.Bt[j, i])),
        ("index-pattern", mk(lambda b, i, j: b.A[i, j] * b.Bt[j, i])),
        ("index-pattern", mk(lambda b, i, j: b.A[i, i] * b.Bt[j, j])),
        ("index-pattern", mk(lambda b, i, j: ufl.as_tensor(b.A[i, j], (j, i))[i, j] * b.Bt[i, j])),
        ("index-pattern", mk(lambda b, i, j: ufl.as_tensor(b.A[i, j], (i, j))[i, j] * b.Bt[i, j])),
        ("fixed-index", mk(lambda b, i, j: b.A[0, j] * b.Bt[i, j] * b.u[i])),
        ("fixed-index", mk(lambda b, i, j: b.A[1, j] * b.Bt[i, j] * b.u[i])),
        ("fixed-index", mk(lambda b, i, j: b.A[j, 1] * b.Bt[i, j] * b.u[i])),
        ("fixed-index", mk(lambda b, i, j: b.A[0, 1] * b.f)),
        ("fixed-index", mk(lambda b, i, j: b.A[1, 0] * b.f)),
        ("fixed-index", mk(lambda b, i, j: b.u[0] * b.f)),
        ("fixed-index", mk(lambda b, i, j: b.u[1] * b.f)),
    ]


def _grp_operator():
    fns = ["sin", "cos", "tan", "exp", "ln", "sqrt", "sinh", "cosh", "tanh", "asin", "acos", "atan", "erf", "sign", "abs"]

    def un(name):
        return lambda: (lambda b: (abs(b.f) if name == "abs" else getattr(ufl, name)(b.f)) * b.v * b.dx)(B())

    def bi(fn):
        return lambda: (lambda b: fn(b) * b.v * b.dx)(B())

    var = [("operator-type", un(n)) for n in fns[1:]]
    var += [
        ("operator-type", bi(lambda b: b.f + b.h)), ("operator-type", bi(lambda b: b.f - b.h)), ("operand-order", bi(lambda b: b.h - b.f)),
        ("operator-type", bi(lambda b: b.f * b.h)), ("operator-type", bi(lambda b: b.f / b.h)), ("operand-order", bi(lambda b: b.h / b.f)),
        ("operator-type", bi(lambda b: b.f ** b.h)), ("operand-order", bi(lambda b: b.h ** b.f)),
        ("operator-type", bi(lambda b: ufl.atan2(b.f, b.h))), ("operand-order", bi(lambda b: ufl.atan2(b.h, b.f))),
        ("operator-type", bi(lambda b: ufl.max_value(b.f, b.h))), ("operator-type", bi(lambda b: ufl.min_value(b.f, b.h))),
    ]
    for nm in ("lt", "gt", "le", "ge", "eq", "ne"):
        var.append(("operator-type", bi(lambda b, nm=nm: ufl.conditional(getattr(ufl, nm)(b.f, b.h), b.f, b.h))))
    var.append(("operand-order", bi(lambda b: ufl.conditional(ufl.lt(b.f, b.h), b.h, b.f))))
    for nu in (0, 1, 2):
        for fn in ("bessel_J", "bessel_Y", "bessel_I", "bessel_K"):
            var.append(("operator-type", bi(lambda b, nu=nu, fn=fn: getattr(ufl, fn)(nu, b.f))))
    var += [
        ("operator-type", bi(lambda b: ufl.inner(ufl.grad(b.u), b.A))), ("operator-type", bi(lambda b: ufl.inner(ufl.nabla_grad(b.u), b.A))),
        ("operator-type", bi(lambda b: ufl.div(b.u))), ("operator-type", bi(lambda b: ufl.nabla_div(b.u))),
        ("operator-type", bi(lambda b: ufl.div(b.A)[0])), ("operator-type", bi(lambda b: ufl.nabla_div(b.A)[0])),
        ("operator-type", bi(lambda b: ufl.dot(b.u, b.w))), ("operator-type", bi(lambda b: ufl.inner(b.u, b.w))),
        ("operator-type", bi(lambda b: ufl.outer(b.u, b.w)[0, 1])), ("operand-order", bi(lambda b: ufl.outer(b.w, b.u)[0, 1])),
        ("operator-type", bi(lambda b: ufl.det(b.A))), ("operator-type", bi(lambda b: ufl.tr(b.A))),
        ("operator-type", bi(lambda b: ufl.dot(b.A, b.Bt)[0, 1])), ("operand-order", bi(lambda b: ufl.dot(b.Bt, b.A)[0, 1])),
        ("operator-type", bi(lambda b: ufl.sym(b.A)[0, 1])), ("operator-type", bi(lambda b: ufl.skew(b.A)[0, 1])),
        ("operator-type", bi(lambda b: ufl.dev(b.A)[0, 1])), ("operator-type", bi(lambda b: ufl.transpose(b.A)[0, 1])),
        ("operator-type", bi(lambda b: ufl.inv(b.A)[0, 1])), ("operator-type", bi(lambda b: ufl.cofac(b.A)[0, 1])),
        ("operator-type", bi(lambda b: b.f.dx(0))), ("operator-type", bi(lambda b: b.f.dx(1))), ("operator-type", bi(lambda b: b.f.dx(0, 1))),
        ("operator-type", bi(lambda b: ufl.conj(b.f))), ("operator-type", bi(lambda b: ufl.real(b.f))), ("operator-type", bi(lambda b: ufl.imag(b.f))),
        ("operator-type", bi(lambda b: ufl.diff(ufl.sin(ufl.variable(b.f)), ufl.variable(b.f)))),
        ("operator-type", bi(lambda b: ufl.variable(b.f))),
    ]
    return "operator", un("sin"), var


def _grp_restriction():
    def mk(fn):
        return lambda: (lambda b: fn(b) * b.dS)(B())

    base = mk(lambda b: b.f("+") * b.v("+"))
    return "restriction", base, [
        ("restriction-side", mk(lambda b: b.f("-") * b.v("+"))), ("restriction-side", mk(lambda b: b.f("+") * b.v("-"))),
        ("restriction-side", mk(lambda b: b.f("-") * b.v("-"))), ("restriction-side", mk(lambda b: ufl.avg(b.f) * b.v("+"))),
        ("restriction-side", mk(lambda b: ufl.jump(b.f) * b.v("+"))), ("restriction-side", mk(lambda b: (b.f * b.v)("+"))),
        ("restriction-side", mk(lambda b: (b.f * b.v)("-"))), ("restriction-side", mk(lambda b: ufl.grad(b.f)("+")[0] * b.v("+"))),
        ("restriction-side", mk(lambda b: ufl.grad(b.f("+"))[0] * b.v("+"))), ("restriction-side", mk(lambda b: ufl.grad(b.f)("-")[0] * b.v("+"))),
    ]


def _grp_element():
    def mk(el, comp=None, cell="triangle", gdim=2):
        def thunk():
            b = B(cell, gdim)
            e = el(b) if callable(el) else el
            V = ufl.FunctionSpace(b.mesh, e)
            f = ufl.Coefficient(V)
            v = ufl.TestFunction(V)
            c = comp if comp is not None else tuple(0 for _ in V.value_shape)
            return (f[c] if c else f) * (v[c] if c else v) * b.dx

        return thunk

    VE = E.VElement
    t = "triangle"
    base = mk(E.P(t, 1))
    var = [
        ("element-degree", mk(E.P(t, 2))), ("element-degree", mk(E.P(t, 3))), ("element-family", mk(E.DG(t, 1))),
        ("element-family", mk(VE("Bubble", t, 1, (), "identity", "H1"))), ("element-sobolev", mk(VE("Lagrange", t, 1, (), "identity", "H2"))),
        ("element-sobolev", mk(VE("Lagrange", t, 1, (), "identity", "L2"))), ("element-pullback", mk(VE("Lagrange", t, 1, (), "l2", "H1"))),
        ("element-subdegree", mk(VE("Lagrange", t, 1, (), "identity", "H1", subdegree=0))),
        ("element-value-shape", mk(E.P(t, 1, (2,)))), ("element-value-shape", mk(E.P(t, 1, (3,)))), ("element-value-shape", mk(E.P(t, 1, (2, 2)))),
        ("element-value-shape", mk(E.P(t, 1, (2, 3)), (0, 0))), ("element-value-shape", mk(E.P(t, 1, (3, 2)), (0, 0))),
        ("element-pullback", mk(E.RT(t, 1))), ("element-pullback", mk(E.N1(t, 1))), ("element-degree", mk(E.RT(t, 2))),
        ("element-pullback", mk(VE("RT", t, 1, (2,), "covariant", "HDiv", subdegree=0))),
        ("element-pullback", mk(E.Regge(t, 1))), ("element-pullback", mk(E.HHJ(t, 1))), ("element-pullback", mk(E.GLS(t, 1))),
        ("element-mixed", mk(E.VMixed([E.P(t, 2, (2,)), E.P(t, 1)]))), ("element-mixed", mk(E.VMixed([E.P(t, 2, (2,)), E.P(t, 2)]))),
        ("element-mixed", mk(E.VMixed([E.P(t, 1, (2,)), E.P(t, 1)]))), ("element-mixed", mk(E.VMixed([E.P(t, 1), E.P(t, 2, (2,))]))),
        ("element-mixed", mk(E.VMixed([E.VMixed([E.P(t, 1), E.P(t, 1)]), E.P(t, 1)]))), ("element-mixed", mk(E.VMixed([E.P(t, 1), E.P(t, 1), E.P(t, 1)]))),
        ("element-symmetry", mk(E.SymT(t, [1], 2))), ("element-symmetry", mk(E.SymT(t, [2], 2))), ("element-symmetry", mk(E.SymT(t, [1, 2], 2))),
        ("element-symmetry", mk(E.VSymmetric({(0, 0): 0, (0, 1): 1, (1, 0): 1, (1, 1): 1}, [E.P(t, 1), E.P(t, 1)]))),
        ("element-symmetry", mk(E.VSymmetric({(0, 0): 0, (0, 1): 1, (1, 0): 1, (1, 1): 0}, [E.P(t, 1), E.P(t, 1)]))),
        ("element-cell", mk(E.P("interval", 1), None, "interval", 2)), ("element-cell", mk(E.P("tetrahedron", 1), None, "tetrahedron", 3)),
    ]
    return "element", base, var


def compute_form_data_quiet(F):
    try:
        ufl.algorithms.compute_form_data(F)
    except BaseException:
        pass


def _grp_domain():
    def mk(cell="triangle", gdim=2, cd=1, fn=None, ce=None):
        def thunk():
            b = B(cell, gdim, cd)
            if ce is not None:
                b.mesh = ufl.Mesh(ce)
                b.P1 = ufl.FunctionSpace(b.mesh, E.P(cell, 1))
                b.f, b.v, b.dx = ufl.Coefficient(b.P1), ufl.TestFunction(b.P1), ufl.dx(domain=b.mesh)
            return (fn(b) if fn else b.f * b.v) * b.dx

        return thunk

    def two(kind):
        def thunk():
            b = B()
            m2 = E.mesh_for("triangle", 2)
            Q = ufl.FunctionSpace(m2, E.P("triangle", 1))
            g2 = ufl.Coefficient(Q)
            if kind.startswith("primed-"):
                # history: the objects of the second mesh were first used in a form where that mesh is number 0
                c2 = ufl.Constant(m2)
                (g2 * g2 * c2 * ufl.SpatialCoordinate(m2)[0] * ufl.dx(domain=m2)).signature()
                compute_form_data_quiet(g2 * g2 * ufl.dx(domain=m2))
                if kind == "primed-coef-other-mesh":
                    return b.f * g2 * b.dx
                if kind == "primed-constant-other-mesh":
                    return b.f * c2 * b.dx
                if kind == "primed-x-other-mesh":
                    return b.f * ufl.SpatialCoordinate(m2)[0] * b.dx
                if kind == "primed-argument-other-mesh":
                    return b.f * ufl.TestFunction(Q) * b.dx
            if kind == "coef-other-mesh":
                return b.f * g2 * b.dx
            if kind == "coef-other-mesh-only":
                return g2 * g2 * b.dx
            if kind == "integrate-other-mesh":
                return b.f * b.g * ufl.dx(domain=m2)
            if kind == "two-integrals-two-meshes":
                return b.f * b.g * b.dx + g2 * g2 * ufl.dx(domain=m2)
            if kind == "two-integrals-cross":
                return b.f * b.g * ufl.dx(domain=m2) + g2 * g2 * b.dx
            if kind == "x-other-mesh":
                return b.f * ufl.SpatialCoordinate(m2)[0] * b.dx
            if kind == "constant-other-mesh":
                return b.f * ufl.Constant(m2) * b.dx
            if kind == "constant-same-mesh":
                return b.f * ufl.Constant(b.mesh) * b.dx
            if kind == "extra-map-facet":
                return Form([Integral(b.f * g2, "cell", b.mesh, "everywhere", {}, None, extra_domain_integral_type_map={m2: "exterior_facet"})])
            if kind == "extra-map-cell":
                return Form([Integral(b.f * g2, "cell", b.mesh, "everywhere", {}, None, extra_domain_integral_type_map={m2: "cell"})])
            raise ValueError(kind)

        return thunk

    VE = E.VElement
    base = mk(fn=lambda b: b.f * b.g)
    var = [
        ("domain-gdim", mk("triangle", 3, fn=lambda b: b.f * b.g)), ("domain-coordinate-degree", mk("triangle", 2, 2, fn=lambda b: b.f * b.g)),
        ("domain-coordinate-degree", mk("triangle", 2, 3, fn=lambda b: b.f * b.g)),
        ("domain-coordinate-family", mk(fn=lambda b: b.f * b.f, ce=VE("DG", "triangle", 1, (2,), "identity", "L2"))),
        ("domain-coordinate-family", mk(fn=lambda b: b.f * b.f, ce=VE("Lagrange", "triangle", 1, (2,), "identity", "H1"))),
        ("domain-cell", mk("interval", 2, fn=lambda b: b.f * b.g)), ("domain-cell", mk("interval", 1, fn=lambda b: b.f * b.g)),
        ("domain-cell", mk("interval", 3, fn=lambda b: b.f * b.g)), ("domain-cell", mk("tetrahedron", 3, fn=lambda b: b.f * b.g)),
    ]
    var += [("domain-" + k, two(k)) for k in ["coef-other-mesh", "coef-other-mesh-only", "integrate-other-mesh", "two-integrals-two-meshes",
                                                "two-integrals-cross", "x-other-mesh", "constant-other-mesh", "constant-same-mesh",
                                                "extra-map-facet", "extra-map-cell", "primed-coef-other-mesh",
                                                "primed-constant-other-mesh", "primed-x-other-mesh", "primed-argument-other-mesh"]]
    return "domain", base, var


def _grp_integral_type():
    from ufl.measure import integral_types

    def mk(t):
        return lambda: (lambda b: Form([Integral(b.f * b.v, t, b.mesh, "everywhere", {}, None)]))(B())

    return "integral-type", mk("cell"), [("integral-type", mk(t)) for t in integral_types() if t != "cell"]


def _grp_subdomain():
    def direct(sid):
        return lambda: (lambda b: Form([Integral(b.f * b.v, "cell", b.mesh, sid, {}, None)]))(B())

    def meas(sid):
        return lambda: (lambda b: b.f * b.v * ufl.dx(sid, domain=b.mesh))(B())

    base = meas(1)
    return "subdomain", base, [
        ("rebuilt", direct(1)), ("subdomain-id", meas(0)), ("subdomain-id", meas(2)), ("subdomain-id", meas(10)), ("subdomain-id", meas(11)),
        ("subdomain-id", direct("everywhere")), ("subdomain-id", direct("otherwise")), ("subdomain-id", direct((1,))),
        ("subdomain-id", direct((1, 2))), ("subdomain-id", direct((2, 1))), ("subdomain-id", direct((1, 2, 3))), ("subdomain-id", direct((12,))),
        ("subdomain-id", direct((1, 23))), ("subdomain-id", direct((12, 3))), ("subdomain-id", meas((1, 2))),
        ("subdomain-id", lambda: (lambda b: b.f * b.v * ufl.dx(1, domain=b.mesh) + b.f * b.v * ufl.dx(2, domain=b.mesh))(B())),
        ("subdomain-id", lambda: (lambda b: b.f * b.v * ufl.dx(1, domain=b.mesh) + b.g * b.v * ufl.dx(2, domain=b.mesh))(B())),
        ("subdomain-id", lambda: (lambda b: b.g * b.v * ufl.dx(1, domain=b.mesh) + b.f * b.v * ufl.dx(2, domain=b.mesh))(B())),
    ]


def _long(n=2000):
    return np.linspace(0.0, 1.0, n)


def _grp_metadata_scalar():
    def mk(md):
        return lambda: (lambda b: b.f * b.v * ufl.dx(domain=b.mesh, metadata=md() if callable(md) else md))(B())

    base = mk({"quadrature_degree": 2, "level": 1})
    return "metadata", base, [
        ("rebuilt", mk({"level": 1, "quadrature_degree": 2})),
        ("metadata-int-value", mk({"quadrature_degree": 3, "level": 1})), ("metadata-int-value", mk({"quadrature_degree": 2, "level": 2})),
        ("metadata-int-value", mk({"quadrature_degree": 1, "level": 2})), ("metadata-key-renamed", mk({"quadrature_degree": 2, "levels": 1})),
        ("metadata-key-renamed", mk({"quadrature_degre": 2, "level": 1})), ("metadata-key-removed", mk({"quadrature_degree": 2})),
        ("metadata-key-removed", mk({"level": 1})), ("metadata-key-removed", mk({})), ("metadata-key-removed", mk(None)),
        ("metadata-key-added", mk({"quadrature_degree": 2, "level": 1, "x": 0})),
        ("metadata-int-vs-float", mk({"quadrature_degree": 2, "level": 1.0})), ("metadata-int-vs-str", mk({"quadrature_degree": 2, "level": "1"})),
        ("metadata-int-vs-str", mk({"quadrature_degree": "2", "level": 1})), ("metadata-bool-value", mk({"quadrature_degree": 2, "level": True})),
        ("metadata-nested-value", mk({"quadrature_degree": 2, "level": {"a": 1}})), ("metadata-nested-value", mk({"quadrature_degree": 2, "level": {"a": 2}})),
        ("metadata-nested-value", mk({"quadrature_degree": 2, "level": {"b": 1}})), ("metadata-nested-value", mk({"quadrature_degree": 2, "level": [1, 2]})),
        ("metadata-nested-value", mk({"quadrature_degree": 2, "level": [2, 1]})), ("metadata-nested-value", mk({"quadrature_degree": 2, "level": [1, [2]]})),
        ("metadata-nested-value", mk({"quadrature_degree": 2, "level": [[1], 2]})),
        ("metadata-float-ulp", mk({"quadrature_degree": 2, "level": 0.1})), ("metadata-float-ulp", mk({"quadrature_degree": 2, "level": math.nextafter(0.1, 1.0)})),
        ("metadata-degree-keyword", lambda: (lambda b: b.f * b.v * ufl.dx(domain=b.mesh, degree=2, metadata={"level": 1}))(B())),
        ("metadata-degree-keyword", lambda: (lambda b: b.f * b.v * ufl.dx(domain=b.mesh, degree=3, metadata={"level": 1}))(B())),
        ("metadata-degree-keyword", lambda: (lambda b: b.f * b.v * ufl.dx(domain=b.mesh, degree=2, scheme="vertex", metadata={"level": 1}))(B())),
    ]


def _grp_metadata_array(name, arr, variants):
    def mk(a):
        return lambda: (lambda b: b.f * b.v * ufl.dx(domain=b.mesh, metadata={"quadrature_rule": "custom", "quadrature_points": a()}))(B())

    return name, mk(arr), [(k, mk(a)) for k, a in variants]


def _chg(arr, j, d):
    def f():
        a = arr().copy()
        a.reshape(-1)[j] += d
        return a

    return f


def _grp_metadata_long():
    a = lambda: _long(2000)
    a2 = lambda: np.linspace(0.0, 1.0, 2100).reshape(700, 3)
    return [
        _grp_metadata_array("metadata-long-1d", a, [
            ("rebuilt", lambda: _long(2000).copy()),
            ("metadata-array-long-entry", _chg(a, 1000, 0.25)), ("metadata-array-long-entry", _chg(a, 3, 0.25)),
            ("metadata-array-long-entry", _chg(a, 1996, -0.25)), ("metadata-array-edge-entry", _chg(a, 0, 0.25)),
            ("metadata-array-edge-entry", _chg(a, 2, 0.25)), ("metadata-array-edge-entry", _chg(a, 1999, 0.25)),
            ("metadata-array-edge-entry", _chg(a, 1997, 0.25)),
            ("metadata-array-long-length", lambda: np.concatenate([_long(2000)[:1000], _long(2000)[999:]])),
            ("metadata-array-long-length", lambda: np.concatenate([_long(2000)[:1000], _long(2000)[1001:]])),
            ("metadata-array-shape", lambda: _long(2000).reshape(1, 2000)), ("metadata-array-shape", lambda: _long(2000).reshape(1000, 2)),
        ]),
        _grp_metadata_array("metadata-long-2d", a2, [
            ("metadata-array-long-entry", _chg(a2, 1000, 0.25)), ("metadata-array-long-entry", _chg(a2, 10, 0.25)),
            ("metadata-array-edge-entry", _chg(a2, 0, 0.25)), ("metadata-array-edge-entry", _chg(a2, 2099, 0.25)),
            ("metadata-array-shape", lambda: np.linspace(0.0, 1.0, 2100).reshape(3, 700)),
        ]),
        _grp_metadata_array("metadata-just-below-summary-threshold", lambda: _long(1000), [
            ("metadata-array-short-entry", _chg(lambda: _long(1000), 500, 0.25)),
        ]),
    ]


def _grp_metadata_precision():
    a = lambda: np.array([0.123456789012, 0.5, 1.0 / 3.0])
    return _grp_metadata_array("metadata-precision", a, [
        ("metadata-array-short-entry", _chg(a, 0, 1e-3)), ("metadata-array-short-entry", _chg(a, 1, 1e-6)),
        ("metadata-array-short-entry", _chg(a, 1, 1e-8)),
        ("metadata-array-precision", lambda: np.array([0.123456789013, 0.5, 1.0 / 3.0])),
        ("metadata-array-precision", lambda: np.array([0.1234567891, 0.5, 1.0 / 3.0])),
        ("metadata-array-precision", _chg(a, 2, 1e-10)), ("metadata-array-precision", _chg(a, 2, 1e-12)),
        ("metadata-array-precision", lambda: np.array([0.123456789012, np.nextafter(0.5, 1.0), 1.0 / 3.0])),
        ("metadata-array-dtype-values", lambda: np.array([0.123456789012, 0.5, 1.0 / 3.0], dtype=np.float32)),
        ("metadata-array-shape", lambda: np.array([[0.123456789012, 0.5, 1.0 / 3.0]])),
        ("metadata-array-shape", lambda: np.array([[0.123456789012], [0.5], [1.0 / 3.0]])),
        ("metadata-array-short-entry", lambda: np.array([0.123456789012, 0.5])),
    ])


def _grp_terminals():
    def mk(fn):
        return lambda: (lambda b: fn(b) * b.dx)(B())

    base = mk(lambda b: b.f * b.g * b.v)
    return "terminals", base, [
        ("coefficient-identity", mk(lambda b: b.f * b.f * b.v)), ("coefficient-identity", mk(lambda b: b.g * b.g * b.v)),
        ("rebuilt", mk(lambda b: b.g * b.f * b.v)),
        ("coefficient-identity", mk(lambda b: b.f * ufl.grad(b.g)[0] * b.v)), ("coefficient-identity", mk(lambda b: b.g * ufl.grad(b.f)[0] * b.v)),
        ("coefficient-vs-constant", mk(lambda b: b.f * b.c * b.v)), ("coefficient-vs-constant", mk(lambda b: b.c * b.c * b.v)),
        ("coefficient-vs-constant", mk(lambda b: b.f * ufl.Constant(b.mesh, (2,))[0] * b.v)),
        ("coefficient-vs-constant", mk(lambda b: b.f * ufl.Constant(b.mesh, (3,))[0] * b.v)),
        ("coefficient-vs-constant", mk(lambda b: b.f * ufl.Constant(b.mesh, (2, 2))[0, 0] * b.v)),
        ("argument-number-part", mk(lambda b: b.f * b.g * ufl.Argument(b.P1, 1))), ("argument-number-part", mk(lambda b: b.f * b.g * ufl.Argument(b.P1, 2))),
        ("argument-number-part", mk(lambda b: b.f * b.g * ufl.Argument(b.P1, 0, 0))), ("argument-number-part", mk(lambda b: b.f * b.g * ufl.Argument(b.P1, 0, 1))),
        ("argument-number-part", mk(lambda b: b.f * b.g * ufl.Argument(b.P1, 10))), ("argument-number-part", mk(lambda b: b.f * b.g * ufl.Argument(b.P1, 1, 0))),
        ("argument-vs-coefficient", mk(lambda b: b.f * b.g * ufl.Coefficient(b.P1))),
        ("argument-number-part", mk(lambda b: b.f * b.v * ufl.TrialFunction(b.P1))), ("argument-number-part", mk(lambda b: b.f * b.v * ufl.TrialFunction(b.P2))),
        ("function-space-label", mk(lambda b: b.f * b.g * ufl.TestFunction(ufl.FunctionSpace(b.mesh, E.P("triangle", 1), label="a")))),
        ("function-space-label", mk(lambda b: b.f * b.g * ufl.TestFunction(ufl.FunctionSpace(b.mesh, E.P("triangle", 1), label="b")))),
        ("terminal-type", mk(lambda b: ufl.CellVolume(b.mesh) * b.g * b.v)), ("terminal-type", mk(lambda b: ufl.Circumradius(b.mesh) * b.g * b.v)),
        ("terminal-type", mk(lambda b: ufl.CellDiameter(b.mesh) * b.g * b.v)), ("terminal-type", mk(lambda b: ufl.SpatialCoordinate(b.mesh)[0] * b.g * b.v)),
        ("terminal-type", mk(lambda b: ufl.SpatialCoordinate(b.mesh)[1] * b.g * b.v)), ("terminal-type", mk(lambda b: C.CellCoordinate(b.mesh)[0] * b.g * b.v)),
        ("terminal-type", mk(lambda b: ufl.Jacobian(b.mesh)[0, 0] * b.g * b.v)), ("terminal-type", mk(lambda b: ufl.JacobianInverse(b.mesh)[0, 0] * b.g * b.v)),
        ("terminal-type", mk(lambda b: ufl.JacobianDeterminant(b.mesh) * b.g * b.v)), ("terminal-type", mk(lambda b: ufl.Identity(2)[0, 0] * b.g * b.v + b.f * b.v)),
        ("terminal-type", mk(lambda b: ufl.PermutationSymbol(2)[0, 1] * b.g * b.v + b.f * b.v)),
    ]


class SubCoefficient(ufl.Coefficient):
    """A user subclass of Coefficient (as form compilers' Function classes are)."""


class SubConstant(ufl.Constant):
    """A user subclass of Constant."""


def _grp_subclasses():
    """Forms that mix plain terminals with instances of user subclasses: numbering must not depend on the Python type."""
    def mk(fn):
        return lambda: (lambda b: fn(b) * b.dx)(B())

    base = mk(lambda b: b.f * SubCoefficient(b.P1) * b.v)
    return "subclasses", base, [
        ("rebuilt", mk(lambda b: b.f * SubCoefficient(b.P1) * b.v)),
        ("coefficient-identity", mk(lambda b: (lambda s: s * s * b.v)(SubCoefficient(b.P1)))),
        ("coefficient-identity", mk(lambda b: b.f * b.f * b.v)),
        ("coefficient-identity", mk(lambda b: (lambda s, t: s * t * b.v + b.f * s * b.v)(SubCoefficient(b.P1), SubCoefficient(b.P1)))),
        ("coefficient-vs-constant", mk(lambda b: b.f * SubConstant(b.mesh) * b.v)),
        ("coefficient-vs-constant", mk(lambda b: (lambda c: c * c * b.v)(SubConstant(b.mesh)))),
        ("coefficient-vs-constant", mk(lambda b: b.c * SubConstant(b.mesh) * b.v)),
    ]


def _grp_constant():
    def mk(shape, comp):
        return lambda: (lambda b: b.f * ufl.Constant(b.mesh, shape)[comp] * b.v * b.dx)(B())

    return [
        ("constant-vector", mk((2,), 0), [("constant-shape", mk((3,), 0)), ("constant-shape", mk((4,), 0)), ("fixed-index", mk((2,), 1))]),
        ("constant-tensor", mk((2, 2), (0, 0)), [("constant-shape", mk((2, 3), (0, 0))), ("constant-shape", mk((3, 2), (0, 0))), ("fixed-index", mk((2, 2), (0, 1)))]),
    ]


def _grp_bfo():
    def eo(derivs=(1, 0), space="P1", slot="w1", swap=False, n=2):
        def thunk():
            b = B()
            sp = {"P1": b.P1, "P2": b.P2, "Vv": b.Vv}[space]
            vs = ufl.Argument(sp.dual(), 0)
            w1, w2 = ufl.Coefficient(b.P1), ufl.Coefficient(b.P2)
            slots = {"w1": (vs, w1), "w2": (vs, w2), "arg": (vs, ufl.Argument(b.P1, 1)), "none": (vs,), "two": (vs, w1, w2)}[slot]
            ops = (b.h, b.f) if swap else (b.f, b.h)
            N = ExternalOperator(*ops[:n], function_space=sp, derivatives=derivs[:n], argument_slots=slots)
            return (N[0] if space == "Vv" else N) * b.v * b.dx

        return thunk

    def ip(space="P1", fn=None, co=False):
        def thunk():
            b = B()
            sp = {"P1": b.P1, "P2": b.P2}[space]
            e = fn(b) if fn else b.f * b.h
            tgt = ufl.Coargument(sp.dual(), 0) if co else sp
            return Interpolate(e, tgt) * b.v * b.dx

        return thunk

    base = eo()
    return ("bfo", base, [
        ("eo-derivatives", eo((0, 1))), ("eo-derivatives", eo((0, 0))), ("eo-derivatives", eo((2, 0))), ("eo-derivatives", eo((1, 1))),
        ("eo-space", eo(space="P2")), ("eo-space", eo(space="Vv")), ("eo-slot", eo(slot="w2")), ("eo-slot-kind", eo(slot="arg")),
        ("eo-slot-kind", eo(slot="none")), ("eo-slot-kind", eo(slot="two")), ("eo-operand-order", eo(swap=True)),
        ("eo-operand-count", eo(n=1)), ("eo-vs-interpolate", ip()), ("rebuilt", eo()),
    ]), ("interpolate", ip(), [
        ("interp-space", ip("P2")), ("interp-expr", ip(fn=lambda b: b.h * b.h)), ("interp-expr", ip(fn=lambda b: b.h * b.f)),
        ("rebuilt", ip(co=True)), ("interp-space", ip("P2", co=True)),
    ])


def _grp_zero_free_indices():
    def mk(fn):
        def thunk():
            b = B()
            i, j = ufl.indices(2)
            return fn(b, i, j) * b.dx

        return thunk

    # grad of a cellwise constant reconstructed under an index: Zero with free indices survives in a conditional
    def z(b, i, j, other):
        zero = C.Zero((), (i.count(),), (2,))
        return ufl.as_vector(ufl.conditional(ufl.lt(b.f, b.g), zero, other(i)), i)[0]

    base = mk(lambda b, i, j: z(b, i, j, lambda i: b.u[i]))
    return "zero-free-indices", base, [
        ("rebuilt", mk(lambda b, i, j: z(b, i, j, lambda i: b.u[i]))),
        ("coefficient-identity", mk(lambda b, i, j: z(b, i, j, lambda i: b.w[i] + b.u[i]))),
    ]


def battery():
    groups = [
        _grp_literal(), _grp_index(), _grp_operator(), _grp_restriction(), _grp_element(), _grp_domain(), _grp_integral_type(),
        _grp_subdomain(), _grp_metadata_scalar(), *_grp_metadata_long(), _grp_metadata_precision(), _grp_terminals(), *_grp_constant(), *_grp_bfo(),
        _grp_zero_free_indices(), _grp_subclasses(),
    ]
    return groups


BATTERY = battery()
NBATTERY = len(BATTERY)


def battery_case(ctx, gi):
    name, base, variants = BATTERY[gi]
    tag = f"battery:{name}"
    F = base()
    ctx.covered("battery_groups", name)
    fi = info(ctx, F, tag, "base")
    if fi.sig is None:
        raise RuntimeError(f"C11 battery: signature() raised on the base form of group {name}: {fi.sig_error}")
    # the base recipe once more
    F2 = base()
    if T.FormInfo(F2).strict != fi.strict:
        raise RuntimeError(f"C11 battery: group {name} base is not reproducible")
    check_pair(ctx, "rebuilt", None, F, F2, tag)
    ctx.count("battery_pairs")
    for kind, thunk in variants:
        try:
            M = thunk()
        except Exception as ex:
            ctx.count("battery_variant_rejected")
            ctx.covered("battery_variant_rejected", f"{name}/{kind}:{type(ex).__name__}")
            continue
        r = check_pair(ctx, kind, None, F, M, tag)
        ctx.count("battery_pairs")
        if r == "different":
            ctx.covered("battery_kinds_different", kind)
    INFO.clear()


def case(ctx, i, rng):
    if i % BATTERY_STRIDE == 0 and i // BATTERY_STRIDE < NBATTERY:
        battery_case(ctx, i // BATTERY_STRIDE)
    else:
        random_case(ctx, i, rng)


# --------------------------------------------------------------------------- (iii) buckets over the whole run


def _bucket_dir(ctx):
    return os.path.join(tempfile.gettempdir(), f"vf_c11_{os.getppid()}_{ctx.tier}_{ctx.seed}")


def _report_buckets(ctx, merged, nworkers):
    ctx.case_index = None
    ctx.count("bucket_merges")
    ctx.count("bucket_workers_merged", nworkers)
    nforms = 0
    for sig, entries in merged.items():
        nforms += len(entries)
        ctx.count("bucket_signatures")
        if len(entries) < 2:
            continue
        ctx.count("buckets_with_several_canons")
        tags = {str(e[0]) for e in entries.values()}
        kinds = sorted({e[1] for e in entries.values()})
        if all(e[2] for e in entries.values()):
            # every member was one side of a collision already reported by the pair oracle (ii)
            ctx.count("bucket_collisions_already_reported_in_pairs")
            continue
        if len(tags) == 1:
            ctx.count("bucket_collisions_between_variants_of_one_base")
        else:
            ctx.count("bucket_collisions_across_cases")
        report(
            ctx,
            "C11/bucket-collision/" + "~".join(kinds),
            f"{len(entries)} forms with different canons share signature {sig}",
            {"signature": sig, "members": [[str(e[0]), e[1]] for e in entries.values()][:8]},
        )
    ctx.count("bucket_forms", nforms)


def finish(ctx):
    d = _bucket_dir(ctx)
    if ctx.nsub <= 1:
        _report_buckets(ctx, STORE, 1)
        return
    os.makedirs(d, exist_ok=True)
    tmp = os.path.join(d, f"part-{ctx.sub}.tmp")
    with open(tmp, "w") as fh:
        json.dump(STORE, fh)
    os.replace(tmp, os.path.join(d, f"part-{ctx.sub}.json"))
    parts = [p for p in os.listdir(d) if p.startswith("part-") and p.endswith(".json")]
    if len(parts) < ctx.nsub:
        return
    try:
        os.mkdir(os.path.join(d, "claim"))
    except FileExistsError:
        return
    try:
        merged = {}
        for p in parts:
            with open(os.path.join(d, p)) as fh:
                part = json.load(fh)
            for sig, entries in part.items():
                m = merged.setdefault(sig, {})
                for dg, origin in entries.items():
                    if dg in m:
                        m[dg][2] = m[dg][2] or origin[2]
                    else:
                        m[dg] = origin
        _report_buckets(ctx, merged, len(parts))
    finally:
        shutil.rmtree(d, ignore_errors=True)
        # stale directories of runs that died
        base = tempfile.gettempdir()
        for name in os.listdir(base):
            if name.startswith("vf_c11_"):
                p = os.path.join(base, name)
                try:
                    if time.time() - os.path.getmtime(p) > 7200:
                        shutil.rmtree(p, ignore_errors=True)
                except OSError:
                    pass
