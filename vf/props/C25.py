"""C25 - Sobolev space comparisons form a consistent partial order (exhaustive law checker).

Events: every comparison `a < b, a > b, a <= b, a >= b, a == b` and `fe in s` over the full
finite catalogue of spaces.  Oracle: an inclusion model written from the mathematical
definitions (independent of `parents` and of the comparison methods).
"""

import itertools
from math import inf

from ufl import sobolevspace as ss
from ufl.sobolevspace import DirectionalSobolevSpace

LEVEL = "exploration"
ENGINE = "laws"
TECHNIQUE = "exhaustive runtime law checker around the real comparison methods against a hand-written inclusion lattice"
LEVEL_TEXT = (
    "Every comparison operator and element-membership test of the real SobolevSpace classes is executed on all "
    "ordered pairs (and all same-dimension triples) of the 12 predefined spaces and all directional spaces with "
    "orders in {0,1,2,3,inf}^d, d<=3, and judged by an independent inclusion model and the order laws; the space is "
    "finite and enumerated completely, so within these bounds the result is exhaustive."
)
LEVEL_NOTE = "trusted: the hand-written inclusion lattice (ASSUMPTIONS in the evidence); directional orders limited to {0,1,2,3,inf} and d<=3"
EXHAUSTIVE = True
BUDGET = {"quick": 120, "thorough": 900}
NCASES = {"quick": 0, "thorough": 0}
EVAL_COUNTER = "pairs"
FLOORS = {"quick": {"pairs": 1500, "triples": 50000, "membership": 100, "temporaries": 2000}, "thorough": {"pairs": 25000, "triples": 3000000, "membership": 100, "temporaries": 20000}}
RULE = (
    "all ordered pairs (and triples for transitivity) of the 12 predefined Sobolev spaces and "
    "DirectionalSobolevSpace(orders), orders in {0,1,2,3,inf}^d, d<=2 (quick) / d<=3 (thorough); a pair is "
    "non-trivial when the two spaces are different objects with a defined mathematical relation"
)
ASSUMPTIONS = [
    "inclusion model: L2 > HDiv,HCurl > H1 > H1Div,H1Curl > H2 > H3 > HInf; HEin,HDivDiv,HCurlDiv < L2 only; "
    "a directional space with orders o is the intersection over directions of H^{o_i}",
    "directional vs HEin/HDivDiv/HCurlDiv is mathematically undetermined: the code may raise there",
    "directional spaces with different numbers of directions are incomparable; transitivity is only demanded "
    "for triples whose directional members have the same number of directions",
]

NAMED = ["L2", "HDiv", "HCurl", "H1", "H1Div", "H1Curl", "H2", "H3", "HInf", "HEin", "HDivDiv", "HCurlDiv"]
# strict supersets of each named space (transitively closed, written out by hand)
SUPER = {
    "L2": set(),
    "HDiv": {"L2"},
    "HCurl": {"L2"},
    "H1": {"L2", "HDiv", "HCurl"},
    "H1Div": {"L2", "HDiv", "HCurl", "H1"},
    "H1Curl": {"L2", "HDiv", "HCurl", "H1"},
    "H2": {"L2", "HDiv", "HCurl", "H1", "H1Div", "H1Curl"},
    "H3": {"L2", "HDiv", "HCurl", "H1", "H1Div", "H1Curl", "H2"},
    "HInf": {"L2", "HDiv", "HCurl", "H1", "H1Div", "H1Curl", "H2", "H3"},
    "HEin": {"L2"},
    "HDivDiv": {"L2"},
    "HCurlDiv": {"L2"},
}
ORDER_NAME = {0: "L2", 1: "H1", 2: "H2", 3: "H3", inf: "HInf"}
UNDETERMINED = {"HEin", "HDivDiv", "HCurlDiv"}


def model_sub(a, b):
    """a is a subset of (or equal to) b in the model; None = undetermined."""
    ka, kb = a[0], b[0]
    if ka == "N" and kb == "N":
        return a[1] == b[1] or b[1] in SUPER[a[1]]
    if ka == "D" and kb == "D":
        if len(a[1]) != len(b[1]):
            return False
        return all(x >= y for x, y in zip(a[1], b[1]))
    if ka == "D":
        if b[1] in UNDETERMINED:
            return None
        return all(model_sub(("N", ORDER_NAME[o]), b) for o in a[1])
    # named inside directional: inside every directional factor
    return all(model_sub(a, ("N", ORDER_NAME[o])) for o in b[1])


def spaces(maxd):
    out = [(("N", n), getattr(ss, n)) for n in NAMED]
    for d in range(1, maxd + 1):
        for o in itertools.product([0, 1, 2, 3, inf], repeat=d):
            out.append((("D", o), DirectionalSobolevSpace(o)))
    return out


class _FE:
    def __init__(self, s):
        self.sobolev_space = s


def _try(f):
    try:
        return ("ok", f())
    except NotImplementedError:
        return ("refused", None)
    except TypeError:
        return ("refused", None)


def _desc(k):
    return k[1] if k[0] == "N" else "DirectionalH" + repr(tuple(k[1]))


def _key(ka, kb):
    def cls(k):
        if k[0] == "N":
            return k[1]
        return "Directional"

    return f"{cls(ka)}~{cls(kb)}"


def once(ctx):
    maxd_pairs = 3
    maxd_triples = 2 if ctx.tier == "quick" else 3
    sp = spaces(maxd_pairs)
    n = len(sp)
    lt = {}
    # ---- pairs
    for i, (ka, a) in enumerate(sp):
        if i % ctx.nsub != ctx.sub and ctx.nsub > 1:
            continue
        for j, (kb, b) in enumerate(sp):
            ctx.count("pairs")
            r_lt = _try(lambda: a < b)
            r_gt = _try(lambda: a > b)
            r_le = _try(lambda: a <= b)
            r_ge = _try(lambda: a >= b)
            r_eq = _try(lambda: a == b)
            r_bl = _try(lambda: b < a)
            r_ble = _try(lambda: b <= a)
            sub, bus = model_sub(ka, kb), model_sub(kb, ka)
            if i != j and sub is not None and bus is not None:
                ctx.add_distinct((ka, kb))
            ctx.sample({"a": _desc(ka), "b": _desc(kb), "a<b": str(r_lt), "model_subset": sub, "model_superset": bus}, limit=3) if (i * 7 + j) % 997 == 3 else None
            if r_lt[0] == "refused":
                ctx.count("refused")
                if sub is not None and bus is not None:
                    ctx.violation(f"C25/refuses-determined/{_key(ka, kb)}", f"{_desc(ka)} < {_desc(kb)} raises although the relation is determined")
                continue
            v = r_lt[1]
            if not isinstance(v, bool):
                ctx.count("nonbool")
            if sub is not None and bus is not None:
                proper = sub and not bus
                ctx.count("value_checks")
                if bool(v) != proper:
                    ctx.violation(
                        f"C25/lt-value/{_key(ka, kb)}",
                        f"({_desc(ka)} < {_desc(kb)}) is {v!r}, proper-subspace relation is {proper}",
                    )
                if r_eq[0] == "ok" and bool(r_eq[1]) != (sub and bus):
                    ctx.violation(f"C25/eq-value/{_key(ka, kb)}", f"({_desc(ka)} == {_desc(kb)}) is {r_eq[1]!r}, model says {sub and bus}")
            # laws, whatever the model says
            if r_gt[0] == "ok" and r_bl[0] == "ok":
                ctx.count("law_checks")
                if bool(r_gt[1]) != bool(r_bl[1]):
                    ctx.violation(f"C25/gt-is-not-flipped-lt/{_key(ka, kb)}", f"({_desc(ka)} > {_desc(kb)}) is {r_gt[1]!r} but ({_desc(kb)} < {_desc(ka)}) is {r_bl[1]!r}")
            if r_le[0] == "ok" and r_eq[0] == "ok":
                ctx.count("law_checks")
                if bool(r_le[1]) != (bool(v) or bool(r_eq[1])):
                    ctx.violation(f"C25/le-is-not-lt-or-eq/{_key(ka, kb)}", f"({_desc(ka)} <= {_desc(kb)}) is {r_le[1]!r}; < is {v!r}, == is {r_eq[1]!r}")
            if r_ge[0] == "ok" and r_ble[0] == "ok":
                ctx.count("law_checks")
                if bool(r_ge[1]) != bool(r_ble[1]):
                    ctx.violation(f"C25/ge-is-not-flipped-le/{_key(ka, kb)}", f"({_desc(ka)} >= {_desc(kb)}) is {r_ge[1]!r} but ({_desc(kb)} <= {_desc(ka)}) is {r_ble[1]!r}")
            if i == j and bool(v):
                ctx.violation(f"C25/reflexive/{_key(ka, kb)}", f"{_desc(ka)} < itself")
            # membership
            if (i + j) % 3 == 0 or kb[0] == "N":
                r_in = _try(lambda: _FE(a) in b)
                if r_in[0] == "ok" and sub is not None:
                    ctx.count("membership")
                    if bool(r_in[1]) != sub:
                        ctx.violation(f"C25/membership/{_key(ka, kb)}", f"element with space {_desc(ka)} in {_desc(kb)} is {r_in[1]!r}, subspace relation is {sub}")
    # ---- triples (transitivity of the relation the code implements)
    spt = [s for s in sp if s[0][0] == "N" or len(s[0][1]) <= maxd_triples]
    m = len(spt)
    rel = [[None] * m for _ in range(m)]
    for i, (ka, a) in enumerate(spt):
        for j, (kb, b) in enumerate(spt):
            r = _try(lambda: a < b)
            rel[i][j] = bool(r[1]) if r[0] == "ok" else None
    succ = [[j for j in range(m) if rel[i][j]] for i in range(m)]
    for i in range(m):
        if i % ctx.nsub != ctx.sub and ctx.nsub > 1:
            continue
        for j in succ[i]:
            ctx.count("triples", m)
            for k in succ[j]:
                dims = {len(x[0][1]) for x in (spt[i], spt[j], spt[k]) if x[0][0] == "D"}
                if len(dims) > 1:
                    # directional spaces over different numbers of directions live on different
                    # domains; only the dimension-agnostic named spaces link them
                    ctx.count("triples_mixed_dimension_skipped")
                    continue
                if rel[i][k] is False:
                    ka, kb, kc = spt[i][0], spt[j][0], spt[k][0]
                    ctx.violation(
                        f"C25/not-transitive/{_key(ka, kb)}~{_key(kb, kc).split('~')[1]}",
                        f"{_desc(ka)} < {_desc(kb)} and {_desc(kb)} < {_desc(kc)} but not {_desc(ka)} < {_desc(kc)}",
                    )
        # triples that do not start a chain are still examined (they satisfy the law vacuously)
        ctx.count("triples", (m - len(succ[i])) * m)
    # ---- temporaries: directional spaces that live for one comparison only (an element whose sobolev_space property builds
    # DirectionalSobolevSpace(orders) on every call, or an inline DirectionalSobolevSpace(o) <= H1).  Each comparison must be
    # answered from the orders of the objects compared NOW, whatever lived at the same address before.
    import random

    rng = random.Random(ctx.seed * 1009 + ctx.sub)
    named = [(("N", n), getattr(ss, n)) for n in NAMED]
    pool = [o for d in (1, 2, 3) for o in itertools.product([0, 1, 2, 3, inf], repeat=d)]
    for _ in range(4000 if ctx.tier == "quick" else 40000):
        o1 = rng.choice(pool)
        ka = ("D", o1)
        if rng.random() < 0.6:
            kb, b = rng.choice(named)
            mk_b = lambda b=b: b  # noqa: E731
        else:
            o2 = rng.choice([o for o in pool if len(o) == len(o1)])
            kb = ("D", o2)
            mk_b = lambda o2=o2: DirectionalSobolevSpace(o2)  # noqa: E731
        sub, bus = model_sub(ka, kb), model_sub(kb, ka)
        if sub is None or bus is None:
            continue
        which = rng.choice(["lt", "le", "gt", "in"])
        ctx.count("temporaries")
        if which == "in":
            r = _try(lambda: _FE(DirectionalSobolevSpace(o1)) in mk_b())
            want = sub
        elif which == "lt":
            r = _try(lambda: DirectionalSobolevSpace(o1) < mk_b())
            want = sub and not bus
        elif which == "le":
            r = _try(lambda: DirectionalSobolevSpace(o1) <= mk_b())
            want = sub
        else:
            r = _try(lambda: DirectionalSobolevSpace(o1) > mk_b())
            want = bus and not sub
        if r[0] != "ok":
            continue
        if bool(r[1]) != bool(want):
            ctx.violation(f"C25/temporaries/{which}-value/{_key(ka, kb)}",
                          f"{which}({_desc(ka)}, {_desc(kb)}) on freshly created spaces is {r[1]!r}, the inclusion model says {want} "
                          "(the same comparison on long-lived objects is checked above)")

