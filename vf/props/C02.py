"""C02 - Gateaux derivatives are the true directional derivatives.

Events: e = derivative(F, w, v, coefficient_derivatives) built through the public function (whole
coefficient, fixed component, tuple of coefficients, automatically created argument, mixed spaces,
second derivatives, user-supplied coefficient derivative relations), then expand_derivatives(e).
Oracle: d/dtau F(w + tau v) at tau = 0 *by definition*: the harness installs a dual-number level in
which the fields named by the USER's (w, v) pairing are perturbed (so a wrong pairing inside
_handle_derivative_arguments is visible), grad(w) sees grad(v) because fields are polynomials
evaluated at jet positions, and f(w) relations from coefficient_derivatives perturb f by (df:v).
The eps-coefficient of S(F) is compared with S(expanded).  If UFL raises, the case is 'rejected'.
"""

import os
import traceback

import numpy as np
import ufl
from ufl.algorithms import expand_derivatives

from .. import elements as E
from .. import oracle
from ..gen import Gen, Universe
from ..passcheck import count_verdicts, node_classes, skeleton
from ..seval import S
from ..world import CurvedWorld
from .C03 import derivative_targets_ok
from .C04 import contains

LEVEL = "exploration"
ENGINE = "seval"
TECHNIQUE = "differential runtime monitoring: Gateaux derivative by definition (field perturbation in dual numbers, user-level pairing) vs. value of the real expansion"
LEVEL_TEXT = (
    "derivative(F, w, v[, cd]) is built through the public function for generated integrands and all supported ways of "
    "naming the coefficient and direction; the real expansion is evaluated and compared, at random points of random "
    "cells (real and complex, incl. interior facets), with the directional derivative obtained by perturbing the named "
    "fields in a dual-number interpreter; 50-digit confirmation before any report.  Exploration over generated cases."
)
LEVEL_NOTE = "trusted: jet algebra, vf/seval.py field perturbation semantics; bounds: depth<=4, at most two nested derivatives, polynomial fields of degree<=3"
RULE = (
    "case i = (integrand F from the seeded generator containing w, way of naming (w, v), optional second derivative / coefficient "
    "derivatives, cell, integral type, real/complex); distinct = skeleton(depth 3) of F + variant + cell + complex; non-trivial = F depends on w"
)
ASSUMPTIONS = [
    "tau is a real parameter: conj/real/imag commute with the derivative",
    "abs, sign, min/max, conditionals only over real-valued operands and away from kinks (else the sample is inconclusive)",
    "coefficient_derivatives {f: df} mean f depends on w with df = d f / d w (shape f.shape + w.shape), to first order",
]
BUDGET = {"quick": 50, "thorough": 450}
NCASES = {"quick": 3000, "thorough": 60000}
FLOORS = {"quick": {"case_held": 400, "nontrivial": 300, "curved_held": 40}, "thorough": {"case_held": 8000, "nontrivial": 6000, "curved_held": 500}}
INTERNAL_ERRORS = (IndexError, KeyError, AttributeError, TypeError, UnboundLocalError, NameError, AssertionError)
VARIANTS = ["whole", "whole", "component", "tuple", "auto", "second", "cd", "coef-direction", "mixed-split", "tuple-mixedarg", "tuple-auto", "two-derivatives", "row-direction"]
COVER_FLOORS = {"quick": {"variants_held": ["whole", "component", "tuple", "auto", "second", "coef-direction", "tuple-mixedarg", "tuple-auto"]}, "thorough": {"variants_held": ["whole", "component", "tuple", "auto", "second", "coef-direction", "cd", "mixed-split", "tuple-mixedarg", "tuple-auto"]}}
CELLS = [("interval", 1), ("triangle", 2), ("triangle", 2), ("triangle", 3), ("tetrahedron", 3)]


def max_arg_number(e):
    nums = [-1]
    seen = set()

    def walk(o):
        if id(o) in seen:
            return
        seen.add(id(o))
        if type(o).__name__ == "Argument":
            nums.append(o.number())
        for c in o.ufl_operands:
            walk(c)

    walk(e)
    return max(nums)


def arguments_of(e):
    out = []
    seen = set()

    def walk(o):
        if id(o) in seen:
            return
        seen.add(id(o))
        if type(o).__name__ == "Argument" and o not in out:
            out.append(o)
        for c in o.ufl_operands:
            walk(c)

    walk(e)
    return out


def two_derivatives(ctx, rng, cell, gdim, cplx, itype, U, G):
    """Several derivative nodes in ONE expansion: same coefficient and direction, different (or no)
    coefficient_derivatives, different integrands.  S evaluates each CoefficientDerivative node by definition."""
    from ..passcheck import check_pass

    names = sorted(U.spaces)
    try:
        wname = rng.choice(names)
        w = U.coef(wname, 0)
        gnames = [n for n in names if U.spaces[n].ufl_element().pullback.is_identity and U.spaces[n].ufl_element().embedded_superdegree > 0]
        g = U.coef(rng.choice(gnames), 1)
        if g == w:
            g = U.coef(rng.choice(gnames), 2)
        G.extra = [w, g]
        G.extra_prob = 0.6
        G.deriv = 0  # (the gradient of a coefficient with a user-supplied derivative is refused by UFL)
        F1 = G.expr((), rng.choice([2, 3]))
        F2 = F1 if rng.random() < 0.5 else G.expr((), 2)
        nxt = max(max_arg_number(F1), max_arg_number(F2)) + 1
        v = U.arg(wname, nxt) if rng.random() < 0.7 else U.coef(wname, 3)
        Gd = Gen(U, rng, cplx=cplx, deriv=0, cond=False, geom=False, math=False)
        dg = Gd.expr(tuple(g.ufl_shape) + tuple(w.ufl_shape), 1)
        dg2 = Gd.expr(tuple(g.ufl_shape) + tuple(w.ufl_shape), 1)
        kinds = rng.choice([("cd", "none"), ("none", "cd"), ("cd", "cd2"), ("cd", "none", "cd2")])
        terms = []
        for k, kind in enumerate(kinds):
            F = F1 if k % 2 == 0 else F2
            if kind == "none":
                terms.append(ufl.derivative(F, w, v))
            else:
                terms.append(ufl.derivative(F, w, v, {g: dg if kind == "cd" else dg2}))
        e = terms[0]
        for k, t in enumerate(terms[1:]):
            e = e - (k + 2) * t
    except Exception as ex:
        ctx.count("build_rejected")
        ctx.covered("build_rejected_with", type(ex).__name__ + ":two-derivatives")
        return
    worlds = oracle.worlds_for(rng, cell, gdim, itype, cplx, n=3)
    verdict, out = check_pass(ctx, "C02", "expand_derivatives", e, expand_derivatives, worlds, localise=False, key_override="two-derivatives/" + "+".join(kinds))
    if verdict == "held":
        ctx.covered("variants_held", "two-derivatives")
        ctx.count("nontrivial")
        ctx.add_distinct((skeleton(F1, 3), "two-derivatives", kinds, cell, gdim, itype, cplx))


def case(ctx, i, rng, curved=None):
    # about one case in ten runs on a non-affine cell (P2 coordinate element, vf.world.CurvedWorld): the property
    # quantifies over all field values, and there nothing is cellwise constant or of bounded polynomial degree in x
    curved = (rng.random() < 0.1) if curved is None else curved
    cell, gdim = rng.choice(CELLS)
    cplx = rng.random() < 0.25
    itype = rng.choice(["cell", "cell", "cell", "exterior_facet", "interior_facet"])
    if curved:
        cell, gdim = rng.choice([("interval", 1), ("triangle", 2), ("triangle", 2), ("tetrahedron", 3)])
        itype = "cell"
    U = Universe(rng, cell, gdim, itype, cplx, coord_degree=2 if curved else 1)
    variant = VARIANTS[i % len(VARIANTS)] if rng.random() < 0.7 else rng.choice(VARIANTS)
    G = Gen(U, rng, cplx=cplx, deriv=rng.choice([0, 1, 1, 2]), cond=rng.random() < 0.3, math=rng.random() < 0.8, geom=rng.random() < 0.4)
    if curved:
        G.geo_scalar_classes = [ufl.JacobianDeterminant]  # what the curved world models
        if variant == "two-derivatives":
            variant = "whole"
    if variant == "two-derivatives":
        return two_derivatives(ctx, rng, cell, gdim, cplx, itype, U, G)
    names = sorted(U.spaces)
    frames = []
    try:
        wname = rng.choice(names)
        if variant == "component":
            wname = rng.choice([n for n in names if U.spaces[n].value_shape != ()])
        if variant == "mixed-split":
            wname = rng.choice([n for n in names if n.startswith("Mix")])
        if variant == "row-direction":
            wname = rng.choice([n for n in names if len(U.spaces[n].value_shape) == 2])
        w = U.coef(wname, 0)
        G.extra = [w]
        G.extra_prob = 0.5
        twin = variant in ("whole", "second", "coef-direction") and rng.random() < 0.25
        if twin:
            # a labelled variable that depends on w; below, replace() makes a second variable with the SAME label and
            # another operand (psi(u) and psi(u_old) of a time stepper), and both are differentiated in one expansion
            wc = w[tuple(rng.randrange(d) for d in w.ufl_shape)] if w.ufl_shape else w
            Gs = Gen(U, rng, cplx=cplx, deriv=0, cond=False, math=rng.random() < 0.5, geom=False)
            s_var = ufl.variable(1 + wc * wc + Gs.expr((), 1))
            G.extra = [w, s_var, s_var]
            G.extra_prob = 0.6
        F = G.expr((), rng.choice([2, 3, 3]))
        if twin:
            from ufl.algorithms import replace

            w_old = U.coef(wname, 2)
            F_old = replace(F, {w: w_old})
            F = rng.choice([lambda: F + F_old, lambda: 0.5 * (F + F_old), lambda: F * F_old + F_old])()
            ctx.count("twin_label_cases")
        nxt = max_arg_number(F) + 1
        cd = None
        if variant in ("whole", "second", "cd", "mixed-split"):
            v = U.arg(wname, nxt)
            args = (F, w, v)
            frames.append(((w,), (v,), ()))
        elif variant == "coef-direction":
            v = U.coef(wname, 1)
            args = (F, w, v)
            frames.append(((w,), (v,), ()))
        elif variant == "component":
            comp = tuple(rng.randrange(d) for d in w.ufl_shape)
            sname = rng.choice([n for n in names if U.spaces[n].value_shape == ()])
            v = U.arg(sname, nxt) if rng.random() < 0.7 else U.coef(sname, 1)
            args = (F, w[comp], v)
            frames.append(((("comp", w, comp),), (v,), ()))
        elif variant == "row-direction":
            # the direction is a tensor written row by row: one row is a whole vector (an argument placed as a row, or the
            # components of a tensor argument, which UFL folds to a slice), the other rows are zero; F contains grad(w)
            m_, n_ = w.ufl_shape
            gw = ufl.grad(w)(rng.choice("+-")) if U.interior else ufl.grad(w)
            F = F + rng.choice([lambda: ufl.inner(gw, gw), lambda: gw[0, n_ - 1, 0] * gw[m_ - 1, 0, 0], lambda: ufl.inner(gw, gw) * F])()
            nxt = max_arg_number(F) + 1
            r_ = rng.randrange(m_)
            vecs = [n for n in names if tuple(U.spaces[n].value_shape) == (n_,)]
            if vecs and rng.random() < 0.5:
                q = U.arg(rng.choice(vecs), nxt) if rng.random() < 0.7 else U.coef(rng.choice(vecs), 1)
            else:
                Vt = U.arg(wname, nxt)
                q = [Vt[r_, c_] for c_ in range(n_)]
            D = ufl.as_tensor([q if k_ == r_ else [0] * n_ for k_ in range(m_)])
            args = (F, w, D)
            frames.append(((w,), (D,), ()))
        elif variant == "tuple":
            w2name = rng.choice(names)
            w2 = U.coef(w2name, 1)
            G2 = Gen(U, rng, cplx=cplx, deriv=1, cond=False, geom=False)
            G2.extra = [w, w2]
            G2.extra_prob = 0.6
            F = F + G2.expr((), 2)
            nxt = max_arg_number(F) + 1
            v1, v2 = U.arg(wname, nxt), (U.arg(w2name, nxt) if rng.random() < 0.5 else U.coef(w2name, 0))
            # the tuple in creation order or not, as a tuple or as a list: each coefficient keeps ITS direction
            if rng.random() < 0.5:
                args = (F, (w2, w), (v2, v1)) if rng.random() < 0.6 else (F, [w2, w], [v2, v1])
            else:
                args = (F, (w, w2), (v1, v2))
            frames.append(((w, w2), (v1, v2), ()))
        elif variant in ("tuple-mixedarg", "tuple-auto"):
            # several coefficients, ONE direction on the mixed space of their elements (given or created by UFL):
            # the direction of each coefficient is its slice of the mixed argument
            w2name = rng.choice(names)
            w2 = U.coef(w2name, 1)
            G2 = Gen(U, rng, cplx=cplx, deriv=rng.choice([1, 1, 2]), cond=False, geom=False)
            G2.extra = [w, w2, ufl.grad(w), ufl.grad(w2)]
            G2.extra_prob = 0.7
            F = F + G2.expr((), 2)
            nxt = max_arg_number(F) + 1
            ws = (w, w2) if w.count() < w2.count() or rng.random() < 0.5 else (w2, w)
            if variant == "tuple-mixedarg":
                mixed = ufl.FunctionSpace(U.mesh, E.VMixed([x.ufl_element() for x in ws]))
                vm = ufl.Argument(mixed, nxt)
                args = (F, ws, vm)
            else:
                vm = None
                args = (F, ws)
            frames.append((ws, None, ()))  # directions filled in below from the mixed argument
        elif variant == "auto":
            args = (F, w)
            v = ufl.Argument(w.ufl_function_space(), nxt)
            frames.append(((w,), (v,), ()))
        if variant == "cd":
            # (not a cellwise constant g: a relation dg/dw = <varying field> is inconsistent with g living in DG0, and UFL
            # folds grad(g) = 0 for such g before any derivative rule sees it - nothing well-defined to judge)
            gname = rng.choice([n for n in names if U.spaces[n].ufl_element().pullback.is_identity and U.spaces[n].ufl_element().embedded_superdegree > 0])
            g = U.coef(gname, 1)
            if g == w:
                g = U.coef(gname, 2)
            Gd = Gen(U, rng, cplx=cplx, deriv=0, cond=False, geom=False, math=False)
            dg = Gd.expr(tuple(g.ufl_shape) + tuple(w.ufl_shape), 1)
            G3 = Gen(U, rng, cplx=cplx, deriv=rng.choice([0, 0, 1]), cond=False, geom=False)
            G3.extra = [g, w]
            G3.extra_prob = 0.7
            F = F + G3.expr((), 2)
            args = (F, w, v, {g: dg})
            frames[0] = ((w,), (v,), ((g, dg),))
        e = ufl.derivative(*args)
        if variant in ("tuple-mixedarg", "tuple-auto"):
            if vm is None:
                # find the argument UFL created: number max+1 on the mixed space of the coefficients' elements
                found = [a for a in arguments_of(e) if a.number() == nxt]
                if not found and "CoefficientDerivative" not in node_classes(e):
                    # derivative() folded at construction (the integrand does not depend on anything differentiable):
                    # there is no derivative node that could carry the new argument
                    ctx.count("folded_at_construction")
                    return
                if len(found) != 1:
                    ctx.violation("C02/tuple-auto/created-argument", f"expected exactly one new argument with number {nxt}, found {found}", {"F": str(F)[:600]})
                    return
                vm = found[0]
                subs = list(vm.ufl_element().sub_elements)
                if [repr(x) for x in subs] != [repr(x.ufl_element()) for x in ws]:
                    ctx.violation("C02/tuple-auto/created-argument-space", "the created argument is not on the mixed space of the coefficients' elements",
                                  {"sub_elements": [repr(x) for x in subs], "coefficients": [repr(x.ufl_element()) for x in ws]})
                    return
            dirs = []
            off = 0
            for x in ws:
                sh = tuple(x.ufl_shape)
                n = int(np.prod(sh, dtype=int))
                flat = [vm[off + t] for t in range(n)]
                dirs.append(ufl.as_tensor(np.reshape(np.array(flat, dtype=object), sh).tolist()) if sh else flat[0])
                off += n
            if off != vm.ufl_shape[0]:
                raise ValueError("mixed direction has another size than the coefficients")
            frames[0] = (ws, tuple(dirs), ())
        if variant == "second":
            w_b = w if rng.random() < 0.6 else U.coef(rng.choice(names), 1)
            v_b = U.arg(sorted(n for n in names if U.spaces[n] == w_b.ufl_function_space())[0], nxt + 1)
            e = ufl.derivative(e, w_b, v_b)
            frames.append(((w_b,), (v_b,), ()))
    except Exception as ex:
        ctx.count("build_rejected")
        ctx.covered("build_rejected_with", type(ex).__name__ + ":" + variant)
        return
    try:
        out = expand_derivatives(e)
    except Exception as ex:
        ctx.count("rejected")
        ctx.covered("rejected_with", type(ex).__name__ + ":" + variant)
        if isinstance(ex, INTERNAL_ERRORS):
            # "raises if the derivative cannot be represented" is a refusal (ValueError, NotImplementedError).  An
            # IndexError / KeyError / AttributeError / TypeError out of the expansion's own bookkeeping is not one:
            # when the directional derivative exists (the interpreter evaluates it by definition on three worlds)
            # the expansion neither yielded the expression nor refused
            ws_ = [CurvedWorld(rng, cell, gdim, cplx) for _ in range(3)] if curved else oracle.worlds_for(rng, cell, gdim, itype, cplx, n=3)
            try:
                for wd in ws_:
                    S(F, wd, gateaux=list(frames))
                exists = True
            except Exception:
                exists = False
            if exists:
                tb = traceback.extract_tb(ex.__traceback__)
                site = next((f"{os.path.basename(fr.filename)}:{fr.name}" for fr in reversed(tb) if "/ufl/" in fr.filename), "?")
                ctx.violation(
                    f"C02/{variant}/expansion-crashes/{type(ex).__name__}/{site}",
                    f"expand_derivatives(derivative(F, ...)) raises {type(ex).__name__}: {str(ex)[:120]} (in {site}) although d/dtau F(w + tau v) exists",
                    {"F": str(F)[:1500], "derivative": str(e)[:900], "variant": variant},
                )
        return
    ctx.count("accepted")
    for c in node_classes(F):
        ctx.covered("integrand_node_classes", c)
    if curved:
        worlds = [CurvedWorld(rng, cell, gdim, cplx) for _ in range(3)]
        ctx.count("curved_cases")
    else:
        worlds = oracle.worlds_for(rng, cell, gdim, itype, cplx, n=3)

    def fin(wd, B):
        return S(F, wd, B, gateaux=list(frames))

    def fout(wd, B):
        return S(out, wd, B)

    vs = [oracle.compare_once(fin, fout, wd) for wd in worlds]
    count_verdicts(ctx, vs)
    kinds = [v.kind for v in vs]
    if any(k in ("input-structure", "input-ambiguous") for k in kinds):
        ctx.count("input_not_evaluable")
        return
    verdict = oracle.decide(vs)
    ctx.count("case_" + verdict)
    dep = contains(F, w)
    if curved:
        ctx.count("curved_" + verdict.replace("-", "_"))
    if verdict == "held":
        ctx.covered("variants_held", variant)
        if dep:
            ctx.count("nontrivial")
            ctx.add_distinct((skeleton(F, 3), variant, cell, gdim, itype, cplx))
        ctx.sample({"variant": variant, "cell": [cell, gdim], "itype": itype, "complex": cplx, "w_space": wname, "F": str(F)[:240]})
        bad = derivative_targets_ok(out)
        if bad:
            ctx.violation(f"C02/expand_derivatives/derivative-left/{bad[0]}", f"output still contains {bad[:4]}", {"input": str(e)[:800]})
    elif verdict == "violated":
        bad = next(v for v in vs if v.kind in ("disagree", "output-ambiguous"))
        culprit = localise(F, frames, variant, worlds)
        ctx.violation(
            f"C02/{variant}/{culprit}" + ("/non-affine" if curved else ""),
            f"expand_derivatives(derivative(F, ...)) differs from d/dtau F(w + tau v) (rel. err {bad.err}, {bad.why})",
            {"F": str(F)[:1500], "derivative": str(e)[:600], "expanded": str(out)[:1500], "variant": variant, "world": worlds[0].describe()},
        )


def localise(F, frames, variant, worlds):
    """Smallest sub-expression of F for which derivative + expansion already disagrees (whole-coefficient
    variants only; others report the root skeleton)."""
    from ..passcheck import subexpressions

    if len(frames) != 1 or any(isinstance(w, tuple) for w in frames[0][0]):
        return skeleton(F, 1)
    ws, vs_, cd = frames[0]
    n = 0
    for sub in subexpressions(F):
        nm = type(sub).__name__
        if sub._ufl_is_terminal_ and nm in ("MultiIndex", "Label"):
            continue
        if nm in ("ExprList", "ExprMapping") or nm.endswith("Condition") or nm in ("EQ", "NE", "LT", "GT", "LE", "GE"):
            continue
        if sub.ufl_free_indices:
            continue
        n += 1
        if n > 300:
            break
        try:
            if cd:
                d = ufl.derivative(sub, ws if len(ws) > 1 else ws[0], vs_ if len(vs_) > 1 else vs_[0], dict(cd))
            else:
                d = ufl.derivative(sub, ws if len(ws) > 1 else ws[0], vs_ if len(vs_) > 1 else vs_[0])
            out = expand_derivatives(d)
            vv = [oracle.compare_once(lambda wd, B: S(sub, wd, B, gateaux=list(frames)), lambda wd, B: S(out, wd, B), wd) for wd in worlds[:2]]
        except Exception:
            continue
        if any(v.kind == "disagree" for v in vv):
            return skeleton(sub, 1)
    return skeleton(F, 1)
