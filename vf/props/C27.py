"""C27 - algorithms and form operators never mutate their inputs.

Events: every call of a public algorithm / form operator in random histories of up to 8
applications to one object (results are fed back in as inputs).  Oracle: snapshot of every
input (and of the first object of the history) before the call == snapshot after the call
returned or raised (vf/c27_monitor.py).
"""

import copy

import numpy as np

import ufl
from ufl import algorithms as A
from ufl.algorithms import domain_analysis as DA
import importlib

CFD_mod = importlib.import_module("ufl.algorithms.compute_form_data")
from ufl.algorithms.apply_algebra_lowering import apply_algebra_lowering
from ufl.algorithms.apply_derivatives import apply_coordinate_derivatives, apply_derivatives
from ufl.algorithms.apply_function_pullbacks import apply_function_pullbacks
from ufl.algorithms.apply_geometry_lowering import apply_geometry_lowering
from ufl.algorithms.apply_integral_scaling import apply_integral_scaling
from ufl.algorithms.apply_restrictions import apply_restrictions
from ufl.algorithms.cancel_jacobian_products import cancel_jacobian_products
from ufl.algorithms.check_arities import check_form_arity
from ufl.algorithms.comparison_checker import do_comparison_check
from ufl.algorithms.formtransformations import compute_form_arities
from ufl.algorithms.remove_complex_nodes import remove_complex_nodes
from ufl.algorithms.remove_component_tensors import remove_component_tensors
from ufl.algorithms.renumbering import renumber_indices
from ufl.algorithms.signature import compute_expression_signature
from ufl.core.expr import Expr
from ufl.form import BaseForm, Form
from ufl.integral import Integral

from .. import elements as E
from ..c27_monitor import C27Canon, CallTimeout, Monitor, dag_stats
from ..canon import canon_value
from ..gen import Gen, Universe


def canon(o, mode="abs"):
    return C27Canon(mode).any(o)

LEVEL = "exploration"
ENGINE = "canon"
TECHNIQUE = "mutation monitor: full-fidelity snapshot of every input before and after each real algorithm call in random call histories"
LEVEL_TEXT = (
    "Random histories of up to 8 public algorithm / form-operator applications (compute_form_data with random options, "
    "the apply_* passes, derivative/action/adjoint/lhs/rhs/..., form arithmetic, Integral.reconstruct, Measure calls with a "
    "kept metadata dict, == comparisons) are run on generated forms whose integrals share metadata dicts with numpy arrays "
    "and nested dicts; every input reachable through the call arguments and the first object of the history are "
    "snapshotted (independent canonical walk, repr, hash, signature, arguments, coefficients, deep metadata copy; also "
    "recomputed without the object's caches) before the call and compared after it returned or raised."
)
LEVEL_NOTE = "trusted: vf.canon walk and the digest in vf/c27_monitor.py; only the generated inputs and histories are covered"
RULE = (
    "one case = one random form (1-4 integrals over cell / exterior / interior facets of interval, triangle, tetrahedron "
    "meshes, arity 0-2, shared metadata dicts) or expression and a random history of <= 8 operations drawn from ~70 "
    "public operations; a case is distinct and non-trivial when the pair (canonical form of the start object, sequence of "
    "operation names that returned) is new and at least one operation returned a new object"
)
ASSUMPTIONS = [
    "a change of any of: canonical content, repr, hash, signature, arguments, coefficients, integral metadata/subdomain data "
    "(value, not identity) of an input between 'before the call' and 'after the call' is a mutation",
    "lazily filled caches (signature, hash, arguments) are not mutations: observables are read through the public API",
    "Measure and Integral store the caller's metadata dict by reference and document it as 'assumed immutable'; a later "
    "change made by the *caller* is therefore not asserted against (only counted as metadata_alias_*)",
    "an operation that raises is 'rejected'; its inputs must still be unchanged",
]
BUDGET = {"quick": 50, "thorough": 380}
NCASES = {"quick": 4800, "thorough": 48000}
EVAL_COUNTER = "monitored_calls"
FLOORS = {
    "quick": {"monitored_calls": 4000, "calls_returned": 2500, "input_objects_compared": 6000, "histories": 600,
              "cfd_returned": 150, "metadata_shared_forms": 150, "forms_with_ndarray_metadata": 100,
              "eq_true_distinct_objects": 100, "eq_false_distinct_objects": 100, "near_twins_built": 20,
              "history_rechecks": 6000, "caller_metadata_dicts_checked": 1500},
    "thorough": {"monitored_calls": 40000, "calls_returned": 25000, "input_objects_compared": 60000, "histories": 6000,
                 "cfd_returned": 1500, "metadata_shared_forms": 1500, "forms_with_ndarray_metadata": 1000,
                 "eq_true_distinct_objects": 1000, "eq_false_distinct_objects": 1000, "near_twins_built": 200,
                 "history_rechecks": 60000, "caller_metadata_dicts_checked": 15000, "suite:mut:monitored_calls": 12000},
}
COVER_FLOORS = {
    "quick": {"ops": ["compute_form_data", "attach_estimated_degrees", "apply_integral_scaling", "expand_derivatives",
                      "derivative", "action", "adjoint", "replace", "Integral.reconstruct", "Measure.__call__",
                      "Form.__add__", "Form.__neg__", "Expr.__eq__", "Form.equals", "lhs", "rhs", "energy_norm",
                      "strip_terminal_data", "renumber_indices", "expand_indices", "extract_blocks", "sensitivity_rhs"]},
}
COVER_FLOORS["thorough"] = COVER_FLOORS["quick"]

CELLS = [("interval", 1), ("interval", 2), ("triangle", 2), ("triangle", 2), ("triangle", 3), ("tetrahedron", 3)]


def setup(ctx):
    pass


# ------------------------------------------------------------------ input generation


def metadata_pool(rng):
    """Metadata dicts; objects from this pool are shared between integrals."""
    arr = np.array([rng.random() for _ in range(rng.choice([2, 3, 12]))])
    pool = [
        {},
        {"quadrature_degree": rng.choice([1, 2, 3, 7])},
        {"quadrature_degree": rng.choice([2, 4]), "quadrature_rule": rng.choice(["default", "vertex"])},
        {"quadrature_degree": 2, "weights": arr, "nested": {"a": 1, "b": [1, 2, {"c": 3.5}], "pts": arr[:2]}},
        {"points": np.arange(6, dtype=float).reshape(3, 2), "tag": "custom", "opts": {"optimize": True, "levels": (1, 2)}},
        {"estimated_polynomial_degree": rng.choice([1, 3])},
    ]
    return pool


def build_form(rng, U, G, arity, info, mds):
    """Random form with 1-4 integrals; metadata dict objects are shared between integrals."""
    nint = rng.choice([1, 2, 2, 3, 4])
    F = None
    names = None
    r = rng.random()
    if r < 0.25:
        names = [rng.choice(["MixP2P1", "MixRTDG", "MixNest"])]
    elif r < 0.6:
        names = rng.sample(["P1", "P2", "P1v", "DG1", "P2v", "RT1", "N1_1"], 2)
    else:
        names = rng.sample(sorted(U.spaces), 2)
    sids = [None, None, 1, 2, (1, 2), (2, 3), 5]
    used_md = []
    for k in range(nint):
        e, args = G.integrand(arity, rng.choice([1, 2, 2]), space_names=names)
        md = rng.choice(mds) if (k == 0 or rng.random() < 0.5) else used_md[-1]
        used_md.append(md)
        sid = rng.choice(sids)
        kw = {}
        if rng.random() < 0.12:
            kw["degree"] = rng.choice([1, 2, 5])
        if rng.random() < 0.08:
            kw["scheme"] = "vertex"
        m = U.measure(sid, md if (md or rng.random() < 0.5) else None, **({"degree": kw["degree"]} if "degree" in kw else {}))
        if "scheme" in kw:
            m = m(scheme=kw["scheme"])
        if rng.random() < 0.15:
            m = m(subdomain_data=_sd(U, rng.randrange(2)))
        term = e * m
        F = term if F is None else F + term
    shared = len({id(m) for m in used_md}) < len(used_md) and any(len(m) for m in used_md)
    # do the integrals really hold the same dict object?
    ids = [id(i.metadata()) for i in F.integrals() if i.metadata()]
    info["metadata_shared"] = len(ids) > len(set(ids))
    info["has_ndarray"] = any(isinstance(v, np.ndarray) for i in F.integrals() for v in i.metadata().values())
    return F


class _SD:
    """A subdomain_data object with a ufl_id."""

    def __init__(self, k):
        self._k = k

    def ufl_id(self):
        return 1000 + self._k

    def __repr__(self):
        return f"SD({self._k})"


def _sd(U, k):
    """subdomain_data objects are owned by the universe so that twin forms share them."""
    U = getattr(U, "_U", U)
    tab = U.__dict__.setdefault("_c27_sds", {})
    if k not in tab:
        tab[k] = _SD(k)
    return tab[k]


def twin_expr(rng, U, shape, depth, profile):
    """Two structurally identical expressions built by two separate constructions."""
    st = rng.getstate()
    a = Gen(U, rng, **profile).expr(shape, depth)
    st2 = rng.getstate()
    rng.setstate(st)
    b = Gen(U, rng, **profile).expr(shape, depth)
    rng.setstate(st2)
    return a, b


class _PerturbedUniverse:
    """Proxy of a Universe whose n-th coef()/const() request returns the *other* object of the same kind."""

    def __init__(self, U, n):
        self.__dict__["_U"] = U
        self.__dict__["_n"] = n
        self.__dict__["_calls"] = 0
        self.__dict__["hit"] = False

    def __getattr__(self, name):
        return getattr(self._U, name)

    def _tick(self):
        self.__dict__["_calls"] += 1
        if self._calls == self._n:
            self.__dict__["hit"] = True
            return True
        return False

    def coef(self, name, k=0):
        return self._U.coef(name, 1 - k if self._tick() else k)

    def const(self, shape=(), k=0):
        return self._U.const(shape, 1 - k if self._tick() else k)


class _PerturbedGen(Gen):
    """Gen whose n-th literal differs (same consumption of random numbers)."""

    def __init__(self, U, rng, n, **kw):
        Gen.__init__(self, U, rng, **kw)
        self._n = n
        self._lit = 0
        self.hit = False

    def literal(self):
        v = Gen.literal(self)
        self._lit += 1
        if self._lit == self._n:
            self.hit = True
            return v + 1
        return v


def near_twin_expr(rng, U, shape, depth, profile):
    """(a, b, perturbed): b is built like a, except for one terminal (coefficient / constant / literal)."""
    st = rng.getstate()
    a = Gen(U, rng, **profile).expr(shape, depth)
    st2 = rng.getstate()
    kind = rng.random() < 0.5
    n = rng.choice([1, 1, 2, 3])
    st3 = rng.getstate()
    rng.setstate(st)
    if kind:
        P = _PerturbedUniverse(U, n)
        b = Gen(P, rng, **profile).expr(shape, depth)
        hit = P.hit
    else:
        g = _PerturbedGen(U, rng, n, **profile)
        b = g.expr(shape, depth)
        hit = g.hit
    rng.setstate(st3)
    return a, b, hit


# ------------------------------------------------------------------ operations
# each operation: f(S) -> (name, callable, args, kwargs, describe) or None when not applicable


class State:
    def __init__(self, rng, U, G, cur, arity, cplx):
        self.rng = rng
        self.U = U
        self.G = G
        self.cur = cur
        self.arity = arity
        self.cplx = cplx
        self.others = []  # other forms / expressions usable as second operands


def _scalar_coefs(S):
    names = S.U.spaces_with_shape(())
    return [S.U.coef(n, k) for n in names[:4] for k in range(2)]


def _form_coefs(F):
    try:
        return list(F.coefficients())
    except Exception:
        return []


def op_compute_form_data(S):
    rng = S.rng
    opts = dict(
        do_apply_function_pullbacks=rng.random() < 0.6,
        do_apply_integral_scaling=rng.random() < 0.6,
        do_apply_geometry_lowering=rng.random() < 0.5,
        do_apply_default_restrictions=rng.random() < 0.8,
        do_apply_restrictions=rng.random() < 0.8,
        do_estimate_degrees=rng.random() < 0.7,
        do_append_everywhere_integrals=rng.random() < 0.6,
        do_replace_functions=rng.random() < 0.3,
        complex_mode=S.cplx,
        do_remove_component_tensors=rng.random() < 0.3,
    )
    if opts["do_apply_geometry_lowering"] and rng.random() < 0.4:
        opts["do_cancel_jacobian_products"] = True
    if rng.random() < 0.2:
        opts["preserve_geometry_types"] = (ufl.classes.Jacobian,)
    return ("compute_form_data", A.compute_form_data, (S.cur,), opts, {k: v for k, v in opts.items() if k != "preserve_geometry_types"})


def _simple(name, fn):
    def op(S):
        return (name, fn, (S.cur,), {}, None)

    op.__name__ = "op_" + name
    return op


def op_apply_geometry_lowering(S):
    pres = (ufl.classes.Jacobian, ufl.classes.JacobianInverse) if S.rng.random() < 0.3 else ()
    return ("apply_geometry_lowering", apply_geometry_lowering, (S.cur, pres), {}, None)


def op_apply_restrictions(S):
    kw = {}
    if S.rng.random() < 0.5 and isinstance(S.cur, Form):
        kw["default_restrictions"] = {S.U.mesh: S.rng.choice(["+", "-"])}
    return ("apply_restrictions", apply_restrictions, (S.cur,), kw, None)


def op_group_form_integrals(S):
    if not isinstance(S.cur, Form):
        return None
    return ("group_form_integrals", DA.group_form_integrals, (S.cur, S.cur.ufl_domains()),
            {"do_append_everywhere_integrals": S.rng.random() < 0.5}, None)


def op_build_integral_data(S):
    if not isinstance(S.cur, Form):
        return None

    def f(form):
        g = DA.group_form_integrals(form, form.ufl_domains())
        return DA.build_integral_data(g.integrals())

    return ("build_integral_data", f, (S.cur,), {}, None)


def op_signature(S):
    if isinstance(S.cur, Form):
        if S.rng.random() < 0.5:
            return ("Form.signature", lambda F: F.signature(), (S.cur,), {}, None)
        return ("compute_form_signature", lambda F: A.compute_form_signature(F, F._compute_renumbering()), (S.cur,), {}, None)
    return ("compute_expression_signature", lambda e: compute_expression_signature(e, {}), (S.cur,), {}, None)


def op_replace(S):
    rng = S.rng
    cur = S.cur
    cs = _form_coefs(cur) if isinstance(cur, BaseForm) else list(A.extract_coefficients(cur))
    if not cs:
        return None
    mapping = {}
    for f in rng.sample(cs, min(len(cs), rng.choice([1, 1, 2]))):
        sh = tuple(f.ufl_shape)
        r = rng.random()
        if r < 0.4:
            mapping[f] = ufl.Coefficient(f.ufl_function_space())
        elif r < 0.7:
            mapping[f] = S.G.expr(sh, 1, "free")
        elif sh == ():
            mapping[f] = rng.choice([2.0, 3, 0.5])  # python scalars: replace copies them through as_ufl
        else:
            mapping[f] = 2 * f
    return ("replace", A.replace, (cur, mapping), {}, None)


def op_derivative(S):
    rng = S.rng
    cur = S.cur
    cs = _form_coefs(cur) if isinstance(cur, BaseForm) else list(A.extract_coefficients(cur))
    if not cs:
        return None
    f = rng.choice(cs)
    args = [cur, f]
    kw = {}
    r = rng.random()
    if rng.random() < 0.12 and isinstance(cur, Form):
        # shape derivative: CoordinateDerivative nodes for apply_coordinate_derivatives / integral scaling
        x = ufl.SpatialCoordinate(S.U.mesh)
        try:
            n = len(cur.arguments())
        except Exception:
            return None
        return ("derivative", ufl.derivative, (cur, x, ufl.Argument(S.U.spaces["P1v"], n)), {}, "coordinate derivative")
    if rng.random() < 0.1 and len(cs) >= 2:
        # tuple of coefficients -> argument in a mixed space
        return ("derivative", ufl.derivative, (cur, tuple(rng.sample(cs, 2))), {}, "tuple of coefficients")
    if r < 0.3:
        n = len(cur.arguments()) if isinstance(cur, Form) else 0
        args.append(ufl.Argument(f.ufl_function_space(), n))
    elif r < 0.65 and len(cs) >= 2:
        g = rng.choice([c for c in cs if c is not f])
        try:
            dg = S.G.expr(tuple(g.ufl_shape) + tuple(f.ufl_shape), 1, "free") if len(g.ufl_shape) + len(f.ufl_shape) <= 2 else None
        except Exception:
            dg = None
        if dg is not None:
            args.append(None)
            args.append({g: dg})
    return ("derivative", ufl.derivative, tuple(args), kw, None)


def op_action(S):
    cur = S.cur
    rng = S.rng
    if not isinstance(cur, Form):
        return None
    try:
        arguments = cur.arguments()
    except Exception:
        return None
    if not arguments:
        return None
    if rng.random() < 0.6:
        w = ufl.Coefficient(arguments[-1].ufl_function_space())
        return ("action", ufl.action, (cur, w), {}, None)
    return ("action", ufl.action, (cur,), {}, None)


def op_form_call(S):
    cur = S.cur
    if not isinstance(cur, Form):
        return None
    try:
        arguments = cur.arguments()
    except Exception:
        return None
    cs = _form_coefs(cur)
    args = tuple(ufl.Coefficient(a.ufl_function_space()) for a in arguments) if S.rng.random() < 0.6 else ()
    kw = {}
    if cs and S.rng.random() < 0.6:
        f = S.rng.choice(cs)
        kw["coefficients"] = {f: ufl.Coefficient(f.ufl_function_space())}
    if not args and not kw:
        return None
    return ("Form.__call__", lambda F, *a, **k: F(*a, **k), (cur,) + args, kw, None)


def op_adjoint(S):
    cur = S.cur
    if not isinstance(cur, Form):
        return None
    kw = {}
    if S.rng.random() < 0.3:
        try:
            v, u = cur.arguments()
            kw["reordered_arguments"] = (ufl.Argument(u.ufl_function_space(), 0), ufl.Argument(v.ufl_function_space(), 1))
        except Exception:
            kw = {}
    return ("adjoint", ufl.adjoint, (cur,), kw, None)


def op_energy_norm(S):
    cur = S.cur
    if not isinstance(cur, Form):
        return None
    args = (cur,)
    if S.rng.random() < 0.5:
        try:
            args = (cur, ufl.Coefficient(cur.arguments()[0].ufl_function_space()))
        except Exception:
            pass
    return ("energy_norm", ufl.energy_norm, args, {}, None)


def op_extract_blocks(S):
    cur = S.cur
    if not isinstance(cur, Form):
        return None
    r = S.rng.random()
    if r < 0.4:
        args = (cur,)
    elif r < 0.7:
        args = (cur, S.rng.randrange(2))
    else:
        args = (cur, S.rng.randrange(2), S.rng.randrange(2))
    return ("extract_blocks", ufl.extract_blocks, args, {"replace_argument": S.rng.random() < 0.7}, None)


def op_estimate_degree(S):
    cur = S.cur
    if isinstance(cur, Form) and S.rng.random() < 0.5 and cur.integrals():
        return ("estimate_total_polynomial_degree", A.estimate_total_polynomial_degree, (S.rng.choice(cur.integrals()).integrand(),), {}, None)
    return ("estimate_total_polynomial_degree", A.estimate_total_polynomial_degree, (cur,), {}, None)


def op_strip_terminal_data(S):
    def f(o):
        stripped, mapping = A.strip_terminal_data(o)
        back = A.replace_terminal_data(stripped, mapping)
        return stripped, back

    return ("strip_terminal_data", f, (S.cur,), {}, None)


def op_arith(S):
    cur = S.cur
    rng = S.rng
    if not isinstance(cur, Form):
        return None
    k = rng.choice(["add", "add_self", "sub", "neg", "rmul_py", "rmul_const", "radd0", "sum"])
    other = S.others[-1] if S.others and isinstance(S.others[-1], Form) else cur
    if k == "add":
        return ("Form.__add__", lambda a, b: a + b, (cur, other), {}, None)
    if k == "add_self":
        return ("Form.__add__", lambda a, b: a + b, (cur, cur), {}, None)
    if k == "sub":
        return ("Form.__sub__", lambda a, b: a - b, (cur, other), {}, None)
    if k == "neg":
        return ("Form.__neg__", lambda a: -a, (cur,), {}, None)
    if k == "rmul_py":
        return ("Form.__rmul__", lambda s, a: s * a, (rng.choice([2, 0.5, -1, 0]), cur), {}, None)
    if k == "rmul_const":
        return ("Form.__rmul__", lambda s, a: s * a, (S.U.const((), rng.randrange(2)), cur), {}, None)
    if k == "radd0":
        return ("Form.__radd__", lambda a: 0 + a, (cur,), {}, None)
    return ("sum(forms)", lambda a, b: sum([a, b, a]), (cur, other), {}, None)


def op_integral_ops(S):
    cur = S.cur
    rng = S.rng
    if not isinstance(cur, Form) or not cur.integrals():
        return None
    itg = rng.choice(cur.integrals())
    k = rng.choice(["reconstruct_md", "reconstruct_expr", "reconstruct_sid", "neg", "mul", "rmul", "reconstruct_none"])

    def wrap(f):
        def g(*a, **kw):
            r = f(*a, **kw)
            return Form([r]) if isinstance(r, Integral) else r

        return g

    if k == "reconstruct_md":
        md = rng.choice(metadata_pool(rng))
        return ("Integral.reconstruct", wrap(lambda i, m: i.reconstruct(metadata=m)), (itg, md), {}, None)
    if k == "reconstruct_expr":
        return ("Integral.reconstruct", wrap(lambda i: i.reconstruct(integrand=2 * i.integrand())), (itg,), {}, None)
    if k == "reconstruct_sid":
        return ("Integral.reconstruct", wrap(lambda i, s: i.reconstruct(subdomain_id=s)), (itg, rng.choice([3, (1, 4), "everywhere"])), {}, None)
    if k == "reconstruct_none":
        return ("Integral.reconstruct", wrap(lambda i: i.reconstruct()), (itg,), {}, None)
    if k == "neg":
        return ("Integral.__neg__", wrap(lambda i: -i), (itg,), {}, None)
    if k == "mul":
        return ("Integral.__mul__", wrap(lambda i, s: i * s), (itg, rng.choice([2, 0.5])), {}, None)
    return ("Integral.__rmul__", wrap(lambda s, i: s * i), (S.U.const((), 0), itg), {}, None)


def op_equality(S):
    """== between the current object and a structurally equal / different partner."""
    cur = S.cur
    rng = S.rng
    other = rng.choice(S.others) if S.others and rng.random() < 0.6 else cur
    if isinstance(cur, Form):
        k = rng.choice(["equals", "ne", "bool_eq", "hash"])
        if not isinstance(other, Form):
            other = cur
        if k == "equals":
            return ("Form.equals", lambda a, b: a.equals(b), (cur, other), {}, None)
        if k == "ne":
            return ("Form.__ne__", lambda a, b: a != b, (cur, other), {}, None)
        if k == "bool_eq":
            return ("Form.__eq__", lambda a, b: bool(a == b), (cur, other), {}, None)
        return ("Form.__hash__", lambda a: hash(a), (cur,), {}, None)
    if not isinstance(other, Expr):
        other = cur
    return ("Expr.__eq__", lambda a, b: a == b, (cur, other), {}, None)


def op_measure(S):
    """Measure reconfiguration with a metadata dict the caller keeps."""
    cur = S.cur
    rng = S.rng
    pool = getattr(S, "mds", None) or metadata_pool(rng)
    md = rng.choice(pool[1:])
    # the receiver is a configured measure whose metadata dict may be the one the form's integrals hold
    m = S.U.measure(rng.choice([None, 1]), rng.choice(pool) or None)
    kw = {"metadata": md} if rng.random() < 0.7 else {}
    r = rng.random()
    if r < 0.4:
        kw["degree"] = rng.choice([1, 3])
    elif r < 0.6:
        kw["scheme"] = "vertex"
    elif r < 0.7:
        kw["degree"] = 2
        kw["scheme"] = "default"
    if rng.random() < 0.5 or not kw:
        kw["subdomain_id"] = rng.choice([1, (1, 2)])

    def f(measure, integrand, **k):
        dm = measure(**k)
        dm2 = dm(rng.choice([1, 2]))  # re-use of the configured measure
        return integrand * dm + integrand * dm2

    if isinstance(cur, Form):
        if not cur.integrals():
            return None
        e = cur.integrals()[0].integrand()
    else:
        e = cur
    return ("Measure.__call__", f, (m, e), kw, None)


def op_sensitivity(S):
    return None  # handled by a dedicated history (needs a Variable)


def op_validate(S):
    if not isinstance(S.cur, Form):
        return None
    return ("validate_form", A.validate_form, (S.cur,), {}, None)


def op_arities(S):
    cur = S.cur
    if not isinstance(cur, Form):
        return None
    if S.rng.random() < 0.5:
        return ("compute_form_arities", compute_form_arities, (cur,), {}, None)
    return ("check_form_arity", lambda F: check_form_arity(F, F.arguments(), S.cplx), (cur,), {}, None)


def op_analysis(S):
    k = S.rng.choice(["extract_arguments", "extract_coefficients", "extract_elements", "extract_unique_elements", "extract_base_form_operators"])
    return (k, getattr(A, k), (S.cur,), {}, None)


def op_format(S):
    k = S.rng.choice(["str", "tree_format", "repr", "ufl2unicode"])
    if dag_stats_of(S.cur) > 3000:
        return None
    if k == "ufl2unicode":
        from ufl.formatting.ufl2unicode import ufl2unicode

        return ("ufl2unicode", ufl2unicode, (S.cur,), {}, None)
    if k == "str":
        return ("str", str, (S.cur,), {}, None)
    if k == "repr":
        return ("repr", repr, (S.cur,), {}, None)
    return ("tree_format", A.tree_format, (S.cur,), {}, None)


def dag_stats_of(o):
    if isinstance(o, Form):
        return sum(dag_stats(i.integrand())[0] for i in o.integrals())
    if isinstance(o, Expr):
        return dag_stats(o)[0]
    return 0


def op_to_form(S):
    """Expr -> Form by integrating (only for scalar expressions)."""
    cur = S.cur
    if not isinstance(cur, Expr) or cur.ufl_shape != () or cur.ufl_free_indices:
        return None
    md = S.rng.choice(metadata_pool(S.rng))
    return ("Expr*Measure", lambda e, m: e * m, (cur, S.U.measure(S.rng.choice([None, 1]), md)), {}, None)


def op_diff(S):
    cur = S.cur
    if not isinstance(cur, Expr):
        return None
    vs = [o for o in ufl.algorithms.extract_type(cur, ufl.classes.Variable)]
    if not vs:
        return None
    return ("diff", ufl.diff, (cur, S.rng.choice(sorted(vs, key=lambda v: v.label().count()))), {}, None)


def op_map_integrands(S):
    from ufl.algorithms.map_integrands import map_integrand_dags, map_integrands
    from ufl.corealg.multifunction import MultiFunction

    class Ident(MultiFunction):
        expr = MultiFunction.reuse_if_untouched

        def coefficient(self, o):
            return o

    if S.rng.random() < 0.5:
        return ("map_integrand_dags", map_integrand_dags, (Ident(), S.cur), {}, None)
    return ("map_integrands", map_integrands, (lambda e: 2 * e, S.cur), {}, None)


def op_transformer(S):
    if S.rng.random() < 0.5:
        return ("strip_variables", A.strip_variables, (S.cur,), {}, None)
    return ("apply_transformer", A.apply_transformer, (S.cur, A.ReuseTransformer()), {}, None)


FORM_OPS = [
    (14, op_compute_form_data),
    (3, _simple("attach_estimated_degrees", CFD_mod.attach_estimated_degrees)),
    (3, _simple("apply_integral_scaling", apply_integral_scaling)),
    (3, _simple("expand_derivatives", A.expand_derivatives)),
    (2, _simple("expand_indices", A.expand_indices)),
    (3, _simple("apply_algebra_lowering", apply_algebra_lowering)),
    (2, _simple("apply_derivatives", apply_derivatives)),
    (1, _simple("apply_coordinate_derivatives", apply_coordinate_derivatives)),
    (2, _simple("apply_function_pullbacks", apply_function_pullbacks)),
    (2, op_apply_geometry_lowering),
    (2, op_apply_restrictions),
    (1, _simple("remove_complex_nodes", remove_complex_nodes)),
    (2, _simple("remove_component_tensors", remove_component_tensors)),
    (1, _simple("cancel_jacobian_products", cancel_jacobian_products)),
    (2, _simple("renumber_indices", renumber_indices)),
    (1, _simple("do_comparison_check", do_comparison_check)),
    (1, _simple("change_to_reference_grad", A.change_to_reference_grad)),
    (1, _simple("preprocess_form", lambda F: A.preprocess_form(F, False))),
    (2, op_group_form_integrals),
    (1, op_build_integral_data),
    (2, op_signature),
    (3, op_replace),
    (4, op_derivative),
    (3, op_action),
    (2, op_form_call),
    (3, op_adjoint),
    (2, _simple("lhs", ufl.lhs)),
    (2, _simple("rhs", ufl.rhs)),
    (1, _simple("system", ufl.system)),
    (2, op_energy_norm),
    (1, _simple("functional", ufl.functional)),
    (2, op_extract_blocks),
    (2, op_estimate_degree),
    (2, op_strip_terminal_data),
    (5, op_arith),
    (4, op_integral_ops),
    (6, op_equality),
    (3, op_measure),
    (1, op_validate),
    (1, op_arities),
    (1, op_analysis),
    (1, op_format),
    (1, op_map_integrands),
    (1, op_transformer),
]

EXPR_OPS = [
    (3, _simple("expand_derivatives", A.expand_derivatives)),
    (3, _simple("apply_algebra_lowering", apply_algebra_lowering)),
    (2, _simple("apply_derivatives", apply_derivatives)),
    (2, _simple("expand_indices", A.expand_indices)),
    (2, _simple("renumber_indices", renumber_indices)),
    (1, _simple("remove_complex_nodes", remove_complex_nodes)),
    (2, _simple("remove_component_tensors", remove_component_tensors)),
    (1, _simple("apply_function_pullbacks", apply_function_pullbacks)),
    (1, op_apply_geometry_lowering),
    (1, _simple("cancel_jacobian_products", cancel_jacobian_products)),
    (2, op_replace),
    (2, op_derivative),
    (1, op_diff),
    (2, op_estimate_degree),
    (1, op_signature),
    (1, op_strip_terminal_data),
    (6, op_equality),
    (2, op_to_form),
    (1, op_measure),
    (1, op_analysis),
    (1, op_format),
    (1, op_transformer),
]


def pick(rng, table):
    tot = sum(w for w, _ in table)
    r = rng.random() * tot
    for w, f in table:
        r -= w
        if r <= 0:
            return f
    return table[-1][1]


def results_of(res):
    """Forms / expressions contained in a result (fed back in as next inputs)."""
    out = []

    def walk(o, d=0):
        if isinstance(o, (Form, Expr)):
            out.append(o)
        elif isinstance(o, (tuple, list)) and d < 3:
            for x in o:
                walk(x, d + 1)
        elif type(o).__name__ == "FormData":
            try:
                out.append(o.preprocessed_form)
            except Exception:
                pass

    walk(res)
    return out


# ------------------------------------------------------------------ histories


def run_history(ctx, rng, S, mon, start_label, first=None):
    ops_ok = []
    nsteps = rng.choice([3, 5, 8, 8])
    mon.remember(start_label, S.cur)
    produced_new = False
    for step in range(nsteps):
        table = FORM_OPS if isinstance(S.cur, Form) else EXPR_OPS
        spec = first if step == 0 else None
        for _ in range(6 if spec is None else 0):
            try:
                spec = pick(rng, table)(S)
            except Exception:
                # preparing the operands (arguments(), coefficients() of the current object) was refused by UFL
                ctx.count("operand_preparation_rejected")
                spec = None
            if spec is not None:
                break
        if spec is None:
            break
        name, fn, args, kw, what = spec
        if dag_stats_of(S.cur) > 60000:
            ctx.count("history_stopped_expression_too_large")
            break
        status, res = mon.call(name, fn, *args, _what=what, **kw)
        mon.recheck(name)
        if status == "ok":
            ops_ok.append(name)
            if name == "compute_form_data":
                ctx.count("cfd_returned")
                if kw.get("do_estimate_degrees"):
                    ctx.count("cfd_with_estimate_degrees")
                if kw.get("do_apply_integral_scaling"):
                    ctx.count("cfd_with_integral_scaling")
            if name in ("Expr.__eq__", "Form.equals", "Form.__eq__", "Form.__ne__") and res is True and args[0] is not args[1]:
                ctx.count("eq_true_distinct_objects")
            if name in ("Expr.__eq__", "Form.equals", "Form.__eq__") and res is False and args[0] is not args[1]:
                ctx.count("eq_false_distinct_objects")
            outs = [o for o in results_of(res) if isinstance(o, (Form, Expr))]
            if outs:
                new = rng.choice(outs)
                if new is not S.cur:
                    produced_new = True
                    if isinstance(new, Form) and new.empty():
                        ctx.count("result_empty_form_not_fed_back")
                    elif rng.random() < 0.8:
                        if len(mon.watch) < 4:
                            mon.remember(f"step{step}-result", new)
                        S.others.append(S.cur)
                        S.cur = new
        else:
            ctx.count("rejected")
    return ops_ok, produced_new


def history_form(ctx, i, rng):
    cell, gdim = rng.choice(CELLS)
    itype = rng.choice(["cell", "cell", "cell", "exterior_facet", "interior_facet"])
    if cell == "interval" and itype != "cell" and rng.random() < 0.5:
        itype = "cell"
    cplx = rng.random() < 0.15
    # a third of the forms live on non-affine cells (degree-2 coordinates): the integral scaling factor then has a
    # positive polynomial degree, so passes that update degree estimates have something to write
    U = Universe(rng, cell, gdim, itype, cplx, coord_degree=2 if rng.random() < 0.33 else 1)
    G = Gen(U, rng, deriv=1, cplx=cplx)
    arity = rng.choice([0, 1, 1, 2, 2])
    info = {}
    mds = metadata_pool(rng)
    md_before = [canon_value(m) for m in mds]
    st0 = rng.getstate()
    F = build_form(rng, U, G, arity, info, mds)
    st1 = rng.getstate()
    if info["metadata_shared"]:
        ctx.count("metadata_shared_forms")
    if info["has_ndarray"]:
        ctx.count("forms_with_ndarray_metadata")
    S = State(rng, U, G, F, arity, cplx)
    S.mds = mds
    # a structurally equal twin built separately (for ==) and an unrelated partner
    r = rng.random()
    if r < 0.5:
        st = rng.getstate()
        rng.setstate(st0)
        S.others.append(build_form(rng, U, Gen(U, rng, deriv=1, cplx=cplx), arity, {}, mds))
        rng.setstate(st)
        ctx.count("twin_forms_built")
    elif r < 0.7:
        # near twin: same construction except for one coefficient / constant
        st = rng.getstate()
        n = rng.choice([1, 2, 3, 4, 2])
        st2 = rng.getstate()
        rng.setstate(st0)
        if n % 2:
            P = _PerturbedUniverse(U, n)
            S.others.append(build_form(rng, P, Gen(P, rng, deriv=1, cplx=cplx), arity, {}, mds))
        else:
            P = _PerturbedGen(U, rng, n // 2, deriv=1, cplx=cplx)
            S.others.append(build_form(rng, U, P, arity, {}, mds))
        rng.setstate(st2)
        if P.hit:
            ctx.count("near_twin_forms_built")
    elif r < 0.85:
        S.others.append(build_form(rng, U, Gen(U, rng, deriv=1, cplx=cplx), arity, {}, mds))
    mon = Monitor(ctx, full=rng.random() < 0.6)
    start = canon(F, "abs")
    first = None
    if r < 0.7 and rng.random() < 0.6:
        k = rng.random()
        if k < 0.4:
            first = ("Form.equals", lambda a, b: a.equals(b), (F, S.others[-1]), {}, None)
        elif k < 0.7:
            first = ("Form.__eq__", lambda a, b: bool(a == b), (F, S.others[-1]), {}, None)
        else:
            first = ("Form.__ne__", lambda a, b: not (a != b), (F, S.others[-1]), {}, None)
    ops_ok, new = run_history(ctx, rng, S, mon, "history-start", first)
    # the caller's metadata dicts must be what they were
    for k, m in enumerate(mds):
        ctx.count("caller_metadata_dicts_checked")
        if canon_value(m) != md_before[k]:
            ctx.violation("C27/history/caller-metadata-dict", f"metadata dict handed to a Measure changed during the history {mon.trace}: {md_before[k]} -> {canon_value(m)}", {"history": mon.trace})
    # aliasing (documented behaviour, only recorded)
    for itg in F.integrals():
        if any(itg.metadata() is m for m in mds if m):
            ctx.count("metadata_alias_integral_holds_callers_dict")
            break
    if i % 10 == 3 and F.integrals():
        alias_probe(ctx, U, F.integrals()[0].integrand())
    finish_history(ctx, start, ops_ok, new, F, mon, "form", (cell, gdim, itype, arity))


def alias_probe(ctx, U, e):
    """Recorded, not asserted: Measure/Integral keep the caller's dict by reference ('assumed immutable in
    practice', Integral.__hash__), so a later change by the caller shows in the form; the cached signature stays."""
    d = {"quadrature_degree": 2}
    try:
        F2 = e * U.measure(None, d)
        sig = F2.signature()
    except Exception:
        return
    d["quadrature_degree"] = 9
    ctx.count("alias_probe_forms")
    if F2.integrals()[0].metadata().get("quadrature_degree") == 9:
        ctx.count("alias_probe_integral_metadata_follows_callers_later_change")
    if F2.signature() == sig:
        ctx.count("alias_probe_cached_signature_unchanged")
    try:
        if Form(list(F2.integrals())).signature() != sig:
            ctx.count("alias_probe_recomputed_signature_follows_callers_later_change")
    except Exception:
        pass


def finish_history(ctx, start, ops_ok, new, obj, mon, kind, tag):
    ctx.count("histories")
    ctx.count("histories_" + kind)
    if new and ops_ok:
        ctx.add_distinct((start, tuple(ops_ok)))
    if ctx.case_index is not None and ctx.case_index % 97 == 5:
        r = repr(obj)
        ctx.sample({"kind": kind, "universe": list(map(str, tag)), "start": r[:300] + ("..." if len(r) > 300 else ""),
                    "history": mon.trace, "snapshot_mode": "full" if mon.full else "pure-read"}, limit=3)


def history_expr(ctx, i, rng):
    cell, gdim = rng.choice(CELLS)
    cplx = rng.random() < 0.15
    U = Universe(rng, cell, gdim, "cell", cplx)
    profile = dict(deriv=rng.choice([0, 1, 2]), cplx=cplx)
    shape = rng.choice([(), (), (), (gdim,), (2, 2)])
    depth = rng.choice([2, 3, 3])
    k = rng.random()
    if k >= 0.5:
        a, b, hit = near_twin_expr(rng, U, shape, depth, profile)
        if hit:
            ctx.count("near_twins_built")
    else:
        a, b = twin_expr(rng, U, shape, depth, profile)
    if k < 0.25:
        # copy through eval(repr()): equal content, different terminal objects
        try:
            b = eval(repr(a), E.eval_namespace())
            ctx.count("twins_by_eval_repr")
        except Exception:
            ctx.count("eval_repr_failed")
    elif k < 0.4:
        v = ufl.variable(a)
        a = v * v + ufl.sin(v) if shape == () else v + v
        b = copy.copy(a)
    G = Gen(U, rng, **profile)
    S = State(rng, U, G, a, 0, cplx)
    S.others.append(b)
    if rng.random() < 0.5:
        S.others.append(G.expr(shape, depth))
    mon = Monitor(ctx, full=rng.random() < 0.6)
    mon.remember("twin", b)
    start = canon(a, "abs")
    first = ("Expr.__eq__", lambda x, y: x == y, (a, b), {}, None) if rng.random() < 0.7 else None
    ops_ok, new = run_history(ctx, rng, S, mon, "history-start", first)
    finish_history(ctx, start, ops_ok, new or "Expr.__eq__" in ops_ok, a, mon, "expr", (cell, gdim, shape))


def history_sensitivity(ctx, i, rng):
    """sensitivity_rhs / diff of forms with respect to a Variable, lhs/rhs/system of a mixed-arity form."""
    cell, gdim = rng.choice(CELLS)
    U = Universe(rng, cell, gdim, "cell", False)
    G = Gen(U, rng, deriv=1, piola=False)
    names = U.spaces_with_shape(())
    V = U.spaces[rng.choice([n for n in names if n in ("P1", "P2", "DG1", "P3")])]
    v, u = ufl.TestFunction(V), ufl.TrialFunction(V)
    w = ufl.Coefficient(V)
    s = ufl.variable(G.expr((), 1))
    md = rng.choice(metadata_pool(rng))
    dxm = U.measure(rng.choice([None, 1]), md)
    k = G.expr((), 1)
    a = (s * s + 2) * ufl.inner(ufl.grad(u), ufl.grad(v)) * dxm + s * k * u * v * dxm(2)
    L = ufl.sin(s) * k * v * dxm + s * v * U.measure(3, md)
    mon = Monitor(ctx, full=rng.random() < 0.6)
    for lab, o in (("a", a), ("L", L), ("variable", s)):
        mon.remember(lab, o)
    st, res = mon.call("sensitivity_rhs", ufl.sensitivity_rhs, a, w, L, s)
    mon.recheck("sensitivity_rhs")
    ok = []
    if st == "ok":
        ok.append("sensitivity_rhs")
        st2, r2 = mon.call("expand_derivatives", A.expand_derivatives, res)
        mon.recheck("expand_derivatives")
    else:
        ctx.count("rejected")
    mixed = a + L
    mon.remember("a+L", mixed)
    for name, fn in (("system", ufl.system), ("lhs", ufl.lhs), ("rhs", ufl.rhs), ("diff", lambda F: ufl.diff(F, s))):
        st, res = mon.call(name, fn, mixed)
        mon.recheck(name)
        if st == "ok":
            ok.append(name)
        else:
            ctx.count("rejected")
    finish_history(ctx, canon(mixed, "abs"), ok, True, mixed, mon, "sensitivity", (cell, gdim))


def history_baseform(ctx, i, rng):
    """FormSum / Action / Adjoint / Cofunction / ExternalOperator / Interpolate objects."""
    cell, gdim = rng.choice([("interval", 1), ("triangle", 2), ("tetrahedron", 3)])
    U = Universe(rng, cell, gdim, "cell", False)
    V = U.spaces[rng.choice(["P1", "P2", "DG1"])]
    W = U.spaces[rng.choice(["P1", "P2"])]
    v, u = ufl.TestFunction(V), ufl.TrialFunction(V)
    f, g = ufl.Coefficient(V), ufl.Coefficient(W)
    md = rng.choice(metadata_pool(rng))
    dxm = U.measure(None, md)
    c = ufl.Cofunction(V.dual())
    N = ufl.ExternalOperator(f, g, function_space=V, derivatives=(0, 0))
    Iop = ufl.Interpolate(g * g, V)
    a = ufl.inner(ufl.grad(u), ufl.grad(v)) * dxm + f * u * v * dxm(1)
    L = f * g * v * dxm
    objs = {
        "formsum": L + c,
        "formsum2": 2 * (L + c) - c,
        "extop_form": N * N * v * dxm + L,
        "interp_form": Iop * v * dxm,
        "action_obj": ufl.Action(a, c) if rng.random() < 0.0 else ufl.action(a, f),
        "adjoint_obj": ufl.Adjoint(a),
        "matrix_action": ufl.Action(ufl.Matrix(V, V), f),
    }
    name0 = rng.choice(sorted(objs))
    cur = objs[name0]
    mon = Monitor(ctx, full=rng.random() < 0.6)
    mon.remember("start", cur)
    mon.remember("L", L)
    ok = []
    table = [
        ("expand_derivatives", lambda o: A.expand_derivatives(o)),
        ("derivative", lambda o: ufl.derivative(o, f)),
        ("derivative", lambda o: ufl.derivative(o, g, ufl.Argument(W, len(o.arguments())))),
        ("action", lambda o: ufl.action(o, f)),
        ("adjoint", lambda o: ufl.adjoint(o)),
        # the action of an identity (a bare Argument / Coargument) hands its other operand back: unchanged
        ("action", lambda o: ufl.action(o, ufl.Argument(V, 0))),
        ("action", lambda o: ufl.action(ufl.Coargument(V.dual(), 0), o)),
        ("action", lambda o: ufl.Action(ufl.Coargument(V.dual(), 0), o)),
        ("action", lambda o: ufl.Action(o, ufl.Argument(V, 0))),
        ("replace", lambda o: A.replace(o, {f: ufl.Coefficient(V)})),
        ("BaseForm.__add__", lambda o: o + L),
        ("BaseForm.__add__", lambda o: o + c),
        ("BaseForm.__neg__", lambda o: -o),
        ("BaseForm.__rmul__", lambda o: 3 * o),
        ("BaseForm.__sub__", lambda o: o - c),
        ("BaseForm.__eq__", lambda o: bool(o == o) if not isinstance(o, Expr) else None),
        ("BaseForm.__hash__", lambda o: hash(o)),
        ("BaseForm.arguments", lambda o: (o.arguments(), o.coefficients())),
        ("extract_base_form_operators", lambda o: A.extract_base_form_operators(o)),
        ("apply_algebra_lowering", lambda o: apply_algebra_lowering(o)),
        ("apply_derivatives", lambda o: apply_derivatives(o)),
    ]
    for step in range(rng.choice([3, 5, 8])):
        name, fn = rng.choice(table)
        st, res = mon.call(name, fn, cur)
        mon.recheck(name)
        if st == "ok":
            ok.append(name)
            if isinstance(res, BaseForm) and res is not cur and rng.random() < 0.7:
                cur = res
        else:
            ctx.count("rejected")
    ctx.count("baseform_histories")
    finish_history(ctx, (name0, canon(objs[name0], "abs")), ok, True, objs[name0], mon, "baseform", (cell, gdim, name0))


def case(ctx, i, rng):
    r = i % 20
    try:
        if r < 11:
            history_form(ctx, i, rng)
        elif r < 16:
            history_expr(ctx, i, rng)
        elif r < 18:
            history_sensitivity(ctx, i, rng)
        else:
            history_baseform(ctx, i, rng)
    except CallTimeout:
        # a real call ran into the per-call time limit (expression blow-up inside UFL): nothing is
        # decided for the interrupted call; the history ends here
        ctx.count("histories_abandoned_after_call_timeout")


# ---- additional workload (thorough tier): every call the repository's own tests make to the public algorithms and
# form operators, with the inputs of the outermost call snapshotted before and after (vf/suitemon.py, "mut:" targets)
EXTRA_JOBS = {"thorough": ["suite"]}


def extra_suite(ctx):
    from ..suite_driver import run_suite
    from ..suitemon import MUT_TARGETS

    run_suite(ctx, ["mut:" + k for k in MUT_TARGETS], "C27")
